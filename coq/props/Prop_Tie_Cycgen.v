(* TIE - the four generator methods of emd.cycles.IterateCycles (iterate_cycles, iterate_valids, iterate_subset,
   iterate_chains) and IterateCycles.__init__ against the source of emd/cycles.py (properties C14 / C15;
   notes/TIE_CYCGEN.md). Statements only; every proof is [exact <lemma of proofs/SkelFacts_Cycgen.v>].

   gen/Gen_Skel_Cycgen.v is regenerated on every run by harness/gen_skel_cycgen.py (fail-closed structural translation
   into the mini language of lib/PyLoop.v, N16 and N19 on). N19 (generators_as_lists) translates a generator as the
   function that RETURNS THE LIST of the yielded values in order: prog_<f> is `__yield = []; <body with yield e ->
   __yield = list.append(__yield, e)>; return __yield`. model/SkelPrims_Cycgen.v holds the list-level models
   gen_cycles / gen_valids / gen_subset / gen_chains (what sequence of (index, sample indices) pairs each mode yields;
   sample indices None = the Python None of the augmented map) and the rows added to the table of
   model/SkelPrims_Cyciter.v. [trough] is the integer code of 1.5*pi; [ILoop lp] is the IterateCycles object with the
   attributes [looper_attrs lp]. Rendering: Ok items = the list of tuples is returned, Exc = the generator raises
   (the items yielded before are not observable in the list form), Bad = Stuck = not modelled. *)
From Coq Require Import String List Bool Arith ZArith Sorted.
From EmdV Require Import lib.NpLite model.CycleMaps model.CycleVec model.CycleStat model.CyclesObj.
From EmdV Require Import lib.PyLoop lib.PyLoopTools.
From EmdV Require Import model.SkelPrims_Cyciter gen.Gen_Skel_Cycgen model.SkelPrims_Cycgen proofs.SkelFacts_Cycgen.
Import ListNotations.
Open Scope string_scope.

(* ---- the refinements: translated generator = list-level model, every object, every fuel -------------------- *)
Theorem skeleton_iterate_cycles : forall (trough : Z) (lp : looper) (cv : list Z) (fuel : nat),
  l_cv lp = Some cv -> cv <> [] ->
  exec (gen_prims trough) prog_IterateCycles_iterate_cycles fuel (env0_gcycles lp) =
  gen_render (gen_cycles trough (l_mode lp) cv (l_ph lp)).
Proof. exact SkelFacts_Cycgen.skeleton_iterate_cycles. Qed.

Theorem skeleton_iterate_cycles_novect : forall (trough : Z) (lp : looper) (fuel : nat), l_cv lp = None ->
  exec (gen_prims trough) prog_IterateCycles_iterate_cycles fuel (env0_gcycles lp) = Raise "AttributeError".
Proof. exact SkelFacts_Cycgen.skeleton_iterate_cycles_novect. Qed.

Theorem skeleton_iterate_valids : forall (trough : Z) (lp : looper) (v : list bool) (cv : list Z) (fuel : nat),
  l_valids lp = Some v -> l_cv lp = Some cv ->
  exec (gen_prims trough) prog_IterateCycles_iterate_valids fuel (env0_gvalids lp) =
  gen_render (gen_valids trough (l_mode lp) v cv (l_ph lp)).
Proof. exact SkelFacts_Cycgen.skeleton_iterate_valids. Qed.

Theorem skeleton_iterate_subset : forall (trough : Z) (lp : looper) (sv cv : list Z) (fuel : nat),
  l_sv lp = Some sv -> sv <> [] -> l_cv lp = Some cv ->
  exec (gen_prims trough) prog_IterateCycles_iterate_subset fuel (env0_gsubset lp) =
  gen_render (gen_subset trough (l_mode lp) sv cv (l_ph lp)).
Proof. exact SkelFacts_Cycgen.skeleton_iterate_subset. Qed.

Theorem skeleton_iterate_subset_novect : forall (trough : Z) (lp : looper) (fuel : nat), l_sv lp = None ->
  exec (gen_prims trough) prog_IterateCycles_iterate_subset fuel (env0_gsubset lp) = Raise "AttributeError".
Proof. exact SkelFacts_Cycgen.skeleton_iterate_subset_novect. Qed.

Theorem skeleton_iterate_chains : forall (trough : Z) (lp : looper) (chv sv cv : list Z) (fuel : nat),
  l_chv lp = Some chv -> chv <> [] -> l_sv lp = Some sv -> l_cv lp = Some cv ->
  exec (gen_prims trough) prog_IterateCycles_iterate_chains fuel (env0_gchains lp) =
  gen_render (gen_chains chv sv cv).
Proof. exact SkelFacts_Cycgen.skeleton_iterate_chains. Qed.

Theorem skeleton_iterate_chains_novect : forall (trough : Z) (lp : looper) (fuel : nat), l_chv lp = None ->
  exec (gen_prims trough) prog_IterateCycles_iterate_chains fuel (env0_gchains lp) = Raise "AttributeError".
Proof. exact SkelFacts_Cycgen.skeleton_iterate_chains_novect. Qed.

(* ---- IterateCycles.__init__ <-> SkelPrims_Cyciter.looper_init (the constructor row of the Cyciter table) ---- *)
(* the fresh object ends with exactly the attributes [looper_attrs lp] of the model's looper; ValueError when one
   of the three vectors is empty *)
Theorem skeleton_IterateCycles_init : forall (trough : Z) (t : through) (m : pymode) (v : option (list bool))
    (cv sv chv ph : option (list Z)) (fuel : nat),
  match looper_init t m v cv sv chv ph with
  | Ok lp => exists e', exec (gen_prims trough) prog_IterateCycles_init fuel (env0_init t m v cv sv chv ph) = Normal e' /\
                        lookup "self" e' = Some (vobj (looper_attrs lp))
  | Exc x => exec (gen_prims trough) prog_IterateCycles_init fuel (env0_init t m v cv sv chv ph) = Raise x
  | Bad => False
  end.
Proof. exact SkelFacts_Cycgen.skeleton_IterateCycles_init. Qed.

(* the attribute rows that the generator programs read from [ILoop lp] answer from that dictionary *)
Theorem looper_attrs_rows : forall (trough : Z) (lp : looper) (name : string),
  empty_vec (l_cv lp) || empty_vec (l_sv lp) || empty_vec (l_chv lp) = false ->
  In name looper_attr_names ->
  gen_prims trough ("self." ++ name) [vloop lp] [] = load name (looper_attrs lp).
Proof. exact SkelFacts_Cycgen.looper_attrs_rows. Qed.

Theorem looper_attrs_iter_through : forall (trough : Z) (lp : looper),
  gen_prims trough "self.iter_through" [vloop lp] [] = load "iter_through" (looper_attrs lp).
Proof. exact SkelFacts_Cycgen.looper_attrs_iter_through. Qed.

(* ---- LAW 1: iterate_cycles yields every cycle index 0 .. ncycles-1 exactly once, increasing, each with that cycle's
   sample indices according to the mode (plain map / augmented map, None included) --------------------------- *)
Theorem iterate_cycles_law : forall (trough : Z) (m : pymode) (cv : list Z) (ph : option (list Z)) (items : list item),
  gen_cycles trough m cv ph = Ok items ->
  map fst items = seq 0 (ncycles cv) /\
  map (fun it => Ok (snd it)) items = map (fun k => cycle_inds trough m cv ph (Z.of_nat k)) (seq 0 (ncycles cv)).
Proof. exact SkelFacts_Cycgen.iterate_cycles_law. Qed.

Theorem iterate_cycles_nth : forall (trough : Z) (m : pymode) (cv : list Z) (ph : option (list Z)) (items : list item) (k : nat),
  gen_cycles trough m cv ph = Ok items -> (k < ncycles cv)%nat ->
  exists o, nth_error items k = Some (k, o) /\ cycle_inds trough m cv ph (Z.of_nat k) = Ok o.
Proof. exact SkelFacts_Cycgen.iterate_cycles_nth. Qed.

Theorem iterate_cycles_cycle_mode : forall (trough : Z) (cv : list Z) (ph : option (list Z)),
  gen_cycles trough (PyMode MCycle) cv ph =
  Ok (map (fun k => (k, Some (map_cycle_to_samples cv (Z.of_nat k)))) (seq 0 (ncycles cv))).
Proof. exact SkelFacts_Cycgen.iterate_cycles_cycle_mode. Qed.

(* it raises exactly what the map of the first failing cycle raises *)
Theorem iterate_cycles_raises : forall (trough : Z) (m : pymode) (cv : list Z) (ph : option (list Z)) (x : string),
  gen_cycles trough m cv ph = Exc x ->
  exists k, (k < ncycles cv)%nat /\ cycle_inds trough m cv ph (Z.of_nat k) = Exc x /\
            forall k', (k' < k)%nat -> exists o, cycle_inds trough m cv ph (Z.of_nat k') = Ok o.
Proof. exact SkelFacts_Cycgen.iterate_cycles_raises. Qed.

(* FINDING: the mode is checked inside the loop - an unknown mode is an error only when there is a cycle *)
Theorem iterate_cycles_other_mode : forall (trough : Z) (cv : list Z) (ph : option (list Z)),
  gen_cycles trough PyOther cv ph = match ncycles cv with O => Ok [] | S _ => Exc "ValueError" end.
Proof. exact SkelFacts_Cycgen.iterate_cycles_other_mode. Qed.

(* ---- LAW 2: iterate_valids visits exactly the cycles whose flag is set, increasing; it yields the RANK idx in the
   selection (enumerate), not the cycle number, and skips a cycle whose augmented sample set is None -------------- *)
Theorem iterate_valids_law : forall (trough : Z) (m : pymode) (v : list bool) (cv : list Z) (ph : option (list Z))
    (items : list item),
  gen_valids trough m v cv ph = Ok items ->
  items = flat_map (fun ik => match cycle_inds trough m cv ph (Z.of_nat (snd ik)) with
                              | Ok (Some s) => [(fst ik, Some s)]
                              | _ => []
                              end) (enumerate (where_mask v)).
Proof. exact SkelFacts_Cycgen.iterate_valids_law. Qed.

Theorem iterate_valids_cycle_mode : forall (trough : Z) (v : list bool) (cv : list Z) (ph : option (list Z)),
  gen_valids trough (PyMode MCycle) v cv ph =
  Ok (map (fun ik => (fst ik, Some (map_cycle_to_samples cv (Z.of_nat (snd ik))))) (enumerate (where_mask v))).
Proof. exact SkelFacts_Cycgen.iterate_valids_cycle_mode. Qed.

Theorem valids_selection : forall (v : list bool),
  map snd (enumerate (where_mask v)) = where_mask v /\
  map fst (enumerate (where_mask v)) = seq 0 (count_true v) /\
  StronglySorted lt (where_mask v) /\
  (forall k, In k (where_mask v) <-> nth_error v k = Some true).
Proof. exact SkelFacts_Cycgen.valids_selection. Qed.

(* FINDING: niters (tied in Prop_Tie_Cyciter.v) is one more than the number of items the tied generator yields *)
Theorem valids_count_vs_niters : forall (trough : Z) (lp : looper) (v : list bool) (cv : list Z) (items : list item),
  l_through lp = TValids -> l_valids lp = Some v ->
  gen_valids trough (PyMode MCycle) v cv (l_ph lp) = Ok items ->
  niters_model lp = Ok (Some (Z.of_nat (length items) + 1)%Z).
Proof. exact SkelFacts_Cycgen.valids_count_vs_niters. Qed.

(* ---- LAW 3: iterate_subset yields every subset index 0 .. nsubset-1 in order; for the subset vector of a selection
   these are the visits of SkelPrims_Cyciter.iter_subset_cycles (subset_iteration_law), each with the samples of the
   one cycle it selects -------------------------------------------------------------------------------------- *)
Theorem iterate_subset_law : forall (trough : Z) (m : pymode) (sv cv : list Z) (ph : option (list Z)) (items : list item),
  gen_subset trough m sv cv ph = Ok items ->
  map fst items = seq 0 (nsubset sv) /\
  map (fun it => Ok (snd it)) items = map (fun j => subset_inds trough m sv cv ph (Z.of_nat j)) (seq 0 (nsubset sv)).
Proof. exact SkelFacts_Cycgen.iterate_subset_law. Qed.

Theorem subset_generator_law : forall (trough : Z) (valids : list bool) (cv : list Z) (ph : option (list Z)),
  let sv := get_subset_vector valids in
  gen_subset trough (PyMode MCycle) sv cv ph = Ok (subset_items cv (iter_subset_cycles sv)) /\
  map snd (iter_subset_cycles sv) = map (fun k => [k]) (selected_cycles sv) /\
  StronglySorted lt (selected_cycles sv) /\
  (forall k, In k (selected_cycles sv) <-> nth_error valids k = Some true).
Proof. exact SkelFacts_Cycgen.subset_generator_law. Qed.

(* ---- LAW 4: iterate_chains yields every chain index 0 .. nchain-1 once, each with the concatenation of the samples
   of its cycles ------------------------------------------------------------------------------------------------ *)
Theorem iterate_chains_law : forall (chv sv cv : list Z) (items : list item),
  gen_chains chv sv cv = Ok items ->
  map fst items = seq 0 (nchains chv) /\
  map (fun it => Ok (snd it)) items = map (fun c => chain_inds chv sv cv (Z.of_nat c)) (seq 0 (nchains chv)).
Proof. exact SkelFacts_Cycgen.iterate_chains_law. Qed.

Theorem chain_inds_concat : forall (chv sv cv : list Z) (c : Z) (o : option (list nat)),
  chain_inds chv sv cv c = Ok o ->
  map_chain_to_subset chv c <> [] /\
  o = Some (flat_map (fun k => map_cycle_to_samples cv (Z.of_nat k)) (map_chain_to_cycle chv sv c)) /\
  (forall j, In j (map_chain_to_subset chv c) -> exists k, map_subset_to_cycle sv (Z.of_nat j) = [k]) /\
  map_chain_to_samples chv sv cv c = o.
Proof. exact SkelFacts_Cycgen.chain_inds_concat. Qed.

Theorem iterate_chains_nth : forall (chv sv cv : list Z) (items : list item) (c : nat),
  gen_chains chv sv cv = Ok items -> (c < nchains chv)%nat ->
  nth_error items c =
  Some (c, Some (flat_map (fun k => map_cycle_to_samples cv (Z.of_nat k)) (map_chain_to_cycle chv sv (Z.of_nat c)))).
Proof. exact SkelFacts_Cycgen.iterate_chains_nth. Qed.

Print Assumptions skeleton_iterate_cycles.
Print Assumptions skeleton_iterate_cycles_novect.
Print Assumptions skeleton_iterate_valids.
Print Assumptions skeleton_iterate_subset.
Print Assumptions skeleton_iterate_subset_novect.
Print Assumptions skeleton_iterate_chains.
Print Assumptions skeleton_iterate_chains_novect.
Print Assumptions skeleton_IterateCycles_init.
Print Assumptions looper_attrs_rows.
Print Assumptions looper_attrs_iter_through.
Print Assumptions iterate_cycles_law.
Print Assumptions iterate_cycles_nth.
Print Assumptions iterate_cycles_cycle_mode.
Print Assumptions iterate_cycles_raises.
Print Assumptions iterate_cycles_other_mode.
Print Assumptions iterate_valids_law.
Print Assumptions iterate_valids_cycle_mode.
Print Assumptions valids_selection.
Print Assumptions valids_count_vs_niters.
Print Assumptions iterate_subset_law.
Print Assumptions subset_generator_law.
Print Assumptions iterate_chains_law.
Print Assumptions chain_inds_concat.
Print Assumptions iterate_chains_nth.
