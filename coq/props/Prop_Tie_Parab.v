(* TIE "Parab" - emd/sift.py compute_parabolic_extrema (C05), _nsamples_warn, is_imf (C05, C06) and
   SiftConfig.__iter__ / __len__ / __repr__ (C18). Statements only; every proof is [exact <lemma of
   proofs/SkelFacts_Parab.v>].

   gen/Gen_Skel_Parab.v is regenerated on every run from emd/sift.py by harness/gen_skel_parab.py (fail-closed
   structural translation into the mini language of lib/PyLoop.v, options N16 N17 N18): whole bodies.
   model/SkelPrims_Parab.v gives every primitive of these programs its meaning:
   * compute_parabolic_extrema: a COMPOSITION of numpy primitives (np.array of the literal matrix, w_inv.dot(y),
     abc[k, :], unary minus, * / - +) on exact rationals in canonical form with inf / nan; division by zero written out;
   * is_imf: zero_crossing_count, find_peaks, interp_envelope, the relative-mean decision are oracles (every
     behaviour, interp_envelope may return None or raise); the list-level model [is_imf_model] is defined there;
   * SiftConfig: the store is a [Config.tree].
   Limits (notes/TIE_PARAB.md): exact arithmetic (no rounding, no signed zero); arrays of equal length; is_imf on a
   2-D input; the logger calls and RuntimeWarnings are not modelled; iter / len of a store that is not a dict. *)
From Coq Require Import String List Bool Arith ZArith QArith Qreduction.
From EmdV Require Import model.Extrema lib.PyLoop lib.PyLoopTools gen.Gen_Skel_Parab model.SkelPrims_Parab
  proofs.SkelFacts_Parab.
From EmdV Require model.Config.
Import ListNotations.
Open Scope string_scope.

(* ---------------------------------------------------------------------------------------------- C05 *)
(* compute_parabolic_extrema(y, locs), l = the n extrema (y0, y1, y2, loc): for EVERY input the translated formula
   returns, per extremum, [np_vertex]: Extrema.parabolic_vertex in canonical form when the parabola is not
   degenerate, nan / inf (division by zero) when the three samples are on a line *)
Theorem skeleton_compute_parabolic_extrema : forall (l : list ext) (f : nat),
  exec cpe_prims prog_compute_parabolic_extrema f (cpe_env0 l) = cpe_render l.
Proof. exact SkelFacts_Parab.skeleton_compute_parabolic_extrema. Qed.

(* no degenerate parabola: the translated formula IS Extrema.parabolic_vertex (Qred = canonical form) *)
Theorem skeleton_compute_parabolic_extrema_model : forall (l : list ext) (f : nat),
  Forall nondegenerate l ->
  exec cpe_prims prog_compute_parabolic_extrema f (cpe_env0 l) = cpe_render_model l.
Proof. exact SkelFacts_Parab.skeleton_compute_parabolic_extrema_model. Qed.

Theorem np_vertex_nondegenerate : forall e : ext, nondegenerate e ->
  np_vertex e = (XQ (Qred (fst (model_vertex e))), XQ (Qred (snd (model_vertex e)))).
Proof. exact SkelFacts_Parab.np_vertex_nondegenerate. Qed.

(* degenerate <-> collinear; the triplet around a strict extremum (all _find_extrema passes) never is *)
Theorem par_a_zero_iff_collinear : forall y0 y1 y2 : Q, (par_a y0 y1 y2 == 0 <-> y1 - y0 == y2 - y1)%Q.
Proof. exact SkelFacts_Parab.par_a_zero_iff_collinear. Qed.

Theorem strict_extremum_nondegenerate : forall y0 y1 y2 loc : Q,
  ((y0 < y1 /\ y2 < y1) \/ (y1 < y0 /\ y1 < y2))%Q -> nondegenerate (y0, y1, y2, loc).
Proof. exact SkelFacts_Parab.strict_extremum_nondegenerate. Qed.

(* THE DEGENERATE CASE (finding: model and code differ): the code answers nan / inf, the model (Coq's x / 0 = 0)
   answers (loc - 2, c) *)
Theorem np_vertex_degenerate : forall y0 y1 y2 loc : Q, (par_a y0 y1 y2 == 0)%Q ->
  np_vertex (y0, y1, y2, loc)
  = match qsign (par_b y0 y1 y2) with Eq => (XNan, XNan) | Gt => (XNInf, XNInf) | Lt => (XPInf, XNInf) end
  /\ (fst (parabolic_vertex y0 y1 y2 loc) == loc - 2)%Q
  /\ (snd (parabolic_vertex y0 y1 y2 loc) == par_c y0 y1 y2)%Q.
Proof. exact SkelFacts_Parab.np_vertex_degenerate. Qed.

(* concrete inputs y = (0,1,2), (2,1,0), (0,0,0), loc = 5: code (-inf,-inf), (+inf,-inf), (nan,nan) (as the real
   function answers); model (3,-1), (3,3), (3,0) *)
Theorem cpe_degenerate_examples : forall f : nat,
  exec cpe_prims prog_compute_parabolic_extrema f (cpe_env0 [(0, 1, 2, 5); (2, 1, 0, 5); (0, 0, 0, 5)]%Q)
  = Return (VList [VSig (PVec [XNInf; XPInf; XNan]); VSig (PVec [XNInf; XNInf; XNan])])
  /\ map (fun e => (Qred (fst (model_vertex e)), Qred (snd (model_vertex e)))) [(0, 1, 2, 5); (2, 1, 0, 5); (0, 0, 0, 5)]%Q
     = [(3, -1); (3, 3); (3, 0)]%Q.
Proof. exact SkelFacts_Parab.cpe_degenerate_examples. Qed.

(* _nsamples_warn(N, max_imfs): `return` when max_imfs is None; otherwise falls off the end, the block of the
   warning entered iff N < 2 ** (max_imfs + 1) *)
Theorem skeleton_nsamples_warn : forall (n : nat) (m : option nat) (f : nat),
  exec nsw_prims prog_nsamples_warn f (nsw_env0 n m) = nsw_render n m.
Proof. exact SkelFacts_Parab.skeleton_nsamples_warn. Qed.

Theorem nsamples_warns_spec : forall (n : nat) (m : option nat),
  nsamples_warns n m = true <-> exists k, m = Some k /\ (n < 2 ^ (k + 1))%nat.
Proof. exact SkelFacts_Parab.nsamples_warns_spec. Qed.

(* ---------------------------------------------------------------------------------------- C05 / C06 *)
(* is_imf(imf, avg_tol, envelope_opts, extrema_opts): for every list of columns, every value of the two option
   arguments, every behaviour of the oracles and every fuel, the translated body returns the array of
   [is_imf_model] or raises the first exception of interp_envelope *)
Theorem skeleton_is_imf :
  forall (S E : Type) (zc npeaks ntroughs : S -> nat)
         (envelope : emode -> S -> val (ival S E) -> val (ival S E) -> envres E) (mean_ok : E -> E -> S -> bool)
         (cols : list S) (eo xo : val (ival S E)) (f : nat),
  exec (imf_prims S E zc npeaks ntroughs envelope mean_ok) prog_is_imf f (imf_env0 S E cols eo xo)
  = imf_render S E (is_imf_model S E zc npeaks ntroughs envelope mean_ok cols eo xo).
Proof. exact SkelFacts_Parab.skeleton_is_imf. Qed.

(* laws of the model: one row per column *)
Theorem is_imf_one_row_per_column :
  forall (S E : Type) zc npeaks ntroughs envelope mean_ok (cols : list S) (eo xo : val (ival S E)) rows,
  is_imf_model S E zc npeaks ntroughs envelope mean_ok cols eo xo = inr rows -> length rows = length cols.
Proof. exact SkelFacts_Parab.is_imf_one_row_per_column. Qed.

(* a column without an upper or a lower envelope gets (False, False) *)
Theorem is_imf_no_envelope :
  forall (S E : Type) zc npeaks ntroughs envelope mean_ok (cols : list S) (eo xo : val (ival S E)) rows i x,
  is_imf_model S E zc npeaks ntroughs envelope mean_ok cols eo xo = inr rows -> nth_error cols i = Some x ->
  (envelope Upper x (eff_opts S E eo) xo = EnvNone \/ envelope Lower x (eff_opts S E eo) xo = EnvNone) ->
  nth_error rows i = Some (false, false).
Proof. exact SkelFacts_Parab.is_imf_no_envelope. Qed.

(* with both: (|#extrema - #zero crossings| <= 1, sum|mean of envelopes| / sum|column| < avg_tol) *)
Theorem is_imf_both_envelopes :
  forall (S E : Type) zc npeaks ntroughs envelope mean_ok (cols : list S) (eo xo : val (ival S E)) rows i x u l,
  is_imf_model S E zc npeaks ntroughs envelope mean_ok cols eo xo = inr rows -> nth_error cols i = Some x ->
  envelope Upper x (eff_opts S E eo) xo = EnvOk u -> envelope Lower x (eff_opts S E eo) xo = EnvOk l ->
  nth_error rows i = Some (count_ok S zc npeaks ntroughs x, mean_ok u l x).
Proof. exact SkelFacts_Parab.is_imf_both_envelopes. Qed.

(* option plumbing: envelope_opts=None is {}; both modes get the two option values of the call, unchanged - the
   result depends on the envelope oracle only through (mode, column, eff_opts envelope_opts, extrema_opts) *)
Theorem is_imf_opts_none_is_empty :
  forall (S E : Type) zc npeaks ntroughs envelope mean_ok (cols : list S) (xo : val (ival S E)),
  is_imf_model S E zc npeaks ntroughs envelope mean_ok cols VNone xo
  = is_imf_model S E zc npeaks ntroughs envelope mean_ok cols (empty_dict S E) xo.
Proof. exact SkelFacts_Parab.is_imf_opts_none_is_empty. Qed.

Theorem is_imf_plumbing :
  forall (S E : Type) zc npeaks ntroughs mean_ok
         (env1 env2 : emode -> S -> val (ival S E) -> val (ival S E) -> envres E) (cols : list S) eo xo,
  (forall m x, In x cols -> env1 m x (eff_opts S E eo) xo = env2 m x (eff_opts S E eo) xo) ->
  is_imf_model S E zc npeaks ntroughs env1 mean_ok cols eo xo
  = is_imf_model S E zc npeaks ntroughs env2 mean_ok cols eo xo.
Proof. exact SkelFacts_Parab.is_imf_plumbing. Qed.

(* ---------------------------------------------------------------------------------------------- C18 *)
(* iter(cfg) = the top-level keys in order, len(cfg) = their number, repr(cfg) = <emd.sift.SiftConfig (type)> *)
Theorem skeleton_config_iter : forall (fmt : string -> list string -> string) ty kids (f : nat),
  exec (cfg_prims fmt) prog_config_iter f (cfg_env0 ty (Config.Node kids)) = iter_render (Config.Node kids).
Proof. exact SkelFacts_Parab.skeleton_config_iter. Qed.

Theorem skeleton_config_len : forall (fmt : string -> list string -> string) ty kids (f : nat),
  exec (cfg_prims fmt) prog_config_len f (cfg_env0 ty (Config.Node kids)) = len_render (Config.Node kids).
Proof. exact SkelFacts_Parab.skeleton_config_len. Qed.

Theorem skeleton_config_repr : forall (fmt : string -> list string -> string) ty st (f : nat),
  exec (cfg_prims fmt) prog_config_repr f (cfg_env0 ty st) = repr_render fmt ty.
Proof. exact SkelFacts_Parab.skeleton_config_repr. Qed.

Print Assumptions skeleton_compute_parabolic_extrema.
Print Assumptions skeleton_compute_parabolic_extrema_model.
Print Assumptions np_vertex_nondegenerate.
Print Assumptions par_a_zero_iff_collinear.
Print Assumptions strict_extremum_nondegenerate.
Print Assumptions np_vertex_degenerate.
Print Assumptions cpe_degenerate_examples.
Print Assumptions skeleton_nsamples_warn.
Print Assumptions nsamples_warns_spec.
Print Assumptions skeleton_is_imf.
Print Assumptions is_imf_one_row_per_column.
Print Assumptions is_imf_no_envelope.
Print Assumptions is_imf_both_envelopes.
Print Assumptions is_imf_opts_none_is_empty.
Print Assumptions is_imf_plumbing.
Print Assumptions skeleton_config_iter.
Print Assumptions skeleton_config_len.
Print Assumptions skeleton_config_repr.
