(* C13 - good cycles are exactly those meeting the documented phase criteria.
   Statements only; every proof is [exact <lemma of proofs/CycleVecFacts.v>]. *)
From Coq Require Import ZArith List Bool Lia.
From EmdV Require Import lib.NpLite model.CycleMaps model.CycleVec proofs.CycleVecFacts.
Import ListNotations.
Open Scope Z_scope.

(* every wrap-delimited segment is either wholly unlabelled or wholly one label,
   and it is labelled iff it meets the four criteria *)
Theorem good_iff : forall P mask ph out a b,
  get_cycle_vector P true mask ph = Some out ->
  wrap_hits P ph <> [] ->
  In (a, b) (adj (boundaries P ph)) ->
  ((forall i, (a <= i < b)%nat -> nth_error out i = Some (-1)) \/
   (exists l, 0 <= l /\ forall i, (a <= i < b)%nat -> nth_error out i = Some l)) /\
  ((exists l, 0 <= l /\ forall i, (a <= i < b)%nat -> nth_error out i = Some l)
   <-> meets_criteria P mask ph a b).
Proof. exact CycleVecFacts.good_iff. Qed.

(* the good cycles are an order-preserving renumbering of a subset of the all-cycles partition:
   there is a selection g over all cycles such that every sample's good label is the subset
   number (get_subset_vector g) of its all-cycles label *)
Theorem good_is_renumbered_subset : forall P mask ph allv good,
  get_cycle_vector P false None ph = Some allv ->
  get_cycle_vector P true mask ph = Some good ->
  exists g : list bool,
    length g = ncycles allv /\
    good = map (fun k => nth (Z.to_nat k) (get_subset_vector g) (-1)) allv.
Proof. exact CycleVecFacts.good_is_renumbered_subset. Qed.

(* the per-cycle flag kept by the container agrees with the same criteria *)
Theorem container_flag_agrees : forall P ph flags allv good,
  container_is_good P ph = Some flags ->
  get_cycle_vector P false None ph = Some allv ->
  get_cycle_vector P true None ph = Some good ->
  length flags = ncycles allv /\
  Forall (fun f => f <> None) flags /\
  (forall i k, nth_error allv i = Some k -> 0 <= k ->
     (nth_error flags (Z.to_nat k) = Some (Some true) <->
      exists l, nth_error good i = Some l /\ 0 <= l)).
Proof. exact CycleVecFacts.container_flag_agrees. Qed.

(* ---- the code before the repair (finding C13-container-default-edge) ---- *)
Theorem container_flag_v0_refuted : exists Pd P ph flags allv good i k,
  container_is_good_v0 Pd P ph = Some flags /\
  get_cycle_vector P false None ph = Some allv /\
  get_cycle_vector P true None ph = Some good /\
  nth_error allv i = Some k /\ 0 <= k /\
  nth_error flags (Z.to_nat k) = Some (Some true) /\
  nth_error good i = Some (-1).
Proof. exact CycleVecFacts.container_flag_v0_refuted. Qed.

(* non-vacuity: one good and one bad cycle under the default edge *)
Example c13_premises_hold :
  let P := {| step := 37; e_lo := 2; e_hi := 49; twopi := 50 |} in
  get_cycle_vector P true None [24; 50; 2; 24; 50; 2; 36] = Some [-1; -1; 0; 0; 0; -1; -1] /\
  meets_criteria P None [24; 50; 2; 24; 50; 2; 36] 2 5.
Proof. exact CycleVecFacts.c13_premises_hold. Qed.

Print Assumptions good_iff.
Print Assumptions good_is_renumbered_subset.
Print Assumptions container_flag_agrees.
Print Assumptions container_flag_v0_refuted.
Print Assumptions c13_premises_hold.
