(* C07 - masked sift applies the documented masks, removes them, and is schedule independent.
   Statements only; every proof is [exact <lemma of proofs/MaskSiftFacts.v>].

   Model: model/MaskSift.v (emd/sift.py get_next_imf_mask, get_mask_freqs, mask_sift; the outer loop is
   SiftCore.peel_loop).  Oracles (Section variables): the cosine mask [cosm z phi] (phi in turns), numpy's
   [vscale]/[vdivn]/[vadd]/[vsub], plain single-IMF extraction [extract] (C04's subject), [std], the first-frequency
   estimators [zc_freq]/[if_freq], float division and power.  The worker pool is modelled by its contract: every task
   runs exactly once on some worker ([valid_schedule]), results are delivered keyed by task index ([collect]), and a
   task's result does not depend on the worker that runs it (hypothesis [exec_pure]).  The real multiprocessing
   module and the operating system's scheduler are TRUSTED and exercised by the harness (nprocesses 1..8). *)
From Coq Require Import ZArith QArith List Bool Lia.
From EmdV Require Import lib.NpLite model.Extrema model.SiftCore model.Toys model.Variants model.MaskSift proofs.MaskSiftFacts.
Import ListNotations.

(* ---- the pool ---------------------------------------------------------------------------------------------- *)
Section Pool.
  Variables T R : Type.
  Variable exec : nat -> T -> R.
  Variable f : T -> R.
  Hypothesis exec_pure : forall w a, exec w a = f a.

  (* for every schedule valid for the pool contract - any completion order, any assignment to any number of
     workers - starmap returns [f a | a in args] in argument order *)
  Theorem starmap_schedule_independent : forall nworkers s args,
    valid_schedule nworkers (length args) s = true ->
    collect T R exec s args = Some (map f args).
  Proof. exact (MaskSiftFacts.starmap_schedule_independent T R exec f exec_pure). Qed.
End Pool.

(* such schedules exist for every pool size and task count ... *)
Theorem sequential_valid : forall nworkers n, (1 <= nworkers)%nat -> valid_schedule nworkers n (sequential n) = true.
Proof. exact MaskSiftFacts.sequential_valid. Qed.

(* ... and purity is necessary: a worker-dependent task gives schedule-dependent results *)
Theorem collect_impure_depends_on_schedule :
  exists (exec : nat -> nat -> nat) s1 s2 args,
    valid_schedule 2 (length args) s1 = true /\ valid_schedule 2 (length args) s2 = true /\
    collect nat nat exec s1 args <> collect nat nat exec s2 args.
Proof. exact MaskSiftFacts.collect_impure_depends_on_schedule. Qed.

(* ---- the masked extraction and the masked sift ------------------------------------------------------------------ *)
Section Mask.
  Variables V A F : Type.
  Variable vzero : V.
  Variable vadd vsub : V -> V -> V.
  Variable vscale : A -> V -> V.
  Variable vdivn : nat -> V -> V.
  Variable cosm : F -> Q -> V.
  Variable extract : V -> gni_result V.

  Let mask := mask V A F vscale cosm.
  Let gni_mask := gni_mask V A F vzero vadd vsub vscale vdivn cosm extract.
  Let vsum := vsum V vzero vadd.
  Let imf_of := imf_of V vzero.
  Let flag_of := flag_of V.
  Let is_imf_result := is_imf_result V.

  (* each masked IMF is the equal-weight average (sum divided by n) over the n phases j/n of a turn of
     single-IMF extraction applied to signal-plus-mask, minus THAT SAME mask; the flag is "any" *)
  Theorem gni_mask_spec : forall X z amp n, (1 <= n)%nat ->
    let m := fun j => mask z amp (phase j n) in
    let r := fun j => extract (vadd X (m j)) in
    ((forall j, (j < n)%nat -> is_imf_result (r j) = true) ->
       gni_mask X z amp n =
       Imf (vdivn n (vsum (map (fun j => vsub (imf_of (r j)) (m j)) (seq 0 n))))
           (existsb (fun j => flag_of (r j)) (seq 0 n)) 0) /\
    ((exists j, (j < n)%nat /\ is_imf_result (r j) = false) -> gni_mask X z amp n = ConvergeError 0).
  Proof. exact (MaskSiftFacts.gni_mask_spec V A F vzero vadd vsub vscale vdivn cosm extract). Qed.

  (* a zero-amplitude mask reduces to unmasked extraction, given numpy's laws 0 * v = 0, x + 0 = x, x - 0 = x and
     (p + ... + p) / n = p on well-formed (length-N) signals *)
  Section ZeroAmp.
    Variable wf : V -> Prop.
    Variable azero : A.
    Hypothesis scale_zero : forall z phi, vscale azero (cosm z phi) = vzero.
    Hypothesis add_zero_r : forall x, wf x -> vadd x vzero = x.
    Hypothesis sub_zero_r : forall x, wf x -> vsub x vzero = x.
    Hypothesis mean_const : forall p n, wf p -> (1 <= n)%nat -> vdivn n (vsum (repeat p n)) = p.
    Hypothesis extract_wf : forall x p f k, wf x -> extract x = Imf p f k -> wf p.

    Theorem gni_mask_zero_amp : forall X z n, wf X -> (1 <= n)%nat ->
      match extract X with
      | Imf p f _ => gni_mask X z azero n = Imf p f 0
      | _ => gni_mask X z azero n = ConvergeError 0
      end.
    Proof.
      exact (MaskSiftFacts.gni_mask_zero_amp V A F vzero vadd vsub vscale vdivn cosm extract wf azero
                                             scale_zero add_zero_r sub_zero_r mean_const extract_wf).
    Qed.
  End ZeroAmp.

  (* identical for any number of worker processes and any interleaving the pool contract allows *)
  Variable exec_w : nat -> V -> gni_result V.
  Hypothesis exec_pure : forall w a, exec_w w a = extract a.

  Theorem gni_mask_schedule_independent : forall nworkers s X z amp n,
    valid_schedule nworkers n s = true ->
    gni_mask_pool V A F vzero vadd vsub vscale vdivn cosm exec_w s X z amp n = gni_mask X z amp n.
  Proof. exact (MaskSiftFacts.gni_mask_schedule_independent V A F vzero vadd vsub vscale vdivn cosm extract exec_w exec_pure). Qed.

  Variable fdiv : F -> F -> F.
  Variable fpow : F -> nat -> F.
  Variable fvalid : F -> bool.
  Variable zc_freq if_freq : V -> F.

  (* successive mask frequencies are the first frequency divided by successive powers of the step factor *)
  Theorem ladder_nth : forall z s k i, (i < k)%nat ->
    nth_error (ladder F fdiv fpow z s k) i = Some (fdiv z (fpow s i)) /\ length (ladder F fdiv fpow z s k) = k.
  Proof. exact (MaskSiftFacts.ladder_nth F fdiv fpow). Qed.

  Variable amul : A -> A -> A.
  Variable aone : A.
  Variable std : V -> A.
  Let amp_of := amp_of V A vzero amul aone std.

  (* amplitudes follow the selected mode *)
  Theorem amp_mode_spec : forall X acc p a l layer,
    amp_of AmpAbs (AmpScalar A a) layer X acc = Some (amul a aone) /\
    amp_of RatioSig (AmpScalar A a) layer X acc = Some (amul a (std X)) /\
    amp_of RatioImf (AmpScalar A a) layer X [] = Some (amul a (std X)) /\
    amp_of RatioImf (AmpScalar A a) layer X (acc ++ [p]) = Some (amul a (std p)) /\
    (forall mode, amp_of mode (AmpArray A l) layer X acc =
                  match nth_error l layer with Some a' => amp_of mode (AmpScalar A a') layer X acc | None => None end) /\
    (forall mode, amp_of mode (AmpNpScalar A a) layer X acc = amp_of mode (AmpScalar A a) layer X acc).
  Proof. exact (MaskSiftFacts.amp_mode_spec V A vzero amul aone std). Qed.

  (* the code before the repair (isinstance(mask_amp, (int, float))) indexed numpy scalars: IndexError *)
  Theorem amp_numpy_scalar_v0 : forall mode a layer X acc,
    amp_of_v0 V A vzero amul aone std mode (AmpNpScalar A a) layer X acc = None /\
    amp_of mode (AmpNpScalar A a) layer X acc = Some (amul a (amp_sd V A vzero aone std mode X acc)).
  Proof. exact (MaskSiftFacts.amp_numpy_scalar_v0 V A vzero amul aone std). Qed.

  Theorem amp_sd_ratio_imf_previous_column : forall X imfs k, (1 <= k <= length imfs)%nat ->
    amp_sd V A vzero aone std RatioImf X (firstn k imfs) = std (nth (k - 1) imfs vzero).
  Proof. exact (MaskSiftFacts.amp_sd_ratio_imf_previous_column V A vzero aone std). Qed.

  Variable small : V -> bool.
  Let mask_sift := mask_sift V A F vzero vadd vsub vscale vdivn cosm extract fdiv fpow fvalid zc_freq if_freq amul aone std small.
  Let mask_freqs := mask_freqs V F extract fdiv fpow fvalid zc_freq if_freq.

  (* which list is returned, for each of the four frequency sources *)
  Theorem mask_freqs_by_source : forall src s max_imfs X freqs cap,
    mask_freqs src s max_imfs X = Some (freqs, cap) ->
    match src with
    | FreqList _ l => freqs = l /\ cap = mask_cap max_imfs (Some (length l))
    | FreqFloat _ z => fvalid z = true /\ freqs = ladder F fdiv fpow z s max_imfs /\ cap = max_imfs
    | FreqZC _ => exists p f k, extract X = Imf p f k /\ freqs = ladder F fdiv fpow (zc_freq p) s max_imfs /\ cap = max_imfs
    | FreqIF _ => exists p f k, extract X = Imf p f k /\ freqs = ladder F fdiv fpow (if_freq p) s max_imfs /\ cap = max_imfs
    end.
  Proof. exact (MaskSiftFacts.mask_freqs_by_source V F extract fdiv fpow fvalid zc_freq if_freq). Qed.

  (* the returned mask frequencies are the ones used: column k IS the masked extraction of the running residual with
     the k-th returned frequency and the amplitude the mode prescribes from the columns returned before it *)
  Theorem mask_freqs_returned_are_used : forall fuel src s max_imfs mode arg n X imfs e freqs,
    mask_sift fuel src s max_imfs mode arg n X = Some (imfs, e, freqs) ->
    (exists cap, mask_freqs src s max_imfs X = Some (freqs, cap)) /\
    forall k, (k < length imfs)%nat ->
      exists z amp f,
        nth_error freqs k = Some z /\
        amp_of mode arg k X (firstn k imfs) = Some amp /\
        gni_mask (residual V vzero vadd vsub X (firstn k imfs)) z amp n = Imf (nth k imfs vzero) f 0.
  Proof.
    exact (MaskSiftFacts.mask_freqs_returned_are_used V A F vzero vadd vsub vscale vdivn cosm extract fdiv fpow fvalid
                                                      zc_freq if_freq amul aone std small).
  Qed.

  (* the whole masked sift, every layer through its own pool and schedule *)
  Theorem mask_sift_schedule_independent : forall (scheds : nat -> schedule) fuel src s max_imfs mode arg n X,
    (forall layer, exists nworkers, valid_schedule nworkers n (scheds layer) = true) ->
    mask_sift_pool V A F vzero vadd vsub vscale vdivn cosm extract exec_w fdiv fpow fvalid zc_freq if_freq amul aone std small
                   scheds fuel src s max_imfs mode arg n X
    = mask_sift fuel src s max_imfs mode arg n X.
  Proof.
    exact (MaskSiftFacts.mask_sift_schedule_independent V A F vzero vadd vsub vscale vdivn cosm extract exec_w exec_pure
                                                        fdiv fpow fvalid zc_freq if_freq amul aone std small).
  Qed.
End Mask.

(* the n phases are 0, 1/n, ..., (n-1)/n of a turn: equally spaced, inside [0, 1) *)
Theorem phases_equally_spaced : forall n j, (j < n)%nat ->
  nth_error (phases n) j = Some (phase j n) /\ length (phases n) = n /\
  (0 <= phase j n)%Q /\ (phase j n < 1)%Q /\
  (phase (S j) n - phase j n == 1 # Pos.of_nat n)%Q.
Proof. exact MaskSiftFacts.phases_equally_spaced. Qed.

(* ---- the executable fixed-point instance meets the oracle contracts ------------------------------------------------ *)
Theorem fx_gni_mask_zero_amp : forall c X z n, (1 <= n)%nat ->
  match fx_gni c X with
  | Imf p f _ => fx_gni_mask c X z 0 n = Imf p f 0
  | _ => fx_gni_mask c X z 0 n = ConvergeError 0
  end.
Proof. exact MaskSiftFacts.fx_gni_mask_zero_amp. Qed.

Theorem fx_gni_mask_schedule_independent : forall c nworkers s X z amp n,
  valid_schedule nworkers n s = true -> fx_gni_mask_pool c s X z amp n = fx_gni_mask c X z amp n.
Proof. exact MaskSiftFacts.fx_gni_mask_schedule_independent. Qed.

(* finding C07-numpy-scalar-amplitude: the code before the repair raised before the first layer for a numpy scalar
   amplitude; the repaired code returns what the Python number gives *)
Theorem mask_sift_numpy_scalar_v0_refuted :
  exists c X imfs e fr,
    (exists e0 fr0, fx_mask_sift_v0 c 60 (FreqFloat Q (1 # 4)) (2 # 1) 3 (AmpNpScalar Z 20) 4 X = Some ([], e0, fr0) /\ raised e0 = true) /\
    fx_mask_sift c 60 (FreqFloat Q (1 # 4)) (2 # 1) 3 (AmpNpScalar Z 20) 4 X = Some (imfs, e, fr) /\
    fx_mask_sift c 60 (FreqFloat Q (1 # 4)) (2 # 1) 3 (AmpScalar Z 20) 4 X = Some (imfs, e, fr) /\
    length imfs = 3%nat /\ raised e = false.
Proof. exact MaskSiftFacts.mask_sift_numpy_scalar_v0_refuted. Qed.

Example round_robin_valid_1_8 :
  forallb (fun n => forallb (fun w => valid_schedule w n (round_robin w n)) (seq 1 8)) (seq 0 9) = true.
Proof. exact MaskSiftFacts.round_robin_valid_1_8. Qed.

Example c07_premises_hold :
  exists p q,
    fx_gni_mask ex_cfg ex_X (1 # 4) 20 4 = Imf p true 0 /\
    fx_gni ex_cfg ex_X = Imf q true 2 /\ p <> q /\
    valid_schedule 3 4 ex_sched = true /\
    fx_gni_mask_pool ex_cfg ex_sched ex_X (1 # 4) 20 4 = Imf p true 0 /\
    fx_gni_mask ex_cfg ex_X (1 # 4) 0 4 = Imf q true 0 /\
    (exists imfs e, fx_mask_sift ex_cfg 60 (FreqFloat Q (1 # 4)) (2 # 1) 3 (AmpScalar Z 20) 4 ex_X
                    = Some (imfs, e, [(1 # 4) / 1; (1 # 4) / (2 # 1); (1 # 4) / ((2 # 1) * (2 # 1))]%Q) /\ length imfs = 3%nat).
Proof. exact MaskSiftFacts.c07_premises_hold. Qed.

Print Assumptions starmap_schedule_independent.
Print Assumptions sequential_valid.
Print Assumptions collect_impure_depends_on_schedule.
Print Assumptions gni_mask_spec.
Print Assumptions gni_mask_zero_amp.
Print Assumptions gni_mask_schedule_independent.
Print Assumptions ladder_nth.
Print Assumptions amp_mode_spec.
Print Assumptions amp_numpy_scalar_v0.
Print Assumptions amp_sd_ratio_imf_previous_column.
Print Assumptions mask_sift_numpy_scalar_v0_refuted.
Print Assumptions mask_freqs_by_source.
Print Assumptions mask_freqs_returned_are_used.
Print Assumptions mask_sift_schedule_independent.
Print Assumptions phases_equally_spaced.
Print Assumptions fx_gni_mask_zero_amp.
Print Assumptions fx_gni_mask_schedule_independent.
Print Assumptions round_robin_valid_1_8.
Print Assumptions c07_premises_hold.
