(* C06 - every sift option takes effect at the stage it configures, in every variant.
   Statements only; every proof is [exact <lemma of proofs/OptionsFacts.v>].
   Model: model/Options.v over the tables of gen/Gen_Defaults.v (signature defaults, literal fall-backs and
   get_config's trees, regenerated from emd/sift.py by harness/gen_tables.py before every proof run).

   These are plumbing theorems and shallow on purpose: they say that the call sites of the model hand the three
   bundles on, for every option value of every type, every run shape, six entry points and three delivery routes.
   That the model's call sites ARE the code's is not proved here: it is what the exhaustive correspondence of
   harness/props/c06.py checks on every run (recorded stage calls of the real variants, worker processes
   included, against [calls_c] under vm_compute). *)
From Coq Require Import ZArith List Bool String.
From EmdV Require Import lib.NpLite model.Config gen.Gen_Defaults model.Options proofs.OptionsFacts.
Import ListNotations.
Open Scope string_scope.

(* every recorded call of every stage, in every variant, by every route, works with exactly: the supplied
   value where one was supplied, the parameter's own default otherwise (and, for the two np.pad dictionaries,
   get_padded_extrema's own rule).  The right-hand side knows nothing of variant, route or run shape. *)
Theorem options_reach_stages :
  forall (V : Type) (vfalsy : V -> bool) (inj : val -> V) (u : uopts V), uopts_ok V u = true ->
  forall (v : variant) (r : route) (sh : shape) (c : call V),
  In c (calls V vfalsy inj (repaired V vfalsy inj) v r sh u) ->
  effective V vfalsy inj c = expected_for_stage V vfalsy inj u (c_stage V c).
Proof. exact OptionsFacts.options_reach_stages. Qed.

(* a supplied option is found, with the supplied value, among what its stage works with ... *)
Theorem no_option_dropped :
  forall (V : Type) (vfalsy : V -> bool) (inj : val -> V) (u : uopts V), uopts_ok V u = true ->
  forall (v : variant) (r : route) (sh : shape) (c : call V) (k : string) (x : obj V),
  In c (calls V vfalsy inj (repaired V vfalsy inj) v r sh u) ->
  kget V k (dict_kids V (u_bundle V u (c_stage V c))) = Some x ->
  kget V k (effective V vfalsy inj c) = Some (fallback V vfalsy inj (stage_fn (c_stage V c)) k x).
Proof. exact OptionsFacts.no_option_dropped. Qed.

(* ... and no fall-back touches it unless it is empty / None *)
Theorem supplied_value_kept :
  forall (V : Type) (vfalsy : V -> bool) (inj : val -> V) (u : uopts V), uopts_ok V u = true ->
  forall (v : variant) (r : route) (sh : shape) (c : call V) (k : string) (x : obj V),
  In c (calls V vfalsy inj (repaired V vfalsy inj) v r sh u) ->
  kget V k (dict_kids V (u_bundle V u (c_stage V c))) = Some x -> falsy V vfalsy x = false ->
  kget V k (effective V vfalsy inj c) = Some x.
Proof. exact OptionsFacts.supplied_value_kept. Qed.

(* keyword dictionaries, an unpacked SiftConfig and get_func()'s partial make the same stage calls in the same
   order with the same effective options (the raw dictionaries differ: a configuration spells the defaults out) *)
Theorem routes_agree :
  forall (V : Type) (vfalsy : V -> bool) (inj : val -> V) (u : uopts V), uopts_ok V u = true ->
  forall (v : variant) (sh : shape),
  map (key V vfalsy inj) (calls V vfalsy inj (repaired V vfalsy inj) v RKeyword sh u)
  = map (key V vfalsy inj) (calls V vfalsy inj (repaired V vfalsy inj) v RConfig sh u)
  /\ calls V vfalsy inj (repaired V vfalsy inj) v RPartial sh u
     = calls V vfalsy inj (repaired V vfalsy inj) v RConfig sh u.
Proof. exact OptionsFacts.routes_agree. Qed.

(* the reference is the pipeline assembled by hand: get_next_imf called directly with the user's dictionaries *)
Theorem expected_is_direct_pipeline :
  forall (V : Type) (vfalsy : V -> bool) (inj : val -> V) (u : uopts V), uopts_ok V u = true ->
  forall (n : nat) (c : call V),
  In c (direct_calls V vfalsy inj n u) ->
  effective V vfalsy inj c = expected_for_stage V vfalsy inj u (c_stage V c).
Proof. exact OptionsFacts.expected_is_direct_pipeline. Qed.

(* an invocation of get_next_imf with n sifting iterations makes these stage calls whatever it is given: with
   n >= 1 all five are there, so the statements above are about something *)
Theorem stages_of_invocation :
  forall (V : Type) (vfalsy : V -> bool) (inj : val -> V) (n : nat) (kw : kwargs V),
  map (c_stage V) (G_calls V vfalsy inj n kw)
  = SG :: List.concat (repeat [SE Upper; SP Upper; SE Lower; SP Lower] n).
Proof. exact OptionsFacts.stages_of_invocation. Qed.

(* ---- the code as it was: each of the three call sites loses options (the three C06 findings) ---- *)
Theorem next_imf_mask_v0_refuted :
  (uopts_ok val u_interp = true /\ exists c,
     In c (calls val vfalsy_c inj_c (sites_gnim_v0 val vfalsy_c inj_c) VMask RKeyword unit_shape u_interp)
     /\ effective val vfalsy_c inj_c c <> expected_for_stage val vfalsy_c inj_c u_interp (c_stage val c))
  /\ (uopts_ok val u_pad = true /\ exists c,
     In c (calls val vfalsy_c inj_c (sites_gnim_v0 val vfalsy_c inj_c) VMaskSecond RConfig unit_shape u_pad)
     /\ effective val vfalsy_c inj_c c <> expected_for_stage val vfalsy_c inj_c u_pad (c_stage val c)).
Proof. exact OptionsFacts.next_imf_mask_v0_refuted. Qed.

Theorem mask_freqs_v0_refuted :
  uopts_ok val u_interp = true /\ exists c,
    In c (calls val vfalsy_c inj_c (sites_gmf_v0 val vfalsy_c inj_c) VMask RKeyword unit_shape u_interp)
    /\ effective val vfalsy_c inj_c c <> expected_for_stage val vfalsy_c inj_c u_interp (c_stage val c).
Proof. exact OptionsFacts.mask_freqs_v0_refuted. Qed.

Theorem ceemd_noise_v0_refuted :
  (uopts_ok val u_stop = true /\ exists c,
     In c (calls val vfalsy_c inj_c (sites_noise_v0 val vfalsy_c inj_c) VComplete RKeyword unit_shape u_stop)
     /\ effective val vfalsy_c inj_c c <> expected_for_stage val vfalsy_c inj_c u_stop (c_stage val c))
  /\ (uopts_ok val u_interp = true /\ exists c,
     In c (calls val vfalsy_c inj_c (sites_noise_v0 val vfalsy_c inj_c) VComplete RPartial unit_shape u_interp)
     /\ effective val vfalsy_c inj_c c <> expected_for_stage val vfalsy_c inj_c u_interp (c_stage val c)).
Proof. exact OptionsFacts.ceemd_noise_v0_refuted. Qed.

(* ---- non-vacuity: a concrete set of options (string, float, tuple, bool, nested np.pad dictionary) meets the
   guard; every variant by every route makes stage calls; the masked sift through a partial starts with the five
   stage calls of get_mask_freqs' sift; the supplied interpolation method is at every upper-envelope call of the
   complete ensemble sift; the np.pad dictionary that was not supplied is the documented one and the one that
   was supplied is kept ---- *)
Example c06_premises_hold :
  uopts_ok val u_all = true
  /\ (forall v r, (5 <= List.length (calls val vfalsy_c inj_c (repaired val vfalsy_c inj_c) v r unit_shape u_all))%nat)
  /\ map (fun c => stage_code (c_stage val c))
         (firstn 5 (calls val vfalsy_c inj_c (repaired val vfalsy_c inj_c) VMask RPartial unit_shape u_all))
     = [1; 2; 5; 3; 6]%Z
  /\ Forall (fun c => c_stage val c = SE Upper ->
                      kget val "interp_method" (effective val vfalsy_c inj_c c) = Some (OVal (VStr "mono_pchip")))
            (calls val vfalsy_c inj_c (repaired val vfalsy_c inj_c) VComplete RConfig unit_shape u_all)
  /\ kget val "loc_pad_opts" (expected_for_stage val vfalsy_c inj_c u_all (SP Lower))
     = Some (ODict [("mode", OVal (VStr "reflect")); ("reflect_type", OVal (VStr "odd"))])
  /\ kget val "mag_pad_opts" (expected_for_stage val vfalsy_c inj_c u_all (SP Lower))
     = Some (ODict [("mode", OVal (VStr "mean")); ("stat_length", OVal (VInt 2))]).
Proof. exact OptionsFacts.c06_premises_hold. Qed.

Print Assumptions options_reach_stages.
Print Assumptions no_option_dropped.
Print Assumptions supplied_value_kept.
Print Assumptions routes_agree.
Print Assumptions expected_is_direct_pipeline.
Print Assumptions stages_of_invocation.
Print Assumptions next_imf_mask_v0_refuted.
Print Assumptions mask_freqs_v0_refuted.
Print Assumptions ceemd_noise_v0_refuted.
Print Assumptions c06_premises_hold.
