(* TIE - the hand-written control skeletons of model/SiftCore.v against the source (DESIGN 3.2).
   Statements only; every proof is [exact <lemma of proofs/SkeletonFacts.v>].

   gen/Gen_Skeleton.v is regenerated on every run from emd/sift.py by harness/gen_skeleton.py (fail-closed
   structural translation into the mini language of lib/PyLoop.v).  model/SkeletonPrims.v maps every opaque
   primitive name the translator emitted to an abstract oracle of the model.  The theorems say: under the
   interpreter of PyLoop.v the translated body of get_next_imf computes exactly what [gni_loop] /
   [get_next_imf_gen] compute, and the translated body of sift and the translated outer loop of mask_sift
   compute exactly what [peel_loop] computes - for EVERY signal type, EVERY behaviour of the oracles and EVERY fuel.  A change to the control flow of
   those functions changes Gen_Skeleton.v and these proofs have to go through again. *)
From Coq Require Import String List Bool Arith.
From EmdV Require Import lib.PyLoop model.SiftCore gen.Gen_Skeleton model.SkeletonPrims proofs.SkeletonFacts.
Import ListNotations.
Open Scope string_scope.

(* the arithmetic detail of get_next_imf: the logging test `niters == 3*max_iters//4` sits in front of
   `elif niters > max_iters: raise` and can never mask it *)
Theorem log_test_never_masks_raise : forall n m, (n =? 3 * m / 4)%nat = true -> (m <? n)%nat = false.
Proof. exact SkeletonFacts.log_test_never_masks_raise. Qed.

Section TieGetNextImf.
  Variable V : Type.
  Variable vsub : V -> V -> V.
  Variable vstep : V -> V.
  Variable vavg : V -> V -> V.
  Variable env_u env_l : V -> option V.          (* interp_envelope(x, mode='upper' / 'lower') *)
  Variable stop_sd stop_ril : V -> V -> bool.
  Variable energy_fires : V -> V -> bool.
  Variable method : stop_method.
  Variable max_iters : nat.
  Variable use_energy : bool.

  Let envs := envs_of V env_u env_l.
  Let P := gni_prims V vsub vstep vavg env_u env_l stop_sd stop_ril energy_fires.
  Let model (X : V) :=
    get_next_imf_gen V vsub vstep vavg envs stop_sd stop_ril energy_fires method max_iters use_energy false X.
  (* the model with an arbitrary loop bound instead of max_iters + 2 *)
  Let model_fuel (f : nat) (X : V) :=
    match gni_loop V vsub vstep vavg envs stop_sd stop_ril method max_iters false f 0 X with
    | Imf p flag n => Imf p (flag && negb (use_energy && energy_fires X (vsub X p))) n
    | r => r
    end.
  (* the translated body run on the parameters (X, env_step_size, max_iters, energy_thresh, stop_method,
     sd_thresh, rilling_thresh, envelope_opts = eo, extrema_opts = xo) *)
  Let run (f : nat) (X : V) (eo xo : val V) :=
    exec P prog_get_next_imf f (gni_env0 method max_iters use_energy X eo xo).

  (* for every fuel: Return (imf, flag) / Raise EMDSiftCovergeError / OutOfFuel exactly as the model's
     Imf / ConvergeError / GniOutOfFuel; in particular never Stuck *)
  Theorem skeleton_get_next_imf_exact : forall X f eo xo,
    run f X eo xo = gni_render (model_fuel f X).
  Proof. exact (SkeletonFacts.skeleton_get_next_imf_exact V vsub vstep vavg env_u env_l stop_sd stop_ril energy_fires
                  method max_iters use_energy). Qed.

  (* with the model's own loop bound *)
  Theorem skeleton_get_next_imf_model : forall X eo xo,
    run (max_iters + 2) X eo xo = gni_render (model X).
  Proof. exact (SkeletonFacts.skeleton_get_next_imf_model V vsub vstep vavg env_u env_l stop_sd stop_ril energy_fires
                  method max_iters use_energy). Qed.

  (* with any sufficient fuel, options in the documented range *)
  Theorem skeleton_get_next_imf_refines : forall X f eo xo,
    (method = Fixed -> (1 <= max_iters)%nat) -> (max_iters + 2 <= f)%nat ->
    (forall p flag, run f X eo xo = Return (VList [VSig p; VBool flag]) <-> exists n, model X = Imf p flag n) /\
    (run f X eo xo = Raise "EMDSiftCovergeError" <-> exists n, model X = ConvergeError n) /\
    ((exists p flag, run f X eo xo = Return (VList [VSig p; VBool flag])) \/
     run f X eo xo = Raise "EMDSiftCovergeError").
  Proof. exact (SkeletonFacts.skeleton_get_next_imf_refines V vsub vstep vavg env_u env_l stop_sd stop_ril energy_fires
                  method max_iters use_energy). Qed.
End TieGetNextImf.

Section TieSift.
  Variable V : Type.
  Variable vzero : V.
  Variable vadd vsub : V -> V -> V.
  Variable small : V -> bool.                    (* np.abs(next_imf).sum() < sift_thresh *)
  Variable ext : V -> option (V * bool).         (* get_next_imf as one primitive; None = it raised *)
  Variable cap : option nat.                     (* max_imfs *)

  Let P := sift_prims V vzero vadd vsub small ext.
  Let peel := peel_loop V vzero vadd vsub small (extract_of V ext).

  (* for every fuel (= bound on the number of layers; the code does not guarantee the loop ends):
     Return <the columns of peel_loop> / Raise / OutOfFuel exactly as the model; never Stuck *)
  Theorem skeleton_sift_refines : forall X f vb io eo xo, io_ok io ->
    exec P prog_sift f (sift_env0 cap X vb io eo xo) = sift_render (peel f cap X []).
  Proof. exact (fun X => SkeletonFacts.skeleton_sift_refines V vzero vadd vsub small ext cap X). Qed.

  (* the primitive may be any per-residual extraction, e.g. the model's get_next_imf *)
  Theorem peel_extract_of : forall X (g : V -> gni_result V),
    (forall r, ext r = match g r with Imf p fl _ => Some (p, fl) | _ => None end) ->
    forall f acc, peel_loop V vzero vadd vsub small (fun _ _ r => g r) f cap X acc = peel f cap X acc.
  Proof. exact (fun X => SkeletonFacts.peel_extract_of V vzero vadd vsub small ext cap X). Qed.
End TieSift.

Section TieMaskSift.
  Variable V : Type.
  Variable vzero : V.
  Variable vadd vsub : V -> V -> V.
  Variable small : V -> bool.                    (* np.abs(next_imf).sum() < sift_thresh *)
  Variable gm : V -> val V -> val V -> option (V * bool).   (* get_next_imf_mask(residual, z, amp, ...) *)
  Variable fs : list (val V).                    (* the entries of mask_freqs *)
  Variable mode : amp_mode3.                     (* mask_amp_mode *)
  Variable ma : option (list (val V)).           (* mask_amp: a single number / array_like *)
  Variable sd0 : val V.                          (* sd as initialised above the loop *)
  Variable k : option nat.                       (* max_imfs is None or S k when the loop is reached *)
  Variable rmf : bool.                           (* ret_mask_freq *)

  Let P := mask_prims V vzero vadd vsub small gm.
  (* peel_loop with the per-layer extraction: amp = mask_amp[layer] * sd, z = mask_freqs[layer]
     (IndexError when either is missing), sd = imf[:, -1].std() from the second layer on in ratio_imf mode *)
  Let peel := peel_loop V vzero vadd vsub small (mask_extract V vzero gm fs mode ma sd0).

  (* the translated outer loop of mask_sift (initialisation run, loop, return), entered with the parameters
     as they stand after the option pre-processing, for every fuel: OutOfFuel / Raise (EMDSiftCovergeError
     or IndexError) / Return <columns> (with mask_freqs when ret_mask_freq) exactly as the model *)
  Theorem skeleton_mask_sift_refines : forall X (o : mask_rest V) f,
    mask_agrees fs rmf (exec P prog_mask_sift f (mask_env0 V fs mode ma sd0 k rmf X o))
                (peel f (option_map S k) X []).
  Proof. exact (SkeletonFacts.skeleton_mask_sift_refines V vzero vadd vsub small gm fs mode ma sd0 k rmf). Qed.
End TieMaskSift.

Print Assumptions log_test_never_masks_raise.
Print Assumptions skeleton_get_next_imf_exact.
Print Assumptions skeleton_get_next_imf_model.
Print Assumptions skeleton_get_next_imf_refines.
Print Assumptions skeleton_sift_refines.
Print Assumptions peel_extract_of.
Print Assumptions skeleton_mask_sift_refines.
