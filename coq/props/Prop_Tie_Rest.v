(* TIE - three functions the earlier ties left untied (notes/TIE_REST.md).  Statements only; every proof is
   [exact <lemma of proofs/SkelFacts_Rest.v>].

   1. emd/sift.py  _get_function_opts, get_config  <->  model/Config.v + the regenerated gen/Gen_Defaults.v (C18).
   gen/Gen_Skel_Rest.v is regenerated on every run from emd/sift.py by harness/gen_skel_rest.py (fail-closed
   structural translation into the mini language of lib/PyLoop.v, N16 on).  model/SkelPrims_Rest.v maps every opaque
   primitive the translator emitted to its meaning: inspect.signature / sig.parameters / .default ARE the table
   Config.sigtab (Gen_Defaults.sig_defaults, regenerated from the def lines), the dict displays are the literal
   trees, `out[..] = v` on the SiftConfig is Config.setitem (tied to SiftConfig.__setitem__ by Prop_Tie_Config.v,
   slash paths included), getattr(mod, name) raises for Gen_Defaults.undefined_variants.
   Unqualified Ok / Return / Raise are PyLoop's; the model's constructors are Config.Ok / Config.Err.

   2. emd/spectra.py  quadrature_transform  <->  Freq.quadrature / quad_mask of model/Freq.v (C09).
   gen/Gen_Skel_Restspectra.v; a 2-D array is the list of its columns, numbers are Qc, np.lib.scimath.sqrt(.).real
   and the envelope interpolant are the model's oracles; utils.amplitude_normalise(clip=True) is the function
   Prop_Tie_Freq.v ties.  The mask arithmetic ((diff > 0) * -2 + 1, mask[mask == 0] = -1, the appended last row)
   is proved to be the model's sign rule.

   3. emd/cycles.py  phase_align  <->  CycleStat.phase_align_cycle of model/CycleStat.v (C14).
   gen/Gen_Skel_Restcycles.v (N16: `f(phase_bins)` carries the local callable f).  The cycles object is a VALUE
   CARRYING ITS MODE: `cycles.mode = mode` is an attribute store and iterating the object yields the pairs of the mode it
   carries; the interpolant is the model's exact rational linear interpolation. *)
From Coq Require Import String List Bool Arith ZArith QArith Qcanon.
From EmdV Require Import lib.PyLoop lib.PyLoopTools gen.Gen_Skel_Rest gen.Gen_Skel_Restspectra gen.Gen_Skel_Restcycles
     model.SkelPrims_Rest proofs.SkelFacts_Rest.
From EmdV Require model.Config gen.Gen_Defaults model.Freq model.CycleStat.
Import ListNotations.
Close Scope Q_scope.
Close Scope Z_scope.
Open Scope nat_scope.
Open Scope string_scope.

(* ---- _get_function_opts: for EVERY signature table, function name and ignore argument (None or a list of strings):
        the loop `for p in sig.parameters: if p not in out.keys() and p not in ignore: out[p] = default` returns the
        dict fn_opts computes (hypothesis: no required parameter is kept - its default, inspect.Parameter.empty, is
        not a configuration value) ---- *)
Theorem skeleton_get_function_opts :
  forall (sigs : Config.sigtab) (fn : string) (ign : option (list string)) (o : list (string * Config.tree)) (f : nat),
  fn_opts sigs fn (ignore_list ign) = Some o ->
  exec (opts_prims sigs) prog_get_function_opts f (opts_env0 fn ign) = Return (tree_val (Config.Node o)).
Proof. exact SkelFacts_Rest.skeleton_get_function_opts. Qed.

(* the three stage dicts get_config builds are the model's stage parameters (Config.stage_names with IMF_SKIP /
   ENV_SKIP / EXT_SKIP, the lists Config.effective_options uses) with the defaults of the def lines *)
Theorem stage_dicts_are_stage_names :
  fn_opts Gen_Defaults.sig_defaults "get_next_imf" ["X"; "envelope_opts"; "extrema_opts"]
    = Some (stage_dict "get_next_imf" Config.IMF_SKIP) /\
  fn_opts Gen_Defaults.sig_defaults "interp_envelope" ["X"; "extrema_opts"; "mode"; "ret_extrema"]
    = Some (stage_dict "interp_envelope" Config.ENV_SKIP) /\
  fn_opts Gen_Defaults.sig_defaults "get_padded_extrema" ["X"; "mag_pad_opts"; "loc_pad_opts"; "mode"]
    = Some (stage_dict "get_padded_extrema" Config.EXT_SKIP).
Proof. exact SkelFacts_Rest.stage_dicts_are_stage_names. Qed.

(* ---- get_config(variant), whole body, for the tables as regenerated: a SiftConfig of that type whose store is the
        tree of Gen_Defaults.config_trees (the tree default_config_faithful of proofs/ConfigFacts.v speaks about) ---- *)
Theorem skeleton_get_config : forall (v : string) (t : Config.tree) (f : nat),
  In (v, t) Gen_Defaults.config_trees ->
  exec (config_prims Gen_Defaults.sig_defaults Gen_Defaults.undefined_variants) prog_get_config f (config_env0 v)
  = Return (cfg_val v t).
Proof. exact SkelFacts_Rest.skeleton_get_config. Qed.

(* the names of `sift_types` that the module does not define: getattr raises AttributeError *)
Theorem skeleton_get_config_undefined : forall (v : string) (f : nat),
  In v Gen_Defaults.undefined_variants ->
  exec (config_prims Gen_Defaults.sig_defaults Gen_Defaults.undefined_variants) prog_get_config f (config_env0 v)
  = Raise "AttributeError".
Proof. exact SkelFacts_Rest.skeleton_get_config_undefined. Qed.

(* any name that is not in `sift_types`: the else branch raises AttributeError *)
Theorem skeleton_get_config_unknown : forall (s : string) (f : nat),
  Config.mem_str s SIFT_TYPES = false ->
  exec (config_prims Gen_Defaults.sig_defaults Gen_Defaults.undefined_variants) prog_get_config f (config_env0 s)
  = Raise "AttributeError".
Proof. exact SkelFacts_Rest.skeleton_get_config_unknown. Qed.

(* the three theorems cover every string *)
Theorem sift_types_covered : forall s : string, In s SIFT_TYPES ->
  (exists t, In (s, t) Gen_Defaults.config_trees) \/ In s Gen_Defaults.undefined_variants.
Proof. exact SkelFacts_Rest.sift_types_covered. Qed.

(* ---- the missing comma in `ignore=['X', 'imf_opts' 'envelope_opts', 'extrema_opts']` (the generated program shows the
        literal "imf_optsenvelope_opts"): the variant's own options keep imf_opts / envelope_opts = None ... ---- *)
Theorem missing_comma_visible : forall (v : string) (t : Config.tree), In (v, t) Gen_Defaults.config_trees ->
  exists so so',
    fn_opts Gen_Defaults.sig_defaults v VARIANT_IGNORE_AS_WRITTEN = Some so /\
    Config.aget "imf_opts" so = Some (Config.Leaf Config.VNone) /\
    Config.aget "envelope_opts" so = Some (Config.Leaf Config.VNone) /\
    Config.amem "extrema_opts" so = false /\
    fn_opts Gen_Defaults.sig_defaults v VARIANT_IGNORE_INTENDED = Some so' /\
    Config.amem "imf_opts" so' = false /\ Config.amem "envelope_opts" so' = false.
Proof. exact SkelFacts_Rest.missing_comma_visible. Qed.

(* ... and the `out['imf_opts'] =` / `out['envelope_opts'] =` lines overwrite them in place (a dict keeps the position of
   an existing key): today the store is the one the intended list would give, key order included *)
Theorem missing_comma_harmless : forall (v : string) (t : Config.tree), In (v, t) Gen_Defaults.config_trees ->
  config_model Gen_Defaults.sig_defaults VARIANT_IGNORE_AS_WRITTEN v = Some (Config.Ok t) /\
  config_model Gen_Defaults.sig_defaults VARIANT_IGNORE_INTENDED v = Some (Config.Ok t).
Proof. exact SkelFacts_Rest.missing_comma_harmless. Qed.

(* ================================================================================================== *)
(* ---- quadrature_transform(X), whole body: every column is the model's quadrature of that column (normalise + clip,
        sqrt(1 - v^2), the sign mask from the differences); IndexError when np.diff has no row, i.e. when the
        normalised signal has fewer than 2 samples (the model's quad_mask is total) - for every behaviour of the
        sqrt / envelope oracles, every 2-D input, every fuel ---- *)
Theorem skeleton_quadrature_transform :
  forall (qsqrt : Qc -> Qc) (env_comb : list Qc -> option (list Qc)) (thresh : Qc) (a : list (list Qc)) (f : nat),
  exec (quad_prims qsqrt env_comb thresh) prog_quadrature_transform f (quad_env0 a)
  = quad_render qsqrt env_comb thresh (short_col (norm_arr env_comb thresh a)) a.
Proof. exact SkelFacts_Rest.skeleton_quadrature_transform. Qed.

(* under the shape contract of the envelope oracle the test is on the INPUT: exactly the row `quadrature_transform`
   of the table of the freq tie (map quadrature, IndexError for a column shorter than 2) *)
Theorem skeleton_quadrature_transform_input :
  forall (qsqrt : Qc -> Qc) (env_comb : list Qc -> option (list Qc)) (thresh : Qc),
  (forall x e, env_comb x = Some e -> length e = length x) ->
  forall (a : list (list Qc)) (f : nat),
  exec (quad_prims qsqrt env_comb thresh) prog_quadrature_transform f (quad_env0 a)
  = quad_render qsqrt env_comb thresh (short_col a) a.
Proof. exact SkelFacts_Rest.skeleton_quadrature_transform_input. Qed.

(* the code's mask arithmetic on one column IS the model's sign rule; `mask[mask == 0] = -1` never fires *)
Theorem code_mask_signs : forall nx : list Qc,
  code_mask nx = map (fun dd => if Freq.qltb 0%Qc dd then (- (1))%Qc else 1%Qc) (Freq.diffs nx).
Proof. exact SkelFacts_Rest.code_mask_signs. Qed.

(* ================================================================================================== *)
(* ---- phase_align(ip, x, cycles, npoints, 'linear', ii, mode), whole body, mode in {'cycle', 'augmented'}, cycles None
        or an IterateCycles whose mode attribute is ANY string m0 beforehand: ValueError when the shapes of ip and x or
        the sample count of the cycles object disagree; otherwise (avg, phase_bins) with, for every pair (cind, inds)
        the iterator yields FOR THE MODE THAT WAS SET, column cind = phase_align_cycle (phase of the cycle) (x of the
        cycle) (grid of the mode) - skipped when ii is given and differs or the cycle has no samples; IndexError
        when cind is not a column.  For every behaviour of the oracles and every fuel ---- *)
Theorem skeleton_phase_align :
  forall (pairs : pmode -> list (nat * option (list nat))) (nsamples niters : nat)
         (grid edges : pmode -> nat -> list Q) (unwrap : list Q -> list Q) (tau : Q)
         (m : pmode) (ii : option nat) (ip x : list Q) (c : option string) (n f : nat),
  exec (align_prims pairs nsamples niters grid edges unwrap tau) prog_phase_align f (align_env0 ip x c n ii m)
  = align_render pairs nsamples niters grid unwrap tau m ii ip x n.
Proof. exact SkelFacts_Rest.skeleton_phase_align. Qed.

Print Assumptions skeleton_get_function_opts.
Print Assumptions stage_dicts_are_stage_names.
Print Assumptions skeleton_get_config.
Print Assumptions skeleton_get_config_undefined.
Print Assumptions skeleton_get_config_unknown.
Print Assumptions sift_types_covered.
Print Assumptions missing_comma_visible.
Print Assumptions missing_comma_harmless.
Print Assumptions skeleton_quadrature_transform.
Print Assumptions skeleton_quadrature_transform_input.
Print Assumptions code_mask_signs.
Print Assumptions skeleton_phase_align.
