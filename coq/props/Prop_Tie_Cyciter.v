(* TIE - the cycle iteration helpers (properties C14 / C15 / C16; notes/TIE_CYCITER.md) against the source of
   emd/_cycles_support.py (_slice_len, map_cycle_to_samples_augmented, map_subset_to_sample_augmented,
   get_subset_stat_from_samples) and emd/cycles.py (Cycles.get_inds_of_cycle, iterate, __iter__,
   compute_position_in_chain, the nested _get_chain_len, IterateCycles.niters, __iter__, get_cycle_inds).
   Statements only; every proof is [exact <lemma of proofs/SkelFacts_Cyciter.v>].

   gen/Gen_Skel_Cycitersupport.v and gen/Gen_Skel_Cyciter.v are regenerated on every run from the two source files by
   harness/gen_skel_cyciter.py (fail-closed structural translation into the mini language of lib/PyLoop.v, N16 on).
   model/SkelPrims_Cyciter.v maps every primitive name to a list operation and holds the list-level models of the
   functions that had no hand model. [trough] is the integer code of 1.5*pi, [gm] what get_matching_cycles answers,
   [gcv] what get_cycle_vector answers (both are tied elsewhere; the theorems hold for every behaviour of them).
   The four generator methods of IterateCycles are NOT tied (yield is outside the mini language). *)
From Coq Require Import String List Bool Arith ZArith Sorted.
From EmdV Require Import lib.NpLite model.CycleMaps model.CycleVec model.CycleStat model.CyclesObj.
From EmdV Require Import lib.PyLoop lib.PyLoopTools.
From EmdV Require Import gen.Gen_Skel_Cycitersupport gen.Gen_Skel_Cyciter model.SkelPrims_Cyciter proofs.SkelFacts_Cyciter.
Import ListNotations.
Open Scope string_scope.

(* ---- _slice_len ----------------------------------------------------------------------------------------- *)
Theorem skeleton_slice_len : forall (trough : Z) gm gcv (a b f : nat),
  exec (iter_prims trough gm gcv) prog_slice_len f (env0_slice_len a b) = Return (vint (slice_len (a, b))).
Proof. exact SkelFacts_Cyciter.skeleton_slice_len. Qed.

(* FINDING: "the length of array returned by a slice" is stop - start; the function returns one more *)
Theorem slice_len_off_by_one : forall (A : Type) (l : list A) (a b : nat), (a <= b <= length l)%nat ->
  slice_len (a, b) = (Z.of_nat (length (slice l a b)) + 1)%Z.
Proof. exact SkelFacts_Cyciter.slice_len_off_by_one. Qed.

(* ---- map_cycle_to_samples_augmented <-> CyclesObj.map_cycle_to_samples_aug -------------------------------- *)
(* the program computes its own callee row [aug_res]: None when the previous cycle has no sample above the
   trough code, IndexError when it has one but cycle k has no sample, otherwise the model's index range *)
Theorem skeleton_map_cycle_to_samples_augmented : forall (trough : Z) gm gcv (cv ph : list Z) ii (k : Z) (f : nat),
  scalar_form ii k -> (length cv <= length ph)%nat ->
  exec (iter_prims trough gm gcv) prog_map_cycle_to_samples_augmented f (env0_aug cv ii ph) =
  res_outcome (aug_res trough cv ph k).
Proof. exact SkelFacts_Cyciter.row_aug. Qed.

Theorem aug_res_of_model : forall (trough : Z) (cv ph : list Z) (k : Z) (l : list nat),
  map_cycle_to_samples_aug trough cv ph k = Some l -> aug_res trough cv ph k = Ok (vidx l).
Proof. exact SkelFacts_Cyciter.aug_res_of_model. Qed.

(* FINDING (second disjunct): where the model says None the code may raise IndexError *)
Theorem aug_res_of_model_none : forall (trough : Z) (cv ph : list Z) (k : Z),
  map_cycle_to_samples_aug trough cv ph k = None ->
  (aug_res trough cv ph k = Ok VNone /\
   filter (fun i => Z.ltb trough (nth i ph 0%Z)) (map_cycle_to_samples cv (k - 1)) = []) \/
  (aug_res trough cv ph k = Exc "IndexError" /\ map_cycle_to_samples cv k = [] /\
   filter (fun i => Z.ltb trough (nth i ph 0%Z)) (map_cycle_to_samples cv (k - 1)) <> []).
Proof. exact SkelFacts_Cyciter.aug_res_of_model_none. Qed.

(* LAW: the augmented sample set is a contiguous index range [p, p+n) that starts at a sample of the previous cycle
   whose phase is above the trough, reaches exactly to the last sample of cycle k, and contains every sample of
   cycle k that is not before p *)
Theorem aug_contains_cycle : forall (trough : Z) (cv ph : list Z) (k : Z) (l : list nat),
  map_cycle_to_samples_aug trough cv ph k = Some l ->
  exists p n, l = seq p n /\
              In p (map_cycle_to_samples cv (k - 1)) /\ (trough < nth p ph 0)%Z /\
              (forall i, In i (map_cycle_to_samples cv k) -> (i < p + n)%nat) /\
              (forall i, In i (map_cycle_to_samples cv k) -> (p <= i)%nat -> In i l) /\
              (forall i, In i l -> (p <= i)%nat /\ exists j, In j (map_cycle_to_samples cv k) /\ (i <= j)%nat).
Proof. exact SkelFacts_Cyciter.aug_contains_cycle. Qed.

(* ---- map_subset_to_sample_augmented <-> map_subset_to_sample_aug ----------------------------------------- *)
Theorem skeleton_map_subset_to_sample_augmented : forall (trough : Z) gm gcv (sv cv ph : list Z) ii (j : Z) (f : nat),
  as_scalar ii = Some j ->
  exec (iter_prims trough gm gcv) prog_map_subset_to_sample_augmented f (env0_subaug sv cv ii ph) =
  match map_subset_to_cycle sv j with
  | [k] => res_outcome (aug_res trough cv ph (Z.of_nat k))
  | _ => Stuck
  end.
Proof. exact SkelFacts_Cyciter.skeleton_map_subset_to_sample_augmented. Qed.

(* ---- get_subset_stat_from_samples <-> subset_stat --------------------------------------------------------- *)
Theorem skeleton_get_subset_stat_from_samples : forall (trough : Z) gm gcv (f : list Z -> Z) (vals sv cv l : list Z)
    (fuel : nat),
  Exists (fun s => (-1 <= s)%Z) sv -> (length cv <= length vals)%nat ->
  subset_stat f sv cv vals = Some l ->
  exec (iter_prims trough gm gcv) prog_get_subset_stat_from_samples fuel (env0_substat vals sv cv f) =
  Return (varr (map Some l)).
Proof. exact SkelFacts_Cyciter.skeleton_get_subset_stat_from_samples. Qed.

Theorem skeleton_get_subset_stat_empty : forall (trough : Z) gm gcv (f : list Z -> Z) (vals cv : list Z) (fuel : nat),
  exec (iter_prims trough gm gcv) prog_get_subset_stat_from_samples fuel (env0_substat vals [] cv f) =
  Raise "ValueError".
Proof. exact SkelFacts_Cyciter.skeleton_get_subset_stat_empty. Qed.

(* ---- Cycles.get_inds_of_cycle ----------------------------------------------------------------------------- *)
Theorem skeleton_get_inds_of_cycle : forall (trough : Z) gm gcv (st : cstate) ii (k : Z) (m : pymode) (f : nat),
  as_scalar ii = Some k ->
  as_call (exec (iter_prims trough gm gcv) prog_Cycles_get_inds_of_cycle f (env0_get_inds st ii m)) =
  match m with
  | PyMode MCycle => Return (vidx (map_cycle_to_samples (s_cv st) k))
  | PyMode MAug => res_outcome (aug_res trough (s_cv st) (s_ph st) k)
  | PyOther => Return VNone
  end.
Proof. exact SkelFacts_Cyciter.skeleton_get_inds_of_cycle. Qed.

(* ---- Cycles.iterate, Cycles.__iter__ ---------------------------------------------------------------------- *)
Theorem skeleton_iterate : forall (trough : Z) gm gcv (st : cstate) (t : through) (conds : option (list string))
    (m : pymode) (f : nat),
  exec (iter_prims trough gm gcv) prog_Cycles_iterate f (env0_iterate st t (conds_val conds) m) =
  loop_outcome (iterate_model gm st t (is_some conds) m).
Proof. exact SkelFacts_Cyciter.skeleton_iterate. Qed.

Theorem skeleton_Cycles_iter : forall (trough : Z) gm gcv (st : cstate) (f : nat),
  exec (iter_prims trough gm gcv) prog_Cycles_iter f (env0_citer st) =
  match iterate_model gm st TCycles false (PyMode MCycle) with
  | Ok lp => res_outcome (iter_res lp)
  | Exc x => Raise x
  | Bad => Stuck
  end.
Proof. exact SkelFacts_Cyciter.skeleton_Cycles_iter. Qed.

(* LAW (the generator iterate_subset itself is not tied): iterating through the subset visits, for j = 0, 1, ..,
   exactly one cycle each, namely the cycles with a subset index >= 0, in increasing order *)
Theorem subset_iteration_law : forall (valids : list bool),
  let sv := get_subset_vector valids in
  map snd (iter_subset_cycles sv) = map (fun k => [k]) (selected_cycles sv) /\
  StronglySorted lt (selected_cycles sv) /\
  (forall k, In k (selected_cycles sv) <-> nth_error valids k = Some true).
Proof. exact SkelFacts_Cyciter.subset_iteration_law. Qed.

(* ---- Cycles.compute_position_in_chain <-> CyclesObj.chain_pos / chain_t_vals kind 4 ----------------------- *)
Theorem skeleton_compute_position_in_chain : forall (trough : Z) gm gcv (st : cstate) (chv sv : list Z) (fuel : nat),
  s_chain st = Some chv -> s_subset st = Some sv -> chv <> [] ->
  exists e', exec (iter_prims trough gm gcv) prog_Cycles_compute_position_in_chain fuel (env0_cpic st) = Normal e' /\
             lookup "self" e' = Some (vself (force_metric st "chain_position" (PChainT 4) (position_vals chv sv))).
Proof. exact SkelFacts_Cyciter.skeleton_compute_position_in_chain. Qed.

Theorem skeleton_compute_position_in_chain_nochain : forall (trough : Z) gm gcv (st : cstate) (fuel : nat),
  s_chain st = None ->
  exec (iter_prims trough gm gcv) prog_Cycles_compute_position_in_chain fuel (env0_cpic st) = Raise "ValueError".
Proof. exact SkelFacts_Cyciter.skeleton_compute_position_in_chain_nochain. Qed.

(* the loop of the code (one scatter store per chain) computes the hand model *)
Theorem pos_upto_chain_pos : forall (chv : list Z), Forall (fun c => (0 <= c)%Z) chv ->
  pos_upto chv (nchains chv) = chain_pos chv.
Proof. exact SkelFacts_Cyciter.pos_upto_chain_pos. Qed.

(* LAW: read along the members of any chain, the positions are 0, 1, 2, ... (so they restart at each chain) *)
Theorem chain_position_counts : forall (chv : list Z) (c : Z), Forall (fun x => (0 <= x)%Z) chv ->
  map (fun j => nth j (pos_upto chv (nchains chv)) 0%Z) (map_chain_to_subset chv c) =
  arange (length (map_chain_to_subset chv c)).
Proof. exact SkelFacts_Cyciter.chain_position_counts. Qed.

Theorem position_vals_model : forall (st : cstate) (chv sv : list Z), Forall (fun c => (0 <= c)%Z) chv ->
  chain_t_vals st chv sv 4 = Some (position_vals chv sv).
Proof. exact SkelFacts_Cyciter.position_vals_model. Qed.

(* the unguarded dictionary store is the model's add_metric when there is one subset entry per cycle *)
Theorem force_metric_model : forall (st : cstate) (chv sv : list Z), length sv = ncyc st ->
  force_metric st "chain_position" (PChainT 4) (position_vals chv sv) =
  fst (add_metric st (chain_t_name 4) (PChainT 4) (position_vals chv sv)).
Proof. exact SkelFacts_Cyciter.force_metric_model. Qed.

(* ---- _get_chain_len <-> CyclesObj.f_nunique ---------------------------------------------------------------- *)
Theorem skeleton_get_chain_len : forall (trough : Z) gm gcv (x : list Z) (f : nat),
  exec (iter_prims trough gm gcv) prog_get_chain_len f (env0_chain_len x) = Return (VNat (nunique x)).
Proof. exact SkelFacts_Cyciter.skeleton_get_chain_len. Qed.

Theorem nunique_model : forall (x : list Z), Z.of_nat (nunique x) = f_nunique x.
Proof. exact SkelFacts_Cyciter.nunique_model. Qed.

(* ---- IterateCycles.niters, IterateCycles.__iter__ ---------------------------------------------------------- *)
Theorem skeleton_niters : forall (trough : Z) gm gcv (lp : looper) (f : nat),
  as_call (exec (iter_prims trough gm gcv) prog_IterateCycles_niters f (env0_niters lp)) =
  niters_outcome (niters_model lp).
Proof. exact SkelFacts_Cyciter.skeleton_niters. Qed.

(* FINDING: with a selection, niters is the number of selected cycles PLUS ONE *)
Theorem niters_valids_off_by_one : forall (lp : looper) (v : list bool),
  l_through lp = TValids -> l_valids lp = Some v ->
  niters_model lp = Ok (Some (Z.of_nat (count_true v) + 1)%Z).
Proof. exact SkelFacts_Cyciter.niters_valids_off_by_one. Qed.

Theorem skeleton_IterateCycles_iter : forall (trough : Z) gm gcv (lp : looper) (f : nat),
  exec (iter_prims trough gm gcv) prog_IterateCycles_iter f (env0_liter lp) = res_outcome (iter_res lp).
Proof. exact SkelFacts_Cyciter.skeleton_IterateCycles_iter. Qed.

(* ---- get_cycle_inds: a transparent (deprecated) wrapper of get_cycle_vector -------------------------------- *)
Theorem skeleton_get_cycle_inds : forall (trough : Z) gm (gcv : res (val ival)) (args kwargs : val ival) (f : nat),
  exec (iter_prims trough gm gcv) prog_get_cycle_inds f (env0_gci args kwargs) = res_outcome gcv.
Proof. exact SkelFacts_Cyciter.skeleton_get_cycle_inds. Qed.

Print Assumptions skeleton_slice_len.
Print Assumptions slice_len_off_by_one.
Print Assumptions skeleton_map_cycle_to_samples_augmented.
Print Assumptions aug_res_of_model.
Print Assumptions aug_res_of_model_none.
Print Assumptions aug_contains_cycle.
Print Assumptions skeleton_map_subset_to_sample_augmented.
Print Assumptions skeleton_get_subset_stat_from_samples.
Print Assumptions skeleton_get_subset_stat_empty.
Print Assumptions skeleton_get_inds_of_cycle.
Print Assumptions skeleton_iterate.
Print Assumptions skeleton_Cycles_iter.
Print Assumptions subset_iteration_law.
Print Assumptions skeleton_compute_position_in_chain.
Print Assumptions skeleton_compute_position_in_chain_nochain.
Print Assumptions pos_upto_chain_pos.
Print Assumptions chain_position_counts.
Print Assumptions position_vals_model.
Print Assumptions force_metric_model.
Print Assumptions skeleton_get_chain_len.
Print Assumptions nunique_model.
Print Assumptions skeleton_niters.
Print Assumptions niters_valids_off_by_one.
Print Assumptions skeleton_IterateCycles_iter.
Print Assumptions skeleton_get_cycle_inds.
