(* TIE - the sift configuration object of emd/sift.py (SiftConfig and _array_or_tuple_to_list) against the hand-written
   model/Config.v (property C18).  Statements only; every proof is [exact <lemma of proofs/SkelFacts_Config.v>].

   gen/Gen_Skel_Config.v is regenerated on every run from emd/sift.py by harness/gen_skel_config.py (fail-closed
   structural translation into the mini language of lib/PyLoop.v): the whole bodies of SiftConfig.__keytransform__,
   __getitem__, __setitem__, __delitem__, _get_yamlsafe_dict, to_yaml_text, to_yaml_file, from_yaml_file,
   from_yaml_stream, get_func and of _array_or_tuple_to_list.  model/SkelPrims_Config.v maps every opaque primitive
   name the translator emitted (key.split('/'), self.store[key[0]][key[1]], the stores `self.store[..] =`, the deletes
   `del self.store[..]`, yaml.dump / load, ret.store =, ...) to an operation of model/Config.v: nested indexing
   nget / nset / ndel on the store tree, split_slash, listify, the YAML oracles dump / dump_all / load / load_all.
   The theorems say: under the interpreter of PyLoop.v the translated bodies compute what Config.keytransform /
   getitem / setitem / delitem / listify / yamlsafe / to_yaml_text / to_yaml_file / from_yaml_file / from_yaml_stream
   compute - for EVERY key string, store, value, YAML text, behaviour of the oracles and every fuel.  Object state
   (self.store, self.sift_type) is a value: the store primitives return the new `self` / `ret`.
   Unqualified Ok / Return / Raise are PyLoop's; the model's constructors are Config.Ok / Config.Err. *)
From Coq Require Import String List Bool Arith.
From EmdV Require Import lib.PyLoop lib.PyLoopTools gen.Gen_Skel_Config model.SkelPrims_Config
  proofs.SkelFacts_Config.
From EmdV Require model.Config.
Import ListNotations.
Open Scope string_scope.

(* ---- key paths: one part -> the string, 2..3 parts -> the list, more -> ValueError ---- *)
Theorem skeleton_keytransform : forall (Y : Type) (self : cv Y) (key : string) (f : nat),
  exec (keytransform_prims Y) prog_keytransform f (keytransform_env0 Y self key)
  = returns Y (keytransform_res Y key).
Proof. exact SkelFacts_Config.skeleton_keytransform. Qed.

(* ---- the item methods: self = a SiftConfig of type ty whose store is the tree s ---- *)
Theorem skeleton_getitem : forall (Y : Type) (ty s : Config.tree) (key : string) (f : nat),
  exec (item_prims Y) prog_getitem f (getitem_env0 Y ty s key) = getitem_render Y (Config.getitem key s).
Proof. exact SkelFacts_Config.skeleton_getitem. Qed.

(* Config.Ok s' = the body falls off its end with self.store = s'; Config.Err e = it raises, nothing assigned *)
Theorem skeleton_setitem : forall (Y : Type) (ty s : Config.tree) (key : string) (v : Config.tree) (f : nat),
  exec (item_prims Y) prog_setitem f (setitem_env0 Y ty s key v)
  = setitem_render Y ty key v (Config.setitem key v s).
Proof. exact SkelFacts_Config.skeleton_setitem. Qed.

Theorem skeleton_delitem : forall (Y : Type) (ty s : Config.tree) (key : string) (f : nat),
  exec (item_prims Y) prog_delitem f (delitem_env0 Y ty s key) = delitem_render Y ty key (Config.delitem key s).
Proof. exact SkelFacts_Config.skeleton_delitem. Qed.

(* ---- _array_or_tuple_to_list on a dict (distinct keys): a converted COPY is returned; the recursive call on a
        nested dict is the function itself one level down (induction hypothesis as a primitive) ---- *)
Theorem skeleton_listify : forall (Y : Type) (kids : list (string * Config.tree)) (f : nat),
  NoDup (map fst kids) ->
  exec (listify_prims Y) prog_array_or_tuple_to_list f (listify_env0 Y (Config.Node kids))
  = Return (tree_val Y (Config.listify (Config.Node kids))).
Proof. exact SkelFacts_Config.skeleton_listify. Qed.

(* Config.listify is total; the code needs a dict *)
Theorem listify_not_a_dict : forall (Y : Type) (v : Config.val) (f : nat),
  exec (listify_prims Y) prog_array_or_tuple_to_list f (listify_env0 Y (Config.Leaf v)) = Raise "AttributeError".
Proof. exact SkelFacts_Config.listify_not_a_dict. Qed.

(* ---- export ---- *)
Theorem skeleton_get_yamlsafe_dict :
  forall (Y : Type) (dump : Config.ydoc -> Y) (dump_all : list Config.ydoc -> Y) (load : Y -> option Config.ydoc)
         (load_all : Y -> list Config.ydoc) (content : Y) (ty : Config.tree) (st : Config.ydoc) (f : nat),
  exec (yaml_prims Y dump dump_all load load_all content) prog_get_yamlsafe_dict f (yamlsafe_env0 Y ty st)
  = returns Y (yamlsafe_res Y ty st).
Proof. exact SkelFacts_Config.skeleton_get_yamlsafe_dict. Qed.

(* on a configuration whose store is a dict that result is Config.yamlsafe *)
Theorem yamlsafe_res_config : forall (Y : Type) (c : Config.config) (kids : list (string * Config.tree)),
  Config.cstore c = Config.Node kids ->
  yamlsafe_res Y (Config.Leaf (Config.VStr (Config.ctype c))) (Config.DTree (Config.cstore c))
  = Ok (VList (map (tree_val Y) (Config.yamlsafe c))).
Proof. exact SkelFacts_Config.yamlsafe_res_config. Qed.

(* to_yaml_text: ONE document holding the two-element sequence *)
Theorem skeleton_to_yaml_text :
  forall (Y : Type) (dump : Config.ydoc -> Y) (dump_all : list Config.ydoc -> Y) (load : Y -> option Config.ydoc)
         (load_all : Y -> list Config.ydoc) (content : Y) (c : Config.config)
         (kids : list (string * Config.tree)) (f : nat),
  Config.cstore c = Config.Node kids ->
  exec (yaml_prims Y dump dump_all load load_all content) prog_to_yaml_text f (to_text_env0 Y c)
  = Return (text_val Y (Config.to_yaml_text Y dump c)).
Proof. exact SkelFacts_Config.skeleton_to_yaml_text. Qed.

(* to_yaml_file: the state-passing version of the generated program (the file content is threaded through
   yaml.dump_all); removing the plumbing gives back the generated program *)
Theorem to_yaml_file_erasure : erase_w file_var file_writers tprog_to_yaml_file = prog_to_yaml_file.
Proof. exact SkelFacts_Config.to_yaml_file_erasure. Qed.

(* two documents are written, whatever the file held before *)
Theorem skeleton_to_yaml_file :
  forall (Y : Type) (dump : Config.ydoc -> Y) (dump_all : list Config.ydoc -> Y) (load : Y -> option Config.ydoc)
         (load_all : Y -> list Config.ydoc) (content : Y) (old : cv Y) (c : Config.config)
         (kids : list (string * Config.tree)) (f : nat),
  Config.cstore c = Config.Node kids ->
  exec (yaml_prims Y dump dump_all load load_all content) tprog_to_yaml_file f (to_file_env0 Y old c)
  = to_file_render Y c (Config.to_yaml_file Y dump_all c).
Proof. exact SkelFacts_Config.skeleton_to_yaml_file. Qed.

(* ---- import: which document holds the type and which the options ---- *)
(* from_yaml_file: every file content (content = the text of the file) *)
Theorem skeleton_from_yaml_file :
  forall (Y : Type) (dump : Config.ydoc -> Y) (dump_all : list Config.ydoc -> Y) (load : Y -> option Config.ydoc)
         (load_all : Y -> list Config.ydoc) (content : Y) (cls : cv Y) (f : nat),
  agrees_loaded Y
    (exec (yaml_prims Y dump dump_all load load_all content) prog_from_yaml_file f (from_file_env0 Y cls))
    (Config.from_yaml_file Y load_all content).
Proof. exact SkelFacts_Config.skeleton_from_yaml_file. Qed.

(* from_yaml_stream (the repaired route: a sequence document is the pair, anything else the store): every text
   whose document is not one of the two shapes of the next two theorems *)
Theorem skeleton_from_yaml_stream :
  forall (Y : Type) (dump : Config.ydoc -> Y) (dump_all : list Config.ydoc -> Y) (load : Y -> option Config.ydoc)
         (load_all : Y -> list Config.ydoc) (content : Y) (cls : cv Y) (text : Y) (f : nat),
  stream_regular (load text) = true ->
  agrees_loaded Y
    (exec (yaml_prims Y dump dump_all load load_all content) prog_from_yaml_stream f (from_stream_env0 Y cls text))
    (Config.from_yaml_stream Y load text).
Proof. exact SkelFacts_Config.skeleton_from_yaml_stream. Qed.

(* where the code and the model part ways (1): a top-level sequence that is not a sequence of dicts *)
Theorem stream_list_leaf :
  forall (Y : Type) (dump : Config.ydoc -> Y) (dump_all : list Config.ydoc -> Y) (load : Y -> option Config.ydoc)
         (load_all : Y -> list Config.ydoc) (content : Y) (cls : cv Y) (text : Y) (l : list Config.val) (f : nat),
  load text = Some (Config.DTree (Config.Leaf (Config.VList l))) ->
  exec (yaml_prims Y dump dump_all load load_all content) prog_from_yaml_stream f (from_stream_env0 Y cls text)
  = Raise (match l with [] => "IndexError" | _ => "TypeError" end)
  /\ Config.from_yaml_stream Y load text
     = Config.Ok (Config.Leaf (Config.VStr Config.UNKNOWN), Config.DTree (Config.Leaf (Config.VList l))).
Proof. exact SkelFacts_Config.stream_list_leaf. Qed.

(* (2) a one-element sequence whose element has no 'sift_type': both fail, with different error classes *)
Theorem stream_short_pair :
  forall (Y : Type) (dump : Config.ydoc -> Y) (dump_all : list Config.ydoc -> Y) (load : Y -> option Config.ydoc)
         (load_all : Y -> list Config.ydoc) (content : Y) (cls : cv Y) (text : Y) (d0 : Config.tree)
         (e : Config.err) (f : nat),
  load text = Some (Config.DSeq [d0]) -> Config.idx "sift_type" d0 = Config.Err e ->
  exec (yaml_prims Y dump dump_all load load_all content) prog_from_yaml_stream f (from_stream_env0 Y cls text)
  = Raise (err_name e)
  /\ Config.from_yaml_stream Y load text = Config.Err Config.EYaml.
Proof. exact SkelFacts_Config.stream_short_pair. Qed.

(* ---- get_func: partial(<the module's function named self.sift_type>, X, **self.store) ---- *)
Theorem skeleton_get_func : forall (Y : Type) (ty : Config.tree) (st : Config.ydoc) (f : nat),
  exec (func_prims Y) prog_get_func f (func_env0 Y ty st) = func_render Y ty st.
Proof. exact SkelFacts_Config.skeleton_get_func. Qed.

Print Assumptions skeleton_keytransform.
Print Assumptions skeleton_getitem.
Print Assumptions skeleton_setitem.
Print Assumptions skeleton_delitem.
Print Assumptions skeleton_listify.
Print Assumptions listify_not_a_dict.
Print Assumptions skeleton_get_yamlsafe_dict.
Print Assumptions yamlsafe_res_config.
Print Assumptions skeleton_to_yaml_text.
Print Assumptions to_yaml_file_erasure.
Print Assumptions skeleton_to_yaml_file.
Print Assumptions skeleton_from_yaml_file.
Print Assumptions skeleton_from_yaml_stream.
Print Assumptions stream_list_leaf.
Print Assumptions stream_short_pair.
Print Assumptions skeleton_get_func.
