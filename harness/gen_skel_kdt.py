"""Control-skeleton tie of kdt_match / _unique_inds (notes/TIE_KDT.md): emd/cycles.py -> coq/gen/Gen_Skel_Kdt.v.

kdt_match: everything below the function-level `from scipy import spatial` (top-level statement 6, docstring not
counted; an import statement is a fail-closed shape of the translator, and the statements above it only add a
feature axis to 1-d inputs and log): the tree, the query, the K=1 reshaping, the column loop, the winners, the final
extraction. The six statements above the import are emitted as prog_kdt_match_head (no theorem needs them; they are
there so that an edit above the import also shows up in the generated file).
_unique_inds: the whole body.
model/SkelPrims_Kdt.v maps the numpy expressions to list operations; proofs/SkelFacts_Kdt.v proves the refinement to
model/KdtMatch.v. Always exits 0 (fail closed = poisoned file).

ONE DRIVER-LOCAL NORMALISATION (N11x, an instance of the store rule N11 of gen_skeleton.py; the shared translator is
not edited): an expression statement `v.extend(E)` / `v.append(E)` whose receiver v is a plain name of the frame
mutates v in place. The language has pure primitives only, so as a bare expression statement the mutation would be
LOST (v would stay what it was for ever). It is emitted as a store to the receiver instead,
    selected.extend(E)   ->   SAssign "selected" (ECall "selected.extend(E)" [free variables of the text] [])
i.e. exactly the opaque form N7 the shared translator emits for that text, assigned to the receiver: the primitive
returns the NEW value of v (as every N11 store primitive does). Aliasing is not modelled (in kdt_match `selected` is
a fresh local list that no other name refers to)."""
import ast

import gen_skeleton

MUTATORS = {'extend', 'append'}
_stmt = gen_skeleton.stmt


def stmt(n, ind):
    if isinstance(n, ast.Expr) and isinstance(n.value, ast.Call) and isinstance(n.value.func, ast.Attribute) \
            and n.value.func.attr in MUTATORS and isinstance(n.value.func.value, ast.Name) \
            and not gen_skeleton.is_logging(n):
        v = n.value.func.value.id
        frame = gen_skeleton.FRAME[0]
        if v not in gen_skeleton.MODULES and (frame is None or v in frame):
            return ' ' * ind + 'SAssign %s (%s)' % (gen_skeleton.cstr(v), gen_skeleton.opaque(n.value))     # N11x
    return _stmt(n, ind)


gen_skeleton.stmt = stmt          # block() looks `stmt` up in the module, so nested blocks come through here too

gen_skeleton.generate(
    'emd/cycles.py',
    [('kdt_match', 'slice:0:6', 'kdt_match_head'),
     ('kdt_match', 'slice:7:', 'kdt_match'),
     ('_unique_inds', 'body', 'unique_inds')],
    'Gen_Skel_Kdt.v',
    ['kdt_match below its function-level import (tree, query, column loop, winners, extraction) and _unique_inds (C17).',
     'N11x (driver-local): the statement v.extend(E) on a frame name v is the store SAssign v (ECall <that text> ..).'],
    modules={'np', 'spatial', 'sift', 'spectra', 'utils', 'interp'},
    logger='logger')
