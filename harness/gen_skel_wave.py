"""Control-skeleton tie "wave" (notes/TIE_WAVE.md): emd/cycles.py -> coq/gen/Gen_Skel_Wave.v.

Whole bodies of get_cycle_vector_from_waveform, get_chain_stat, mean_vector and basis_project as terms of
lib/PyLoop.v (N16 call_frame_callee, N18 arith_div_pow on).  model/SkelPrims_Wave.v maps the opaque calls to list
operations / oracles; proofs/SkelFacts_Wave.v proves the refinements.
(normalised_waveform, the eight cf_* helpers and get_control_point_metrics(_aug) translate too but are not tied
yet, so they are not emitted.  'interp' is left out of the module aliases: cf_* have a parameter of that name.)
Always exits 0 (fail closed = poisoned file)."""
import gen_skeleton

gen_skeleton.generate(
    'emd/cycles.py',
    [('get_cycle_vector_from_waveform', 'body'),
     ('get_chain_stat', 'body'),
     ('mean_vector', 'body'),
     ('basis_project', 'body')],
    'Gen_Skel_Wave.v',
    'Whole bodies of get_cycle_vector_from_waveform, get_chain_stat, mean_vector, basis_project (C12, C15, C14, C19).',
    modules={'np', 're', 'warnings', 'functools', 'spectra', 'utils', 'sift', '_cycles_support', 'logging'},
    logger='logger', call_frame_callee=True, arith_div_pow=True)
