"""Control-skeleton tie "wave" (notes/TIE_WAVE.md): emd/cycles.py -> coq/gen/Gen_Skel_Wave.v.

Whole bodies of get_cycle_vector_from_waveform, get_chain_stat, normalised_waveform, mean_vector, basis_project, the
eight cf_* control-point helpers, get_control_point_metrics and get_control_point_metrics_aug, as terms of
lib/PyLoop.v (N16 call_frame_callee, N18 arith_div_pow on).  model/SkelPrims_Wave.v maps the opaque calls to list
operations / oracles; proofs/SkelFacts_Wave.v proves the refinements.
Always exits 0 (fail closed = poisoned file)."""
import gen_skeleton

gen_skeleton.generate(
    'emd/cycles.py',
    [('get_cycle_vector_from_waveform', 'body'),
     ('get_chain_stat', 'body'),
     ('normalised_waveform', 'body'),
     ('mean_vector', 'body'),
     ('basis_project', 'body'),
     ('cf_start_value', 'body'),
     ('cf_end_value', 'body'),
     ('cf_peak_sample', 'body'),
     ('cf_peak_value', 'body'),
     ('cf_trough_sample', 'body'),
     ('cf_trough_value', 'body'),
     ('cf_descending_zero_sample', 'body'),
     ('cf_ascending_zero_sample', 'body'),
     ('get_control_point_metrics', 'body'),
     ('get_control_point_metrics_aug', 'body')],
    'Gen_Skel_Wave.v',
    'Whole bodies of get_cycle_vector_from_waveform, get_chain_stat, normalised_waveform, mean_vector, basis_project, cf_*, get_control_point_metrics(_aug) (C12, C14, C15, C19).',
    modules={'np', 're', 'warnings', 'functools', 'spectra', 'utils', 'sift', '_cycles_support', 'logging'},
    logger='logger', call_frame_callee=True, arith_div_pow=True)
