"""Control-skeleton tie of the per-cycle statistics (notes/TIE_CYCLESTAT.md): two source files, two generated files.

emd/cycles.py          -> coq/gen/Gen_Skel_Cyclestat.v        : get_cycle_stat, bin_by_phase (whole bodies)
emd/_cycles_support.py -> coq/gen/Gen_Skel_Cyclestatsupport.v : get_cycle_stat_from_samples, get_slice_stat_from_samples,
    get_augmented_cycle_stat_from_samples, make_slice_cache, augment_slice, make_aug_slice_cache (whole bodies)
as terms of lib/PyLoop.v. model/SkelPrims_Cyclestat.v maps the opaque calls to the list operations that
model/CycleStat.v / model/CyclesObj.v are written with; proofs/SkelFacts_Cyclestat.v proves the refinements (C14, C15).
phase_align is NOT translated: its loop calls a local callable (`f = interp.interp1d(..); avg[:, cind] = f(phase_bins)`)
and the translator emits that call under the NAME f (N6) without the value of f, so the per-cycle interpolant cannot
be expressed by a pure primitive (notes/TIE_CYCLESTAT.md). Always exits 0 (fail closed = poisoned file)."""
import gen_skeleton

gen_skeleton.generate(
    'emd/cycles.py',
    [('get_cycle_stat', 'body'),
     ('bin_by_phase', 'body')],
    'Gen_Skel_Cyclestat.v',
    'Whole bodies of get_cycle_stat and bin_by_phase (C14).',
    modules={'np', 're', 'warnings', 'functools', 'interp', 'spectra', 'utils', 'sift', '_cycles_support', 'logging'},
    logger='logger')

gen_skeleton.generate(
    'emd/_cycles_support.py',
    [('get_cycle_stat_from_samples', 'body'),
     ('get_slice_stat_from_samples', 'body'),
     ('get_augmented_cycle_stat_from_samples', 'body'),
     ('make_slice_cache', 'body'),
     ('augment_slice', 'body'),
     ('make_aug_slice_cache', 'body')],
    'Gen_Skel_Cyclestatsupport.v',
    'Whole bodies of the per-cycle statistic loops and of the slice-cache builders of emd/_cycles_support.py (C14, C15).',
    modules={'np'},
    logger='logger')
