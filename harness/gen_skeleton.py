"""The control-skeleton translator (DESIGN 3.2 / 10.5): a LIBRARY plus the driver of emd/sift.py -> coq/gen/Gen_Skeleton.v.

Run as a script (`python harness/gen_skeleton.py`) it emits, as terms of the deep-embedded mini language of
coq/lib/PyLoop.v,
  prog_get_next_imf   the whole body of get_next_imf
  prog_sift           the whole body of sift
  prog_mask_sift      the outer loop of mask_sift: the run of plain assignments right before the first
                      top-level `while`, that loop, and everything after it (the option pre-processing
                      above it is not control skeleton; its results are inputs of the loop)
  params_<f>          the parameter names of each function, in order
coq/proofs/SkeletonFacts.v proves that the hand-written loops of coq/model/SiftCore.v compute exactly what
these programs compute under the interpreter of PyLoop.v, for every behaviour of the opaque primitives.

As a library (`import gen_skeleton` from a driver harness/gen_skel_<name>.py; see notes/TIE_AGENT_BRIEF.md):
  generate(src_relpath, funcs, out_name, header_note, modules={'np'}, logger='logger')
translates the listed functions of $EMD_REPO/<src_relpath> into $EMD_COQ_DIR/gen/<out_name>.

The translation is STRUCTURAL, statement by statement and expression by expression. Normalisations (all of them):
  N1  docstrings are dropped; decorators are ignored; comments do not exist in the ast.
  N2  an expression statement `logger.<level>(...)` becomes SSkip (logging is C20's business); an `if` whose
      branches only log therefore keeps its test and has SSkip branches. Dropping a logger call also drops the
      EVALUATION OF ITS ARGUMENTS, which in the real code can raise (e.g. `names[idx]` inside a
      `logger.debug(msg.format(...))`): such an exception is not in the translated program.
  N3  `x op= e` becomes `x = x op e` (+ - * // structurally, any other operator through the opaque form N7).
  N4  `a or b or c` nests to the right, as Python evaluates it; same for `and`.
  N5  `e is None` -> EIsNone e, `e is not None` -> ENot (EIsNone e).
  N6  a call whose callee is a plain name, or a dotted name rooted at a module alias (np), is the opaque
      primitive of that name: ECall "np.mean" args kwargs; `**d` is the keyword "**". (A call through a local
      name - a closure variable, say - is also just the primitive of that name.)
  N7  OPAQUE FORM: ONE opaque primitive whose name is the literal source text `ast.unparse(node)` and whose
      arguments are the free variables of that text in order of first occurrence. Any textual change to such
      an expression changes the primitive's name, hence the generated program, hence the mapping table must
      be revisited. Opaque are: a method call / attribute / slicing chain on a value, a dict display, and
      (extension) everything the language has no construct for: comprehensions and generator expressions,
      lambdas, conditional expressions, f-strings, `in` / `not in`, `is` with something other than None,
      chained comparisons, unary minus / plus / ~, the binary operators other than + - * //, float (complex,
      bytes, negative, ...) literals, set displays, displays and calls with starred / double-starred items,
      calls whose callee is not a name, module attributes in value position (np.pi).  ALWAYS opaque as a
      whole, even when a callee inside is itself a translation target.
      FREE VARIABLES = the names read in the text that are names of the frame: parameters and assigned names
      of the function and of the functions enclosing it (closures), minus module aliases and minus the names
      bound inside the text itself (comprehension targets, lambda parameters). Globals and builtins (len,
      range, other functions of the module) are not arguments.
  N8  `e[i]` with i a name or a non-negative int literal is EIndex; list and tuple displays are EList.
  N9  `raise Name(args)` -> SRaise "Name" args, `raise Name` -> SRaise "Name" [] (a bare re-raising `raise` and
      `raise ... from ...` fail closed); `return` -> SReturn ENone; `pass` -> SSkip.
  N10 `'literal'.format(args)` (message texts) is the primitive "str.format" applied to the literal and args.
  N11 STORES: an assignment to a subscript / attribute target is an assignment to its base variable, computed
      by a store primitive named by the unparsed target followed by " =" that receives the free variables
      of the target and then the new value, and returns the NEW value of the base variable:
      `imfs[:, ii] = v` -> SAssign "imfs" (ECall "imfs[:, ii] =" [imfs; ii; v] []),
      `x[i] += v` -> SAssign "x" (ECall "x[i] +=" [x; i; v] []), `del x[k]` -> SAssign "x" (ECall "del x[k]" [x; k] []).
      (Aliasing is not modelled: another name bound to the same object does not see the store.)
  N12 `with E as p: body` -> `p = E` followed by the statements of body, spliced into the enclosing block
      (`with E:` -> the expression statement E). The context manager's __enter__ / __exit__ are NOT modelled:
      p is E itself, nothing runs when the block is left, exceptions are not intercepted.
  N13 `for a, b in E: body` -> SFor "a, b" E (SUnpack [a; b] (EVar "a, b"); body): the loop variable is a
      frame name that no Python identifier can clash with. `for x in E:` is SFor "x" E body as it stands.
  N14 `try: B except N1: H1 except (N2, N3): H2 finally: F` -> STry B [(N1, H1); (N2, H2); (N3, H2)] F; a bare
      `except:` has the name ""; a dotted exception class is named by its source text; no finally is SSkip.
  N15 a name read in value position that is not a name of the frame (a global, a builtin, another function of
      the module: `list`, `get_next_imf` handed to functools.partial, a module-level constant) is the
      zero-argument primitive of that name, ECall "list" [] [], not a variable.
OPT-IN NORMALISATIONS (keyword options of generate(), all off by default so that existing generated files do not move):
  N16 call_frame_callee=True: a call whose callee is a plain name that is a NAME OF THE FRAME (a local such as
      `pchip = interp.pchip(locs, pks)` ... `env = pchip(t)`, a callback parameter, a closure variable) is not the
      primitive of that name (N6, which would lose the dependency on the variable) but the opaque form N7 of the
      whole call, with the callee variable among its free-variable arguments:
      `pchip(t)` -> ECall "pchip(t)" [EVar "pchip"; EVar "t"] [].  Calls of globals / builtins / module functions keep N6.
  N17 mutators_as_stores=True (or an iterable of method names; True = extend, append, update, sort): an expression
      statement `v.extend(E)` / `v.append(E)` / `v.update(E)` / `v.sort()` whose receiver v is a plain name of the
      frame is a store to v like N11: SAssign "v" (ECall "v.extend(E)" [free variables of the text] []) - the
      primitive returns the value of v AFTER the mutation (as a bare expression statement the mutation would be
      lost, primitives being pure). Aliasing is not modelled.
  N18 arith_div_pow=True: `a / b` -> ECall "/" [a; b] [] and `a ** b` -> ECall "**" [a; b] [] with structurally
      translated operands (dispatch by operator name, like + - * // on non-ints) instead of one opaque N7 text;
      `x /= e`, `x **= e` follow through N3.
  N19 generators_as_lists=True: a translated function (mode 'body' only) that contains `yield` is translated as the
      function that returns the LIST of the yielded values, in order (what `list(f(...))` computes when the generator
      runs to its end): the hidden accumulator "__yield" is initialised by SAssign "__yield" (EList []) at the very
      top of the body; the expression statement `yield e` ->
      SAssign "__yield" (ECall "list.append" [EVar "__yield"; e] []) (the primitive returns the list AFTER the
      append, like an N17 store; a bare `yield` appends ENone); a bare `return` -> SReturn (EVar "__yield"); a final
      SReturn (EVar "__yield") is appended at the end of the body. Still fail closed: `yield` in value position
      (`x = yield e`, `f((yield e))`), `yield from`, `return <value>` inside a generator, a generator translated
      with a partial mode, a frame that already binds the name `__yield`. NOT modelled: laziness (the interleaving
      with the consumer), `send` / `throw` / `close`; when the generator raises, the values yielded before the
      exception are not in the outcome (as with `list(f(...))`). Functions without `yield` are not affected.
FAIL CLOSED: any other statement or expression shape inside the translated regions (break, while/for/try-else,
`except ... as e`, `del name`, assert, yield (unless N19 is on), await, walrus, global/nonlocal, import, nested def/class,
multiple or nested-tuple assignment targets, a logger call in value position, non-ASCII text, ...) is a
failure: nothing of the function is translated.

Environment: EMD_REPO selects the source tree (default /repo); the output is $EMD_COQ_DIR/gen/<out_name> (default
/verif/coq; the harness points EMD_COQ_DIR at a private copy of the Coq tree whenever EMD_REPO is not /repo,
so a seeded evaluation never touches the shared tree). For Gen_Skeleton.v only, EMD_SKELETON_OUT overrides
the full output path. Files are rewritten only when their content changes.
On failure: this file's own driver (registered in harness/common.py GEN_OUTPUT) ends with exit code 2 and a
message and leaves Gen_Skeleton.v untouched; generate() called from any other driver (on_fail='poison')
REPLACES the generated file by one that cannot compile and carries the message, and returns False - so only
the proofs that depend on that file break, which is how an unregistered driver stays harmless to every
other property (an unregistered driver must therefore always exit 0).
"""
import ast
import os
import sys

REPO = os.environ.get('EMD_REPO', '/repo')
SRC = os.path.join(REPO, 'emd', 'sift.py')
COQ_DIR = os.environ.get('EMD_COQ_DIR') or os.path.join(
    os.path.dirname(os.path.dirname(os.path.abspath(__file__))), 'coq')
OUT = os.environ.get('EMD_SKELETON_OUT') or os.path.join(COQ_DIR, 'gen', 'Gen_Skeleton.v')
MODULES = {'np'}
LOGGER = 'logger'
LOG_LEVELS = {'debug', 'info', 'verbose', 'warning', 'error', 'critical'}
FUNCS = [('get_next_imf', 'body'), ('sift', 'body'), ('mask_sift', 'loop')]

CMP = {ast.Eq: 'CEq', ast.NotEq: 'CNe', ast.Lt: 'CLt', ast.Gt: 'CGt', ast.LtE: 'CLe', ast.GtE: 'CGe'}
AR = {ast.Add: 'AAdd', ast.Sub: 'ASub', ast.Mult: 'AMul', ast.FloorDiv: 'AFloorDiv'}
OPSYM = {ast.Add: '+', ast.Sub: '-', ast.Mult: '*', ast.FloorDiv: '//', ast.Div: '/', ast.Mod: '%', ast.Pow: '**',
         ast.MatMult: '@', ast.BitAnd: '&', ast.BitOr: '|', ast.BitXor: '^', ast.LShift: '<<', ast.RShift: '>>'}
SCOPES = (ast.FunctionDef, ast.AsyncFunctionDef, ast.ClassDef, ast.Lambda,
          ast.ListComp, ast.SetComp, ast.DictComp, ast.GeneratorExp)


class Unknown(Exception):
    pass


def die(msg):
    sys.stderr.write('gen_skeleton: FAIL-CLOSED: %s\n' % msg)
    sys.exit(2)


def unknown(node, what):
    raise Unknown('%s: unknown %s %s at line %d: %s' % (
        CUR[0], what, type(node).__name__, getattr(node, 'lineno', 0), ast.unparse(node)[:80]))


CUR = ['?']
FRAME = [None]          # the names of the frame being translated (None: every non-module name counts)
DEFAULT_MUTATORS = ('extend', 'append', 'update', 'sort')
OPTS = {'call_frame_callee': False, 'mutators': frozenset(), 'arith_div_pow': False}      # N16, N17, N18 (opt-in)
GEN = [False]           # N19 (opt-in): the function being translated is a generator translated as a list
YIELD_VAR = '__yield'


class Raw(ast.stmt):
    """N19: an already translated statement (the initialisation / final return of the accumulator)."""
    _fields = ()


def raw(text):
    n = Raw()
    n.text = text
    return n


def has_yield(fn):
    """Does fn itself (not a function / lambda / class nested in it) contain yield or yield from?"""
    def walk(n):
        for c in ast.iter_child_nodes(n):
            if isinstance(c, (ast.Yield, ast.YieldFrom)):
                return True
            if isinstance(c, (ast.FunctionDef, ast.AsyncFunctionDef, ast.ClassDef, ast.Lambda)):
                continue
            if walk(c):
                return True
        return False
    return walk(fn)


def cstr(s, node=None):
    if any(ord(c) < 32 or ord(c) > 126 for c in s):
        raise Unknown('%s: string %r is not printable ASCII (line %d)' % (CUR[0], s, getattr(node, 'lineno', 0)))
    return '"%s"' % s.replace('"', '""')


def clist(items):
    return '[' + '; '.join(items) + ']'


def dotted(node):
    """a.b.c with a a plain name -> ['a', 'b', 'c'], else None."""
    parts = []
    while isinstance(node, ast.Attribute):
        parts.append(node.attr)
        node = node.value
    if isinstance(node, ast.Name):
        parts.append(node.id)
        return parts[::-1]
    return None


def is_logging(node):
    if isinstance(node, ast.Expr) and isinstance(node.value, ast.Call):
        d = dotted(node.value.func)
        return d is not None and len(d) == 2 and d[0] == LOGGER and d[1] in LOG_LEVELS
    return False


# ---- the names of a frame ------------------------------------------------------------------
def param_names(fn):
    a = fn.args
    return ([p.arg for p in a.posonlyargs] + [p.arg for p in a.args] + ([a.vararg.arg] if a.vararg else [])
            + [p.arg for p in a.kwonlyargs] + ([a.kwarg.arg] if a.kwarg else []))


def frame_names(fn):
    """Parameters and every name the function binds itself (not inside nested scopes)."""
    names = set(param_names(fn)) if isinstance(fn, (ast.FunctionDef, ast.AsyncFunctionDef)) else set()

    def walk(n):
        for c in ast.iter_child_nodes(n):
            if isinstance(c, (ast.FunctionDef, ast.AsyncFunctionDef, ast.ClassDef)):
                names.add(c.name)
                continue
            if isinstance(c, SCOPES):
                continue
            if isinstance(c, ast.Name) and isinstance(c.ctx, (ast.Store, ast.Del)):
                names.add(c.id)
            if isinstance(c, ast.ExceptHandler) and c.name:
                names.add(c.name)
            if isinstance(c, (ast.Import, ast.ImportFrom)):
                for al in c.names:
                    names.add((al.asname or al.name).split('.')[0])
            walk(c)
    for s in fn.body:
        if isinstance(s, (ast.FunctionDef, ast.AsyncFunctionDef, ast.ClassDef)):
            names.add(s.name)
        elif not isinstance(s, SCOPES):
            walk(ast.Module(body=[s], type_ignores=[]))
    return names


# ---- opaque forms (N7) ---------------------------------------------------------------------
def free_names(node, bound, acc):
    """Name nodes read in `node` that are not bound inside it (comprehension targets, lambda parameters)."""
    if isinstance(node, ast.Name):
        if not isinstance(node.ctx, ast.Load):
            unknown(node, 'store inside opaque form')
        if node.id not in bound:
            acc.append(node)
        return
    if isinstance(node, (ast.NamedExpr, ast.Await, ast.Yield, ast.YieldFrom)):
        unknown(node, 'shape inside opaque form')
    if isinstance(node, (ast.ListComp, ast.SetComp, ast.GeneratorExp, ast.DictComp)):
        inner = set(bound)
        for g in node.generators:
            if g.is_async:
                unknown(node, 'async comprehension')
            free_names(g.iter, inner, acc)
            for t in ast.walk(g.target):
                if isinstance(t, ast.Name):
                    inner.add(t.id)
                elif not isinstance(t, (ast.Tuple, ast.List, ast.Starred, ast.Store)):
                    unknown(node, 'comprehension target')
            for c in g.ifs:
                free_names(c, inner, acc)
        for part in ([node.key, node.value] if isinstance(node, ast.DictComp) else [node.elt]):
            free_names(part, inner, acc)
        return
    if isinstance(node, ast.Lambda):
        a = node.args
        for d in list(a.defaults) + [d for d in a.kw_defaults if d is not None]:
            free_names(d, bound, acc)
        free_names(node.body, set(bound) | set(param_names(node)), acc)
        return
    for c in ast.iter_child_nodes(node):
        free_names(c, bound, acc)


def opaque_vars(node):
    acc = []
    free_names(node, set(), acc)
    seen = []
    for n in sorted(acc, key=lambda n: (n.lineno, n.col_offset)):
        if n.id in MODULES or n.id in seen:
            continue
        if FRAME[0] is not None and n.id not in FRAME[0]:
            continue
        seen.append(n.id)
    return seen


def opaque(node):
    return 'ECall %s %s []' % (cstr(ast.unparse(node), node), clist('EVar %s' % cstr(v) for v in opaque_vars(node)))


# ---- expressions ---------------------------------------------------------------------------
def expr(n):
    if isinstance(n, ast.Constant):
        v = n.value
        if v is None:
            return 'ENone'
        if v is True or v is False:
            return 'EBool %s' % ('true' if v else 'false')
        if type(v) is int and v >= 0:
            return 'ENat %d' % v
        if type(v) is str:
            return 'EStr %s' % cstr(v, n)
        return opaque(n)                                                       # float, complex, bytes, ...
    if isinstance(n, ast.Name):
        if not isinstance(n.ctx, ast.Load):
            unknown(n, 'name context')
        if n.id in MODULES:
            unknown(n, 'bare module name')
        if FRAME[0] is not None and n.id not in FRAME[0]:
            return 'ECall %s [] []' % cstr(n.id)                               # N15: a global / builtin
        return 'EVar %s' % cstr(n.id)
    if isinstance(n, (ast.Tuple, ast.List)):
        if any(isinstance(e, ast.Starred) for e in n.elts):
            return opaque(n)
        return 'EList %s' % clist(expr(e) for e in n.elts)
    if isinstance(n, ast.Compare):
        if len(n.ops) != 1:
            return opaque(n)
        op, a, b = n.ops[0], n.left, n.comparators[0]
        if isinstance(op, (ast.Is, ast.IsNot)):
            if not (isinstance(b, ast.Constant) and b.value is None):
                return opaque(n)
            r = 'EIsNone (%s)' % expr(a)
            return r if isinstance(op, ast.Is) else 'ENot (%s)' % r
        if type(op) in CMP:
            return 'ECmp %s (%s) (%s)' % (CMP[type(op)], expr(a), expr(b))
        return opaque(n)                                                       # in, not in
    if isinstance(n, ast.BoolOp):
        c = 'EOr' if isinstance(n.op, ast.Or) else 'EAnd'
        r = expr(n.values[-1])
        for v in n.values[-2::-1]:
            r = '%s (%s) (%s)' % (c, expr(v), r)
        return r
    if isinstance(n, ast.UnaryOp):
        if isinstance(n.op, ast.Not):
            return 'ENot (%s)' % expr(n.operand)
        return opaque(n)                                                       # - + ~
    if isinstance(n, ast.BinOp):
        if type(n.op) not in AR:
            if OPTS['arith_div_pow'] and isinstance(n.op, (ast.Div, ast.Pow)):                               # N18
                return 'ECall %s %s []' % (cstr(OPSYM[type(n.op)]), clist([expr(n.left), expr(n.right)]))
            return opaque(n)
        return 'EArith %s (%s) (%s)' % (AR[type(n.op)], expr(n.left), expr(n.right))
    if isinstance(n, ast.Call):
        d = dotted(n.func)
        if d is not None and d[0] == LOGGER:
            unknown(n, 'logger call in value position')
        if d is not None and len(d) == 1 and OPTS['call_frame_callee'] and FRAME[0] is not None \
                and d[0] in FRAME[0] and d[0] not in MODULES:
            return opaque(n)                                                                                # N16
        if d is not None and (len(d) == 1 or d[0] in MODULES):
            if any(isinstance(a, ast.Starred) for a in n.args):
                return opaque(n)
            args = clist(expr(a) for a in n.args)
            kws = clist('(%s, %s)' % (cstr('**' if k.arg is None else k.arg), expr(k.value)) for k in n.keywords)
            return 'ECall %s %s %s' % (cstr('.'.join(d)), args, kws)
        if isinstance(n.func, ast.Attribute) and n.func.attr == 'format' and isinstance(n.func.value, ast.Constant) \
                and type(n.func.value.value) is str and not n.keywords \
                and not any(isinstance(a, ast.Starred) for a in n.args):
            return 'ECall "str.format" %s []' % clist([expr(n.func.value)] + [expr(a) for a in n.args])     # N10
        return opaque(n)
    if isinstance(n, ast.Subscript):
        s = n.slice
        if isinstance(s, ast.Name) or (isinstance(s, ast.Constant) and type(s.value) is int and s.value >= 0):
            return 'EIndex (%s) (%s)' % (expr(n.value), expr(s))
        return opaque(n)
    if isinstance(n, (ast.Attribute, ast.Dict, ast.Set, ast.ListComp, ast.SetComp, ast.DictComp, ast.GeneratorExp,
                      ast.Lambda, ast.IfExp, ast.JoinedStr)):
        return opaque(n)
    unknown(n, 'expression')


# ---- statements ----------------------------------------------------------------------------
def target_base(t):
    """The base variable of a subscript / attribute target chain."""
    b = t
    while isinstance(b, (ast.Subscript, ast.Attribute)):
        b = b.value
    if not isinstance(b, ast.Name) or b.id in MODULES:
        unknown(t, 'store target')
    return b.id


def store(pad, t, label, value):
    """N11: t is a Subscript / Attribute target; label the primitive's name; value the new value or None."""
    base = target_base(t)
    load = ast.parse(ast.unparse(t), mode='eval').body              # the same text, read instead of stored
    for x in ast.walk(load):
        x.lineno, x.col_offset = getattr(x, 'lineno', 1), getattr(x, 'col_offset', 0)
    args = ['EVar %s' % cstr(v) for v in opaque_vars(load)] + ([] if value is None else [expr(value)])
    return pad + 'SAssign %s (ECall %s %s [])' % (cstr(base), cstr(label, t), clist(args))


def stmt(n, ind):
    pad = ' ' * ind
    if is_logging(n):
        return pad + 'SSkip'
    if isinstance(n, ast.Pass):
        return pad + 'SSkip'
    if isinstance(n, Raw):                                                                                  # N19
        return pad + n.text
    if GEN[0] and isinstance(n, ast.Expr) and isinstance(n.value, ast.Yield):                               # N19
        return pad + 'SAssign %s (ECall "list.append" %s [])' % (cstr(YIELD_VAR), clist(
            ['EVar %s' % cstr(YIELD_VAR), 'ENone' if n.value.value is None else expr(n.value.value)]))
    if isinstance(n, ast.Expr):
        if isinstance(n.value, ast.Call):
            f = n.value.func
            if OPTS['mutators'] and isinstance(f, ast.Attribute) and f.attr in OPTS['mutators'] \
                    and isinstance(f.value, ast.Name) and f.value.id not in MODULES and f.value.id != LOGGER \
                    and (FRAME[0] is None or f.value.id in FRAME[0]):
                return pad + 'SAssign %s (%s)' % (cstr(f.value.id), opaque(n.value))                        # N17
            return pad + 'SExpr (%s)' % expr(n.value)
        unknown(n, 'expression statement')
    if isinstance(n, ast.Assign):
        if len(n.targets) != 1:
            unknown(n, 'multiple-target assignment')
        t = n.targets[0]
        if isinstance(t, ast.Name):
            return pad + 'SAssign %s (%s)' % (cstr(t.id), expr(n.value))
        if isinstance(t, ast.Tuple) and all(isinstance(e, ast.Name) for e in t.elts):
            return pad + 'SUnpack %s (%s)' % (clist(cstr(e.id) for e in t.elts), expr(n.value))
        if isinstance(t, (ast.Subscript, ast.Attribute)):
            return store(pad, t, ast.unparse(t) + ' =', n.value)                                            # N11
        unknown(n, 'assignment target')
    if isinstance(n, ast.AugAssign):
        if isinstance(n.target, (ast.Subscript, ast.Attribute)) and type(n.op) in OPSYM:
            return store(pad, n.target, '%s %s=' % (ast.unparse(n.target), OPSYM[type(n.op)]), n.value)     # N11
        if not isinstance(n.target, ast.Name) or type(n.op) not in OPSYM:
            unknown(n, 'augmented assignment')
        if type(n.op) not in AR:
            rd = ast.copy_location(ast.Name(id=n.target.id, ctx=ast.Load()), n.target)
            return pad + 'SAssign %s (%s)' % (cstr(n.target.id), expr(
                ast.copy_location(ast.BinOp(left=rd, op=n.op, right=n.value), n)))
        return pad + 'SAssign %s (EArith %s (EVar %s) (%s))' % (
            cstr(n.target.id), AR[type(n.op)], cstr(n.target.id), expr(n.value))
    if isinstance(n, ast.Delete):
        if len(n.targets) == 1 and isinstance(n.targets[0], (ast.Subscript, ast.Attribute)):
            return store(pad, n.targets[0], 'del ' + ast.unparse(n.targets[0]), None)                       # N11
        unknown(n, 'del form')
    if isinstance(n, ast.If):
        return '%sSIf (%s)\n%s\n%s' % (pad, expr(n.test), block(n.body, ind + 2), block(n.orelse, ind + 2))
    if isinstance(n, ast.While):
        if n.orelse:
            unknown(n, 'while-else')
        return '%sSWhile (%s)\n%s' % (pad, expr(n.test), block(n.body, ind + 2))
    if isinstance(n, ast.For):
        if n.orelse:
            unknown(n, 'for-else')
        t = n.target
        if isinstance(t, ast.Name):
            return '%sSFor %s (%s)\n%s' % (pad, cstr(t.id), expr(n.iter), block(n.body, ind + 2))
        if isinstance(t, ast.Tuple) and all(isinstance(e, ast.Name) for e in t.elts):                       # N13
            x = cstr(ast.unparse(t), t)
            unpack = '%s(SUnpack %s (EVar %s))' % (' ' * (ind + 4), clist(cstr(e.id) for e in t.elts), x)
            return '%sSFor %s (%s)\n%s  (SSeq\n%s\n%s)' % (pad, x, expr(n.iter), pad, unpack, block(n.body, ind + 4))
        unknown(n, 'for target')
    if isinstance(n, ast.Try):                                                                              # N14
        if n.orelse:
            unknown(n, 'try-else')
        hs = []
        for h in n.handlers:
            if h.name is not None:
                unknown(h, '`except ... as name`')
            if h.type is None:
                names = ['']
            else:
                names = []
                for c in (h.type.elts if isinstance(h.type, ast.Tuple) else [h.type]):
                    if dotted(c) is None:
                        unknown(h, 'exception class')
                    names.append('.'.join(dotted(c)))
            for nm in names:
                hs.append('%s(%s,\n%s)' % (' ' * (ind + 4), cstr(nm, h), block(h.body, ind + 6)))
        hl = '%s[]' % (' ' * (ind + 2)) if not hs else '%s[\n%s\n%s]' % (' ' * (ind + 2), ';\n'.join(hs), ' ' * (ind + 2))
        return '%sSTry\n%s\n%s\n%s' % (pad, block(n.body, ind + 2), hl, block(n.finalbody, ind + 2))
    if isinstance(n, ast.Continue):
        return pad + 'SContinue'
    if isinstance(n, ast.Raise):
        e = n.exc
        if n.cause is None and isinstance(e, ast.Call) and isinstance(e.func, ast.Name) and not e.keywords \
                and not any(isinstance(a, ast.Starred) for a in e.args):
            return pad + 'SRaise %s %s' % (cstr(e.func.id), clist(expr(a) for a in e.args))
        if n.cause is None and isinstance(e, ast.Name):                     # `raise ValueError`: the class, no arguments
            return pad + 'SRaise %s []' % cstr(e.id)
        unknown(n, 'raise form')
    if GEN[0] and isinstance(n, ast.Return):                                                                # N19
        if n.value is not None:
            unknown(n, 'return with a value inside a generator')
        return pad + 'SReturn (EVar %s)' % cstr(YIELD_VAR)
    if isinstance(n, ast.Return):
        return pad + 'SReturn (%s)' % ('ENone' if n.value is None else expr(n.value))
    unknown(n, 'statement')


def splice_with(stmts):
    """N12: `with E as p: body` -> `p = E` ; body, spliced into the enclosing statement list."""
    out = []
    for s in stmts:
        if isinstance(s, ast.With):
            for it in s.items:
                if it.optional_vars is None:
                    out.append(ast.copy_location(ast.Expr(value=it.context_expr), s))
                elif isinstance(it.optional_vars, ast.Name):
                    out.append(ast.copy_location(ast.Assign(targets=[it.optional_vars], value=it.context_expr), s))
                else:
                    unknown(s, '`with ... as` target')
            out.extend(splice_with(s.body))
        else:
            out.append(s)
    return out


def block(stmts, ind):
    """Right-nested SSeq; the empty block is SSkip."""
    stmts = splice_with(stmts)
    pad = ' ' * ind
    if not stmts:
        return pad + 'SSkip'
    if len(stmts) == 1:
        return '%s(%s)' % (pad, stmt(stmts[0], 0).replace('\n', '\n' + pad + ' '))
    return '%s(SSeq\n%s\n%s)' % (pad, block(stmts[:1], ind + 2), block(stmts[1:], ind + 2))


def region(fn, mode):
    """The top-level statements of fn that are translated.
    'body'       all of them
    'loop'       = 'while:0'
    'while:<k>'  the k-th (from 0) top-level while, the run of plain `name = ...` assignments right before
                 it, and everything after it
    'for:<k>'    the same for the k-th top-level for
    'slice:<i>:<j>'  the top-level statements i (from 0, docstring not counted) to j (exclusive; empty = end)"""
    body = list(fn.body)
    if body and isinstance(body[0], ast.Expr) and isinstance(body[0].value, ast.Constant) \
            and isinstance(body[0].value.value, str):
        body = body[1:]                                                        # N1
    if mode == 'body':
        return body
    kind, _, rest = mode.partition(':')
    if kind == 'slice':
        i, _, j = rest.partition(':')
        try:
            return body[int(i):(int(j) if j else None)]
        except ValueError:
            raise Unknown('%s: bad mode %r' % (fn.name, mode))
    if kind not in ('loop', 'while', 'for') or (kind == 'loop' and rest):
        raise Unknown('%s: bad mode %r' % (fn.name, mode))
    try:
        k = int(rest) if rest else 0
    except ValueError:
        raise Unknown('%s: bad mode %r' % (fn.name, mode))
    cls = ast.For if kind == 'for' else ast.While
    loops = [i for i, s in enumerate(body) if isinstance(s, cls)]
    if len(loops) <= k:
        raise Unknown('%s: no top-level %s loop%s' % (fn.name, 'for' if kind == 'for' else 'while',
                                                     '' if k == 0 else ' number %d' % k))
    start = loops[k]
    while start > 0 and isinstance(body[start - 1], ast.Assign) and len(body[start - 1].targets) == 1 \
            and isinstance(body[start - 1].targets[0], ast.Name):
        start -= 1
    return body[start:]


def params(fn, strict=True):
    a = fn.args
    if strict and (a.vararg or a.kwarg or a.posonlyargs or a.kwonlyargs):
        raise Unknown('%s: parameter kinds other than plain ones' % fn.name)
    return param_names(fn)


def describe(mode):
    if mode == 'body':
        return 'whole body'
    if mode == 'loop':
        return 'initialisation run + first top-level while + rest'
    kind, _, rest = mode.partition(':')
    if kind == 'slice':
        return 'top-level statements [%s] (docstring not counted)' % rest
    return 'initialisation run + top-level %s number %s + rest' % (kind, rest or '0')


def resolve(tree, defs, path):
    """'f', 'Class.method', 'outer.inner' (nested functions / closures) -> the chain of definitions, outermost first."""
    parts = path.split('.')
    if parts[0] in defs:
        chain = [defs[parts[0]]]
    else:
        tops = [n for n in tree.body if isinstance(n, ast.ClassDef) and n.name == parts[0]]
        if len(tops) != 1:
            raise Unknown('function %s not found' % path)
        chain = tops
    for p in parts[1:]:
        found = []

        def walk(n):
            for c in ast.iter_child_nodes(n):
                if isinstance(c, (ast.FunctionDef, ast.ClassDef)):
                    if c.name == p:
                        found.append(c)
                elif not isinstance(c, SCOPES):
                    walk(c)
        walk(chain[-1])
        if len(found) != 1:
            raise Unknown('%s: %s definitions of %s inside %s' % (path, len(found) or 'no', p, chain[-1].name))
        chain.append(found[0])
    if not isinstance(chain[-1], ast.FunctionDef):
        raise Unknown('%s is not a function' % path)
    return chain


LEGACY_HEADER = [
    '(* GENERATED by harness/gen_skeleton.py from emd/sift.py - do not edit; rewritten on every run.',
    '   Structural translation of the control skeletons into the mini language of lib/PyLoop.v.',
    '   Normalisations N1-N10 are listed in the header of harness/gen_skeleton.py (docstrings dropped,',
    '   logger calls -> SSkip, op= expanded, is None -> EIsNone, value-method/slicing chains and dict',
    '   displays -> ONE opaque ECall named by their literal source text with their free variables). *)']


def translate(src_path, funcs, header, modules=frozenset({'np'}), logger='logger', strict_params=False,
              call_frame_callee=False, mutators_as_stores=False, arith_div_pow=False, generators_as_lists=False):
    """The text of the generated file; raises Unknown (fail closed)."""
    global MODULES, LOGGER
    MODULES, LOGGER = set(modules), logger
    GEN[0] = False
    if mutators_as_stores is True:
        mutators_as_stores = DEFAULT_MUTATORS
    OPTS.update(call_frame_callee=bool(call_frame_callee), arith_div_pow=bool(arith_div_pow),
                mutators=frozenset(mutators_as_stores or ()))
    try:
        src = open(src_path).read()
        tree = ast.parse(src)
    except (OSError, SyntaxError) as e:
        raise Unknown('cannot read/parse %s: %s' % (src_path, e))
    defs = {}
    for n in tree.body:
        if isinstance(n, ast.FunctionDef):
            if n.name in defs:
                raise Unknown('function %s is defined twice' % n.name)
            defs[n.name] = n
    out = list(header) + ['From Coq Require Import String List.',
                          'From EmdV Require Import lib.PyLoop.',
                          'Import ListNotations.',
                          'Open Scope string_scope.',
                          '']
    idents = set()
    for entry in funcs:
        name, mode = entry[0], entry[1]
        ident = entry[2] if len(entry) > 2 else name.replace('.', '_')
        if not ident.isidentifier() or not ident.isascii() or ident in idents:
            raise Unknown('bad or repeated Coq name %r for %s' % (ident, name))
        idents.add(ident)
        CUR[0] = name
        try:
            chain = resolve(tree, defs, name)
        except Unknown as e:
            if '.' not in name and name not in defs:
                raise Unknown('function %s not found in %s' % (name, src_path))
            raise e
        fn = chain[-1]
        FRAME[0] = set()
        for f in chain:
            FRAME[0] |= frame_names(f)
        out.append('Definition params_%s : list string :=\n  %s.\n' % (
            ident, clist(cstr(p) for p in params(fn, strict_params))))
        stmts = region(fn, mode)
        GEN[0] = bool(generators_as_lists) and has_yield(fn)                                                # N19
        if GEN[0]:
            if mode != 'body':
                raise Unknown('%s: a generator is translated as a list only with mode body, not %r' % (name, mode))
            if YIELD_VAR in FRAME[0]:
                raise Unknown('%s: the frame already binds the name %s' % (name, YIELD_VAR))
            FRAME[0].add(YIELD_VAR)
            stmts = ([raw('SAssign %s (EList [])' % cstr(YIELD_VAR))] + stmts
                     + [raw('SReturn (EVar %s)' % cstr(YIELD_VAR))])
        out.append('(* %s: %s%s *)' % (name, describe(mode),
                                       ', generator as the list of yielded values (N19)' if GEN[0] else ''))
        try:
            out.append('Definition prog_%s : stmt :=\n%s.\n' % (ident, block(stmts, 2)))
        finally:
            GEN[0] = False
    return '\n'.join(out)


def write_if_changed(path, text, tag='gen_skeleton'):
    old = open(path).read() if os.path.exists(path) else None
    if old != text:
        os.makedirs(os.path.dirname(path), exist_ok=True)
        with open(path + '.tmp', 'w') as f:
            f.write(text)
        os.replace(path + '.tmp', path)
        print('%s: wrote %s' % (tag, path))
    else:
        print('%s: %s unchanged' % (tag, path))


def poison(msg):
    """A generated file that cannot compile and says why (see the module docstring, 'On failure')."""
    clean = ''.join(c if 32 <= ord(c) <= 126 and c != '"' else ' ' for c in msg)
    return ('(* GENERATED: the translator FAILED CLOSED - this file does not compile on purpose. *)\n'
            'From Coq Require Import String.\n'
            'Definition translator_failed_closed : False :=\n  "%s"%%string.\n' % clean)


def generate(src_relpath, funcs, out_name, header_note, modules=frozenset({'np'}), logger='logger',
             on_fail='poison', out_path=None, header=None, strict_params=False,
             call_frame_callee=False, mutators_as_stores=False, arith_div_pow=False, generators_as_lists=False):
    """Translate functions of $EMD_REPO/<src_relpath> into $EMD_COQ_DIR/gen/<out_name>.

    funcs        [(path, mode)] or [(path, mode, coq_name)]: path = 'f' | 'Class.method' | 'outer.inner' (nested
                 functions / closures by name path); mode = 'body' | 'loop' | 'while:<k>' | 'for:<k>' |
                 'slice:<i>:<j>' (see region()); emits `params_<coq_name>` and `prog_<coq_name>`
                 (coq_name defaults to the path with '.' -> '_').
    header_note  one line (or a list of lines) for the comment at the top of the generated file.
    modules      module aliases of the source file (N6, N7); logger = the name whose .info/.debug/... calls are N2.
    on_fail      'poison' (default): on failure write a file that cannot compile and return False;
                 'exit': message + exit code 2, file untouched (only for drivers registered in common.py).
    call_frame_callee, mutators_as_stores, arith_div_pow   the opt-in normalisations N16, N17, N18 of the module
                 docstring (default off; mutators_as_stores may also be an iterable of method names).
    generators_as_lists   the opt-in normalisation N19 (default off: `yield` fails closed): a function containing
                 `yield` is translated as the function returning the list of yielded values.
    Returns True when the translation succeeded. The file is rewritten only when its content changes."""
    tag = os.path.splitext(os.path.basename(sys.argv[0] or 'gen_skeleton'))[0]
    path = out_path or os.path.join(COQ_DIR, 'gen', out_name)
    src_path = os.path.join(REPO, src_relpath)
    if header is None:
        notes = [header_note] if isinstance(header_note, str) else list(header_note)
        on = [t for t, v in (('N16 call_frame_callee', call_frame_callee), ('N17 mutators_as_stores', mutators_as_stores),
                             ('N18 arith_div_pow', arith_div_pow), ('N19 generators_as_lists', generators_as_lists)) if v]
        if on:
            notes.append('opt-in normalisations enabled: ' + ', '.join(on))
        header = ['(* GENERATED by harness/%s.py from %s - do not edit; rewritten on every run.' % (tag, src_relpath),
                  '   Structural translation into the mini language of lib/PyLoop.v by the library harness/gen_skeleton.py',
                  '   (normalisations N1-N15 are listed in its header).'] + ['   ' + ln for ln in notes]
        header[-1] += ' *)'
    try:
        text = translate(src_path, funcs, header, modules, logger, strict_params,
                         call_frame_callee, mutators_as_stores, arith_div_pow, generators_as_lists)
        htext = '\n'.join(header)
        if htext.count('(*') != 1 or htext.count('*)') != 1 or not htext.startswith('(*') or not htext.endswith('*)') \
                or '"' in htext:
            raise Unknown('header comment is not one well-formed Coq comment (no nested comment marks, no quotes)')
    except Unknown as e:
        if on_fail == 'exit':
            die(str(e))
        sys.stderr.write('%s: FAIL-CLOSED: %s\n' % (tag, e))
        write_if_changed(path, poison('%s: %s' % (tag, e)), tag)
        return False
    write_if_changed(path, text, tag)
    return True


def main():
    generate(os.path.join('emd', 'sift.py'), FUNCS, 'Gen_Skeleton.v', None, modules={'np'}, logger='logger',
             on_fail='exit', out_path=OUT, header=LEGACY_HEADER, strict_params=True)


if __name__ == '__main__':
    main()
