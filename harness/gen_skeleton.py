"""The control-skeleton translator (DESIGN 3.2): emd/sift.py -> coq/gen/Gen_Skeleton.v.

Emits, as terms of the deep-embedded mini language of coq/lib/PyLoop.v,
  prog_get_next_imf   the whole body of get_next_imf
  prog_sift           the whole body of sift
  prog_mask_sift      the outer loop of mask_sift: the run of plain assignments right before the first
                      top-level `while`, that loop, and everything after it (the option pre-processing
                      above it is not control skeleton; its results are inputs of the loop)
  params_<f>          the parameter names of each function, in order
coq/proofs/SkeletonFacts.v proves that the hand-written loops of coq/model/SiftCore.v compute exactly what
these programs compute under the interpreter of PyLoop.v, for every behaviour of the opaque primitives.

The translation is STRUCTURAL, statement by statement and expression by expression. Normalisations (all of them):
  N1  docstrings are dropped; decorators are ignored; comments do not exist in the ast.
  N2  an expression statement `logger.<level>(...)` becomes SSkip (logging is C20's business); an `if` whose
      branches only log therefore keeps its test and has SSkip branches.
  N3  `x op= e` becomes `x = x op e` for + - * //.
  N4  `a or b or c` nests to the right, as Python evaluates it; same for `and`.
  N5  `e is None` -> EIsNone e, `e is not None` -> ENot (EIsNone e).
  N6  a call whose callee is a plain name, or a dotted name rooted at a module alias (np), is the opaque
      primitive of that name: ECall "np.mean" args kwargs; `**d` is the keyword "**".
  N7  OPAQUE FORM: a method call / attribute / slicing chain on a value, and a dict display, is ONE opaque
      primitive whose name is the literal source text `ast.unparse(node)` and whose arguments are the free
      variables of that text in order of first occurrence (module aliases excluded). Any textual change to
      such an expression changes the primitive's name, hence the generated program, hence the mapping table
      of SkeletonFacts.v must be revisited. Inside an opaque form only names, attributes, subscripts, slices,
      constants, unary minus, tuple/list/dict displays and method/module calls may occur.
  N8  `e[i]` with i a name or a non-negative int literal is EIndex; list and tuple displays are EList.
  N9  `raise Name(args)` -> SRaise "Name" args; `return` -> SReturn ENone; `pass` -> SSkip.
  N10 `'literal'.format(args)` (message texts) is the primitive "str.format" applied to the literal and args.
EMD_REPO selects the source tree (default /repo); the output is $EMD_COQ_DIR/gen/Gen_Skeleton.v (default
/verif/coq; the harness points EMD_COQ_DIR at a private copy of the Coq tree whenever EMD_REPO is not /repo,
so a seeded evaluation never touches the shared tree); EMD_SKELETON_OUT overrides the full output path.
FAIL CLOSED: any other statement or expression shape inside the translated regions ends the run with exit
code 2 and a message, and the generated file is not touched.
"""
import ast
import os
import sys

REPO = os.environ.get('EMD_REPO', '/repo')
SRC = os.path.join(REPO, 'emd', 'sift.py')
COQ_DIR = os.environ.get('EMD_COQ_DIR') or os.path.join(
    os.path.dirname(os.path.dirname(os.path.abspath(__file__))), 'coq')
OUT = os.environ.get('EMD_SKELETON_OUT') or os.path.join(COQ_DIR, 'gen', 'Gen_Skeleton.v')
MODULES = {'np'}
LOGGER = 'logger'
LOG_LEVELS = {'debug', 'info', 'verbose', 'warning', 'error', 'critical'}
FUNCS = [('get_next_imf', 'body'), ('sift', 'body'), ('mask_sift', 'loop')]

CMP = {ast.Eq: 'CEq', ast.NotEq: 'CNe', ast.Lt: 'CLt', ast.Gt: 'CGt', ast.LtE: 'CLe', ast.GtE: 'CGe'}
AR = {ast.Add: 'AAdd', ast.Sub: 'ASub', ast.Mult: 'AMul', ast.FloorDiv: 'AFloorDiv'}


class Unknown(Exception):
    pass


def die(msg):
    sys.stderr.write('gen_skeleton: FAIL-CLOSED: %s\n' % msg)
    sys.exit(2)


def unknown(node, what):
    raise Unknown('%s: unknown %s %s at line %d: %s' % (
        CUR[0], what, type(node).__name__, getattr(node, 'lineno', 0), ast.unparse(node)[:80]))


CUR = ['?']


def cstr(s, node=None):
    if any(ord(c) < 32 or ord(c) > 126 for c in s):
        raise Unknown('%s: string %r is not printable ASCII (line %d)' % (CUR[0], s, getattr(node, 'lineno', 0)))
    return '"%s"' % s.replace('"', '""')


def clist(items):
    return '[' + '; '.join(items) + ']'


def dotted(node):
    """a.b.c with a a plain name -> ['a', 'b', 'c'], else None."""
    parts = []
    while isinstance(node, ast.Attribute):
        parts.append(node.attr)
        node = node.value
    if isinstance(node, ast.Name):
        parts.append(node.id)
        return parts[::-1]
    return None


def is_logging(node):
    if isinstance(node, ast.Expr) and isinstance(node.value, ast.Call):
        d = dotted(node.value.func)
        return d is not None and len(d) == 2 and d[0] == LOGGER and d[1] in LOG_LEVELS
    return False


# ---- opaque forms (N7) ---------------------------------------------------------------------
def check_opaque(node):
    """Only shapes whose free variables are exactly their Name nodes may occur inside an opaque form."""
    if isinstance(node, (ast.Name, ast.Constant)):
        return
    if isinstance(node, ast.Attribute):
        return check_opaque(node.value)
    if isinstance(node, ast.Subscript):
        check_opaque(node.value)
        return check_opaque(node.slice)
    if isinstance(node, ast.Slice):
        for p in (node.lower, node.upper, node.step):
            if p is not None:
                check_opaque(p)
        return
    if isinstance(node, (ast.Tuple, ast.List)):
        for p in node.elts:
            check_opaque(p)
        return
    if isinstance(node, ast.Dict):
        for k, v in zip(node.keys, node.values):
            if k is None:
                unknown(node, 'dict splat inside opaque form')
            check_opaque(k)
            check_opaque(v)
        return
    if isinstance(node, ast.UnaryOp) and isinstance(node.op, ast.USub):
        return check_opaque(node.operand)
    if isinstance(node, ast.Call) and isinstance(node.func, ast.Attribute):
        check_opaque(node.func)
        for a in node.args:
            check_opaque(a)
        for k in node.keywords:
            if k.arg is None:
                unknown(node, 'keyword splat inside opaque form')
            check_opaque(k.value)
        return
    unknown(node, 'shape inside opaque form')


def opaque(node):
    check_opaque(node)
    names = sorted((n for n in ast.walk(node) if isinstance(n, ast.Name)),
                   key=lambda n: (n.lineno, n.col_offset))
    seen = []
    for n in names:
        if not isinstance(n.ctx, ast.Load):
            unknown(node, 'store inside opaque form')
        if n.id not in MODULES and n.id not in seen:
            seen.append(n.id)
    return 'ECall %s %s []' % (cstr(ast.unparse(node), node), clist('EVar %s' % cstr(v) for v in seen))


# ---- expressions ---------------------------------------------------------------------------
def expr(n):
    if isinstance(n, ast.Constant):
        v = n.value
        if v is None:
            return 'ENone'
        if v is True or v is False:
            return 'EBool %s' % ('true' if v else 'false')
        if type(v) is int and v >= 0:
            return 'ENat %d' % v
        if type(v) is str:
            return 'EStr %s' % cstr(v, n)
        unknown(n, 'constant')
    if isinstance(n, ast.Name):
        if not isinstance(n.ctx, ast.Load):
            unknown(n, 'name context')
        if n.id in MODULES:
            unknown(n, 'bare module name')
        return 'EVar %s' % cstr(n.id)
    if isinstance(n, (ast.Tuple, ast.List)):
        if any(isinstance(e, ast.Starred) for e in n.elts):
            unknown(n, 'starred element')
        return 'EList %s' % clist(expr(e) for e in n.elts)
    if isinstance(n, ast.Compare):
        if len(n.ops) != 1:
            unknown(n, 'chained comparison')
        op, a, b = n.ops[0], n.left, n.comparators[0]
        if isinstance(op, (ast.Is, ast.IsNot)):
            if not (isinstance(b, ast.Constant) and b.value is None):
                unknown(n, '`is` with something other than None')
            r = 'EIsNone (%s)' % expr(a)
            return r if isinstance(op, ast.Is) else 'ENot (%s)' % r
        if type(op) in CMP:
            return 'ECmp %s (%s) (%s)' % (CMP[type(op)], expr(a), expr(b))
        unknown(n, 'comparison operator')
    if isinstance(n, ast.BoolOp):
        c = 'EOr' if isinstance(n.op, ast.Or) else 'EAnd'
        r = expr(n.values[-1])
        for v in n.values[-2::-1]:
            r = '%s (%s) (%s)' % (c, expr(v), r)
        return r
    if isinstance(n, ast.UnaryOp) and isinstance(n.op, ast.Not):
        return 'ENot (%s)' % expr(n.operand)
    if isinstance(n, ast.BinOp):
        if type(n.op) not in AR:
            unknown(n, 'binary operator')
        return 'EArith %s (%s) (%s)' % (AR[type(n.op)], expr(n.left), expr(n.right))
    if isinstance(n, ast.Call):
        d = dotted(n.func)
        if d is not None and (len(d) == 1 or d[0] in MODULES):
            if d[0] == LOGGER:
                unknown(n, 'logger call in value position')
            if any(isinstance(a, ast.Starred) for a in n.args):
                unknown(n, 'starred argument')
            args = clist(expr(a) for a in n.args)
            kws = clist('(%s, %s)' % (cstr('**' if k.arg is None else k.arg), expr(k.value)) for k in n.keywords)
            return 'ECall %s %s %s' % (cstr('.'.join(d)), args, kws)
        if isinstance(n.func, ast.Attribute) and n.func.attr == 'format' and isinstance(n.func.value, ast.Constant) \
                and type(n.func.value.value) is str and not n.keywords \
                and not any(isinstance(a, ast.Starred) for a in n.args):
            return 'ECall "str.format" %s []' % clist([expr(n.func.value)] + [expr(a) for a in n.args])     # N10
        if isinstance(n.func, ast.Attribute):
            return opaque(n)
        unknown(n, 'callee')
    if isinstance(n, ast.Subscript):
        s = n.slice
        if isinstance(s, ast.Name) or (isinstance(s, ast.Constant) and type(s.value) is int and s.value >= 0):
            return 'EIndex (%s) (%s)' % (expr(n.value), expr(s))
        return opaque(n)
    if isinstance(n, ast.Attribute):
        d = dotted(n)
        if d is not None and d[0] in MODULES:
            unknown(n, 'module attribute in value position')
        return opaque(n)
    if isinstance(n, ast.Dict):
        return opaque(n)
    unknown(n, 'expression')


# ---- statements ----------------------------------------------------------------------------
def stmt(n, ind):
    pad = ' ' * ind
    if is_logging(n):
        return pad + 'SSkip'
    if isinstance(n, ast.Pass):
        return pad + 'SSkip'
    if isinstance(n, ast.Expr):
        if isinstance(n.value, ast.Call):
            return pad + 'SExpr (%s)' % expr(n.value)
        unknown(n, 'expression statement')
    if isinstance(n, ast.Assign):
        if len(n.targets) != 1:
            unknown(n, 'multiple-target assignment')
        t = n.targets[0]
        if isinstance(t, ast.Name):
            return pad + 'SAssign %s (%s)' % (cstr(t.id), expr(n.value))
        if isinstance(t, ast.Tuple) and all(isinstance(e, ast.Name) for e in t.elts):
            return pad + 'SUnpack %s (%s)' % (clist(cstr(e.id) for e in t.elts), expr(n.value))
        unknown(n, 'assignment target')
    if isinstance(n, ast.AugAssign):
        if not isinstance(n.target, ast.Name) or type(n.op) not in AR:
            unknown(n, 'augmented assignment')
        return pad + 'SAssign %s (EArith %s (EVar %s) (%s))' % (
            cstr(n.target.id), AR[type(n.op)], cstr(n.target.id), expr(n.value))
    if isinstance(n, ast.If):
        return '%sSIf (%s)\n%s\n%s' % (pad, expr(n.test), block(n.body, ind + 2), block(n.orelse, ind + 2))
    if isinstance(n, ast.While):
        if n.orelse:
            unknown(n, 'while-else')
        return '%sSWhile (%s)\n%s' % (pad, expr(n.test), block(n.body, ind + 2))
    if isinstance(n, ast.Continue):
        return pad + 'SContinue'
    if isinstance(n, ast.Raise):
        e = n.exc
        if n.cause is None and isinstance(e, ast.Call) and isinstance(e.func, ast.Name) and not e.keywords \
                and not any(isinstance(a, ast.Starred) for a in e.args):
            return pad + 'SRaise %s %s' % (cstr(e.func.id), clist(expr(a) for a in e.args))
        unknown(n, 'raise form')
    if isinstance(n, ast.Return):
        return pad + 'SReturn (%s)' % ('ENone' if n.value is None else expr(n.value))
    unknown(n, 'statement')


def block(stmts, ind):
    """Right-nested SSeq; the empty block is SSkip."""
    pad = ' ' * ind
    if not stmts:
        return pad + 'SSkip'
    if len(stmts) == 1:
        return '%s(%s)' % (pad, stmt(stmts[0], 0).replace('\n', '\n' + pad + ' '))
    return '%s(SSeq\n%s\n%s)' % (pad, block(stmts[:1], ind + 2), block(stmts[1:], ind + 2))


def region(fn, mode):
    body = list(fn.body)
    if body and isinstance(body[0], ast.Expr) and isinstance(body[0].value, ast.Constant) \
            and isinstance(body[0].value.value, str):
        body = body[1:]                                                        # N1
    if mode == 'body':
        return body
    loops = [i for i, s in enumerate(body) if isinstance(s, ast.While)]
    if not loops:
        raise Unknown('%s: no top-level while loop' % fn.name)
    start = loops[0]
    while start > 0 and isinstance(body[start - 1], ast.Assign) and len(body[start - 1].targets) == 1 \
            and isinstance(body[start - 1].targets[0], ast.Name):
        start -= 1
    return body[start:]


def params(fn):
    a = fn.args
    if a.vararg or a.kwarg or a.posonlyargs or a.kwonlyargs:
        raise Unknown('%s: parameter kinds other than plain ones' % fn.name)
    return [p.arg for p in a.args]


def main():
    try:
        src = open(SRC).read()
        tree = ast.parse(src)
    except (OSError, SyntaxError) as e:
        die('cannot read/parse %s: %s' % (SRC, e))
    defs = {}
    for n in tree.body:
        if isinstance(n, ast.FunctionDef):
            if n.name in defs:
                die('function %s is defined twice' % n.name)
            defs[n.name] = n
    out = ['(* GENERATED by harness/gen_skeleton.py from emd/sift.py - do not edit; rewritten on every run.',
           '   Structural translation of the control skeletons into the mini language of lib/PyLoop.v.',
           '   Normalisations N1-N10 are listed in the header of harness/gen_skeleton.py (docstrings dropped,',
           '   logger calls -> SSkip, op= expanded, is None -> EIsNone, value-method/slicing chains and dict',
           '   displays -> ONE opaque ECall named by their literal source text with their free variables). *)',
           'From Coq Require Import String List.',
           'From EmdV Require Import lib.PyLoop.',
           'Import ListNotations.',
           'Open Scope string_scope.',
           '']
    try:
        for name, mode in FUNCS:
            if name not in defs:
                raise Unknown('function %s not found in %s' % (name, SRC))
            CUR[0] = name
            fn = defs[name]
            out.append('Definition params_%s : list string :=\n  %s.\n' % (name, clist(cstr(p) for p in params(fn))))
            what = 'whole body' if mode == 'body' else 'initialisation run + first top-level while + rest'
            out.append('(* %s: %s *)' % (name, what))
            out.append('Definition prog_%s : stmt :=\n%s.\n' % (name, block(region(fn, mode), 2)))
    except Unknown as e:
        die(str(e))
    text = '\n'.join(out)
    old = open(OUT).read() if os.path.exists(OUT) else None
    if old != text:
        os.makedirs(os.path.dirname(OUT), exist_ok=True)
        with open(OUT + '.tmp', 'w') as f:
            f.write(text)
        os.replace(OUT + '.tmp', OUT)
        print('gen_skeleton: wrote %s' % OUT)
    else:
        print('gen_skeleton: %s unchanged' % OUT)


if __name__ == '__main__':
    main()
