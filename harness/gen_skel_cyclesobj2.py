"""Control-skeleton tie of the Cycles container, second part (notes/TIE_CYCLESOBJ2.md): emd/cycles.py ->
coq/gen/Gen_Skel_Cyclesobj2.v.

Whole bodies of Cycles.compute_cycle_metric, compute_cycle_timings, compute_chain_metric, __init__ and the body of
get_metric_dataframe after its `import pandas` statement, as terms of lib/PyLoop.v. model/SkelPrims_Cyclesobj2.v maps the
opaque calls to the operations of model/CyclesObj.v (`step` for ComputeMetric / Timings / Export, chain_t_vals, init);
proofs/SkelFacts_Cyclesobj2.v proves the refinements. The first part (pick_cycle_subset, get_matching_cycles,
_parse_condition, add_cycle_metric, _safe_add_metric) is gen_skel_cyclesobj.py.
Always exits 0 (fail closed = poisoned file)."""
import gen_skeleton

gen_skeleton.generate(
    'emd/cycles.py',
    [('Cycles.compute_cycle_metric', 'body'),
     ('Cycles.get_metric_dataframe', 'slice:1:', 'Cycles_get_metric_dataframe'),
     ('Cycles.compute_cycle_timings', 'body'),
     ('Cycles.compute_chain_metric', 'body'),
     ('Cycles.__init__', 'body', 'Cycles_init')],
    'Gen_Skel_Cyclesobj2.v',
    'class Cycles, second part (C15): compute_cycle_metric, get_metric_dataframe, compute_cycle_timings, compute_chain_metric, __init__.',
    modules={'np', 're', 'warnings', 'functools', 'interp', 'spectra', 'utils', 'sift', '_cycles_support', 'logging', 'pd'},
    logger='logger',
    call_frame_callee=True)
