"""Control-skeleton tie of the sift stopping rules (notes/TIE_STOPS.md): emd/sift.py -> coq/gen/Gen_Skel_Stops.v.

Whole bodies of sd_stop, rilling_stop, fixed_stop, energy_stop, _energy_difference and zero_crossing_count, as terms
of lib/PyLoop.v. model/SkelPrims_Stops.v maps the numpy primitives (- + ** / np.sum np.abs np.mean np.any < > == bool
np.log10) to exact integer / rational arithmetic with numpy's division semantics written out; proofs/SkelFacts_Stops.v
proves the bodies equal to the exact models of model/Toys.v (C04). Always exits 0 (fail closed = poisoned file).

LOCAL NORMALISATION (this driver only; the shared translator makes any expression with `/` or `**` ONE opaque
primitive named by its source text, which would hide exactly the formulas this tie is about):
  N16 `a / b` -> ECall "/" [a; b] [],  `a ** b` -> ECall "**" [a; b] []   (operands translated structurally),
i.e. the same dispatch-by-operator-name the interpreter uses for + - * // on non-ints (like __truediv__ / __pow__).
Nothing else of gen_skeleton is changed; every other shape keeps its N1-N15 treatment and its fail-closed checks."""
import ast

import gen_skeleton

_shared_expr = gen_skeleton.expr
_N16 = {ast.Div: '/', ast.Pow: '**'}


def _expr(n):
    if isinstance(n, ast.BinOp) and type(n.op) in _N16:
        # gen_skeleton.expr is looked up at call time, so the operands come back through this function
        return 'ECall %s %s []' % (gen_skeleton.cstr(_N16[type(n.op)], n),
                                   gen_skeleton.clist([gen_skeleton.expr(n.left), gen_skeleton.expr(n.right)]))
    return _shared_expr(n)


gen_skeleton.expr = _expr

gen_skeleton.generate(
    'emd/sift.py',
    [('sd_stop', 'body'),
     ('rilling_stop', 'body'),
     ('fixed_stop', 'body'),
     ('_energy_difference', 'body', 'energy_difference'),
     ('energy_stop', 'body'),
     ('zero_crossing_count', 'body')],
    'Gen_Skel_Stops.v',
    ['Whole bodies of sd_stop, rilling_stop, fixed_stop, _energy_difference, energy_stop, zero_crossing_count (C04).',
     'Local normalisation N16 (harness/gen_skel_stops.py): a / b -> ECall / [a; b], a ** b -> ECall ** [a; b].'],
    modules={'np', 'signal', 'interp', 'logging', 'sys', 'collections', 'functools', 'inspect', 'yaml', 'mp'},
    logger='logger')
