"""Control-skeleton tie of a handful of functions that the earlier ties left untied (notes/TIE_MISC.md):

  emd/logger.py           set_up                                  -> coq/gen/Gen_Skel_Misc.v         (C20, model/Logger.v SetUp)
  emd/_cycles_support.py  get_chain_stat_from_samples             -> coq/gen/Gen_Skel_Miscsupport.v  (C15, model/CyclesObj.v chain_stat)
  emd/cycles.py           Cycles.compute_chain_timings (sliced    -> coq/gen/Gen_Skel_Misccycles.v   (C15, model/CyclesObj.v chain_t_loop)
                          around its nested def)
  emd/spectra.py          define_hist_bins,                       -> coq/gen/Gen_Skel_Miscspectra.v  (C10, model in SkelPrims_Misc.v)
                          define_hist_bins_from_data

Terms of lib/PyLoop.v, with N16 call_frame_callee switched on.  model/SkelPrims_Misc.v maps the opaque calls to the
operations of the models; proofs/SkelFacts_Misc.v proves the refinements.
Always exits 0 (fail closed = poisoned file)."""
import gen_skeleton

gen_skeleton.generate(
    'emd/logger.py',
    [('set_up', 'body')],
    'Gen_Skel_Misc.v',
    'Whole body of set_up (C20).',
    modules={'sys', 'logging', 'yaml', 'np'},
    logger='logger', call_frame_callee=True)

gen_skeleton.generate(
    'emd/_cycles_support.py',
    [('get_chain_stat_from_samples', 'body')],
    'Gen_Skel_Miscsupport.v',
    'Whole body of get_chain_stat_from_samples (C15).',
    modules={'np'},
    logger='logger', call_frame_callee=True)

gen_skeleton.generate(
    'emd/cycles.py',
    [('Cycles.compute_chain_timings', 'slice:0:3', 'compute_chain_timings_a'),
     ('Cycles.compute_chain_timings', 'slice:4:', 'compute_chain_timings_b')],
    'Gen_Skel_Misccycles.v',
    'Cycles.compute_chain_timings, the statements before and after its nested def _get_chain_len (C15).',
    modules={'np', 're', 'warnings', 'functools', 'interp', 'spectra', 'utils', 'sift', '_cycles_support', 'logging'},
    logger='logger', call_frame_callee=True)

gen_skeleton.generate(
    'emd/spectra.py',
    [('define_hist_bins', 'body'),
     ('define_hist_bins_from_data', 'body')],
    'Gen_Skel_Miscspectra.v',
    'Whole bodies of define_hist_bins and define_hist_bins_from_data (C10, C11).',
    modules={'np', 'signal', 'sparse', 'logging', 'warnings', 'utils', 'cycles'},
    logger='logger', call_frame_callee=True)
