"""Control-skeleton tie of the option plumbing (notes/TIE_OPTIONS.md): emd/sift.py -> coq/gen/Gen_Skel_Options.v.

Whole bodies of the twelve functions that thread imf_opts / envelope_opts / extrema_opts from a sift variant's
entry point to the stage they configure (sift, _sift_with_noise, ensemble_sift, complete_ensemble_sift,
get_next_imf_mask, get_mask_freqs, mask_sift, sift_second_layer, mask_sift_second_layer, get_next_imf,
interp_envelope, get_padded_extrema), as terms of lib/PyLoop.v, with their parameter lists params_<f>.
model/SkelPrims_Options.v extracts every call site of a stage function / sift variant from these terms and binds
its arguments to the callee's parameter list; proofs/SkelFacts_Options.v proves that the bindings are the ones the
call-site functions of model/Options.v encode (C06). Always exits 0 (fail closed = poisoned file)."""
import gen_skeleton

gen_skeleton.generate(
    'emd/sift.py',
    [('sift', 'body'),
     ('_sift_with_noise', 'body', 'sift_with_noise'),
     ('ensemble_sift', 'body'),
     ('complete_ensemble_sift', 'body'),
     ('get_next_imf_mask', 'body'),
     ('get_mask_freqs', 'body'),
     ('mask_sift', 'body'),
     ('sift_second_layer', 'body'),
     ('mask_sift_second_layer', 'body'),
     ('get_next_imf', 'body'),
     ('interp_envelope', 'body'),
     ('get_padded_extrema', 'body')],
    'Gen_Skel_Options.v',
    'Whole bodies of the twelve functions that thread the option bundles to the sift stages (C06).',
    modules={'np', 'mp', 'functools', 'spectra', 'interp', 'signal'},
    logger='logger')
