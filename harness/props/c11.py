"""C11 - the holospectrum bins energy jointly by carrier and amplitude-modulation frequency.

PROOF          coq/props/Prop_C11.v  (model: coq/model/Spectra.v)
CORRESPONDENCE run_holo: full / summed spectra in both modes, model vs emd.spectra.holospectrum, integer data
ORACLE         triple-loop brute-force histogram; 'sum' and 'mean' equal sum/mean over time of the full output
"""
import numpy as np

import common
from common import zlist, zlistlist
from props import c10

IMPORTS = c10.IMPORTS


def zl3(a):
    return '[' + '; '.join(zlistlist(p) for p in a) + ']'


def gen_cases(ctx):
    cases = []
    es = c10.edge_sets()
    n = 500 if ctx.quick() else 20000
    for i in range(n):
        k1, e1 = es[i % len(es)]
        k2, e2 = ctx.rng.choice(es)
        fv1, fv2 = c10.freq_values(e1), c10.freq_values(e2)
        T = ctx.rng.choice([1, 2, 4]) if i % 3 else ctx.rng.choice([1, 2, 3, 5])
        M, K = ctx.rng.randint(1, 2), ctx.rng.randint(1, 3)
        f1 = [[ctx.rng.choice(fv1) for _ in range(M)] for _ in range(T)]
        f2 = [[[ctx.rng.choice(fv2) for _ in range(K)] for _ in range(M)] for _ in range(T)]
        a2 = [[[ctx.rng.randint(-2, 5) for _ in range(K)] for _ in range(M)] for _ in range(T)]
        cases.append((e1, e2, f1, f2, a2))
    return cases


def render3(m):
    out = []
    for p in m:
        out += c10.render2(p) + [-99998]
    return out


def impl_run_holo(e1, e2, f1, f2, a2):
    from emd import spectra
    E1, E2 = np.array(e1, dtype=float), np.array(e2, dtype=float)
    F1, F2, A2 = np.array(f1, dtype=float), np.array(f2, dtype=float), np.array(a2, dtype=float)
    try:
        out = render3(spectra.holospectrum(F1, F2, A2, E1, E2, mode='energy', squash_time=False)) + [-99997]
        out += render3(spectra.holospectrum(F1, F2, A2, E1, E2, mode='amplitude', squash_time=False)) + [-99997]
        out += c10.render2(spectra.holospectrum(F1, F2, A2, E1, E2, mode='energy', squash_time='sum')) + [-99997]
        out += c10.render2(spectra.holospectrum(F1, F2, A2, E1, E2, mode='amplitude', squash_time='sum'))
    except Exception as ex:
        return [-2, common.exc_code(ex)]
    return out


def brute(e1, e2, f1, f2, a2, energy):
    T, M, K = len(f1), len(f1[0]), len(f2[0][0])
    H = np.zeros((T, len(e2) - 1, len(e1) - 1))
    for t in range(T):
        for m in range(M):
            for k in range(K):
                for a in range(len(e2) - 1):
                    for c in range(len(e1) - 1):
                        if e2[a] <= f2[t][m][k] < e2[a + 1] and e1[c] <= f1[t][m] < e1[c + 1]:
                            H[t, a, c] += a2[t][m][k] ** 2 if energy else a2[t][m][k]
    return H


LAYOUTS = ('C', 'F', 'T')


def relayout(a, layout):
    """the same array values in another memory layout: Fortran order, or a transposed view of per-IMF stacked arrays"""
    if layout == 'F':
        return np.asfortranarray(a)
    if layout == 'T' and a.ndim >= 2:
        perm = (1, 0) + tuple(range(2, a.ndim))
        return np.ascontiguousarray(a.transpose(perm)).transpose(perm)
    return a


def oracle(e1, e2, f1, f2, a2, layout='C', ascale=1.0, adtype=None):
    from emd import spectra
    fails = []
    E1, E2 = np.array(e1, dtype=float), np.array(e2, dtype=float)
    F1, F2, A2 = (relayout(np.array(v, dtype=float), layout) for v in (f1, f2, a2))
    A2 = A2 * ascale            # a power of two: the per-sample histogram scales exactly (by its square in energy mode)
    if adtype:
        A2 = A2.astype(adtype)  # integer-typed amplitudes (the case amplitudes are small integers): same values
    A20 = A2.copy()
    for mode in ('energy', 'amplitude'):
        H = brute(e1, e2, f1, f2, a2, mode == 'energy') * (ascale ** 2 if mode == 'energy' else ascale)
        try:
            full = spectra.holospectrum(F1, F2, A2, E1, E2, mode=mode, squash_time=False)
            ssum = spectra.holospectrum(F1, F2, A2, E1, E2, mode=mode, squash_time='sum')
            smean = spectra.holospectrum(F1, F2, A2, E1, E2, mode=mode, squash_time='mean')
        except Exception as ex:
            return [('holospectrum', 'raised %s: %s' % (type(ex).__name__, ex))]
        if full.shape != H.shape:
            fails.append(('holospectrum', 'shape %s, expected [time x AM bins x carrier bins] = %s' % (full.shape, H.shape)))
            continue
        if not np.array_equal(full, H):
            fails.append(('holospectrum', '%s holospectrum differs from the triple-loop histogram: %s vs %s'
                          % (mode, full.tolist(), H.tolist())))
        if not np.array_equal(np.asarray(ssum), full.sum(axis=0)):
            fails.append(("holospectrum(squash_time='sum')", 'differs from the sum over time of the full output'))
        if not np.allclose(np.asarray(smean), full.mean(axis=0), rtol=1e-12, atol=1e-12 * (ascale ** 2 if mode == 'energy' else ascale)):
            fails.append(("holospectrum(squash_time='mean')", 'differs from the mean over time of the full output'))
    if not np.array_equal(A2, A20):
        fails.append(('holospectrum', 'input amplitudes were modified'))
    return fails


def oracle_large(seed, i):
    """bin sets whose product exceeds 2^16 (the two bin indices are folded into one sparse coordinate): a few samples in the
    lowest and the top bins, on edges and out of range, against a direct per-sample histogram.  returns (fails, input)"""
    from emd import spectra
    rs = np.random.RandomState(seed * 23 + i)
    nb1, nb2 = [(300, 260), (256, 256), (70, 1000), (257, 255)][i % 4]
    e1 = np.arange(nb1 + 1, dtype=float)
    e2 = np.arange(nb2 + 1, dtype=float) / 2
    T, M, K = 3, 2, 2
    c1 = np.r_[-1.0, 0.0, 0.5, nb1 - 1, nb1 - 0.5, nb1, nb1 + 3, rs.randint(0, nb1, 4) + 0.25]
    c2 = np.r_[-1.0, 0.0, 0.25, e2[-2], e2[-1] - 0.25, e2[-1], e2[-1] + 3, (rs.randint(nb2 // 2, nb2, 6) + 0.5) / 2]
    f1, f2 = rs.choice(c1, size=(T, M)), rs.choice(c2, size=(T, M, K))
    a2 = rs.randint(1, 5, size=(T, M, K)).astype(float)
    inp = dict(large=[nb1, nb2], infr=f1.tolist(), infr2=f2.tolist(), inam2=a2.tolist())
    fails = []
    for mode in ('energy', 'amplitude'):
        H = np.zeros((T, nb2, nb1))
        for t in range(T):
            for m in range(M):
                c = int(np.floor(f1[t, m])) if 0 <= f1[t, m] < nb1 else None
                for k in range(K):
                    a = int(np.floor(f2[t, m, k] * 2)) if 0 <= f2[t, m, k] < e2[-1] else None
                    if c is not None and a is not None:
                        H[t, a, c] += a2[t, m, k] ** 2 if mode == 'energy' else a2[t, m, k]
        try:
            full = spectra.holospectrum(f1, f2, a2, e1, e2, mode=mode, squash_time=False)
            ssum = spectra.holospectrum(f1, f2, a2, e1, e2, mode=mode, squash_time='sum')
        except Exception as ex:
            return [('holospectrum', '%d x %d bins: raised %s: %s' % (nb1, nb2, type(ex).__name__, ex))], inp
        if full.shape != H.shape or not np.array_equal(full, H):
            w = np.argwhere(np.asarray(full) != H)[:3].tolist() if full.shape == H.shape else []
            fails.append(('holospectrum', '%s holospectrum with %d carrier x %d AM bins differs from the per-sample histogram (shape %s, first differing '
                          'cells [t, am, carrier] %s; total %.6g vs %.6g)' % (mode, nb1, nb2, full.shape, w, float(np.sum(full)), float(H.sum()))))
        elif not np.array_equal(np.asarray(ssum), H.sum(axis=0)):
            fails.append(("holospectrum(squash_time='sum')", '%d x %d bins: differs from the sum over time of the per-sample histogram' % (nb1, nb2)))
    return fails, inp


def lit(c):
    e1, e2, f1, f2, a2 = c
    return '(%s, %s, %s, %s, %s)' % (zlist(e1), zlist(e2), zlistlist(f1), zl3(f2), zl3(a2))


EXPR = "fun c => let '(e1, e2, f1, f2, a2) := c in run_holo e1 e2 f1 f2 a2"


def run(ctx):
    ctx.rule = ('integer first-level frequencies [T x M] and second-level frequency/amplitude arrays [T x M x K] with values '
                'from {below, negative, each edge, each mid-bin, last edge, above} of two independent bin sets (linear/log, '
                '1..4 bins), handed over C-contiguous, Fortran-ordered or as transposed views of per-IMF stacks, amplitudes also multiplied by 2^-30, 2^-60, 2^20 or handed over as int64 / int16; energy+amplitude x squash_time in {False, sum, mean}; plus bin sets of 300x260, 256x256, 70x1000, 257x255 bins (product beyond 2^16) with samples in the lowest and top bins; non-trivial = some frequency out of '
                'range or on an edge')
    ctx.proof(extra=['props/Prop_Tie_Spectra.v'])  # translation tie: program regenerated from the source + refinement theorems
    cases = gen_cases(ctx)
    mh = ctx.model_hashes(IMPORTS, [lit(c) for c in cases], EXPR, shard=150)
    bad = None
    for idx, c in enumerate(cases):
        e1, e2, f1, f2, a2 = c
        out = impl_run_holo(*c)
        flat = [x for r in f1 for x in r]
        flat2 = [x for p in f2 for r in p for x in r]
        nt = any(x < e1[0] or x >= e1[-1] or x in e1 for x in flat) or any(x < e2[0] or x >= e2[-1] or x in e2 for x in flat2)
        ctx.count(c, nt, 'T%d' % len(f1))
        ctx.exact_cmp += 1
        if idx % 211 == 0:
            ctx.sample(dict(freq_edges=e1, freq_edges2=e2, infr=f1, infr2=f2, inam2=a2))
        layout = LAYOUTS[idx % 3]
        ctx.hist['layout-' + layout] += 1
        ascale = [1.0, 1.0, 2.0 ** -30, 1.0, 2.0 ** -60, 2.0 ** 20, 1.0][idx % 7]      # amplitudes in very small / large units
        if ascale != 1.0:
            ctx.hist['amplitude-x%g' % ascale] += 1
        adtype = [None, 'int64', None, 'int16', None][idx % 5] if ascale == 1.0 else None
        if adtype:
            ctx.hist['amplitude-dtype-' + adtype] += 1
        fails = oracle(*c, layout=layout, ascale=ascale, adtype=adtype)
        for site, detail in fails[:1]:
            ctx.problem('impl-violation', site, ('' if layout == 'C' else '(arrays in memory layout %s) ' % layout) + detail[:600],
                        input=dict(freq_edges=e1, freq_edges2=e2, infr=f1, infr2=f2, inam2=a2, layout=layout, ascale=ascale, adtype=adtype))
        if common.hashL(out) != mh[idx] and bad is None and not fails:
            bad = idx
    for i in range(4 if ctx.quick() else 60):
        fails, inp = oracle_large(ctx.seed, i)
        ctx.count(('large', i), True, 'large-bins-%dx%d' % tuple(inp['large']))
        ctx.exact_cmp += 1
        for site, detail in fails[:1]:
            ctx.problem('impl-violation', site, detail, input=dict(inp, seed=ctx.seed, index=i))
    if bad is not None:
        c = cases[bad]
        mo = ctx.model_outputs(IMPORTS, [lit(c)], EXPR)[0]
        ctx.problem('correspondence-break', 'run_holo', 'model and implementation differ',
                    input=dict(freq_edges=c[0], freq_edges2=c[1], infr=c[2], infr2=c[3], inam2=c[4]),
                    observed=impl_run_holo(*c), expected=mo, theorem='Spectra.run_holo vs emd.spectra.holospectrum')


def replay(rec):
    i = rec['input']
    if 'large' in i:
        fails, _ = oracle_large(i['seed'], i['index'])
        for f in fails:
            print(f)
        return bool(fails)
    fails = oracle(i['freq_edges'], i['freq_edges2'], i['infr'], i['infr2'], i['inam2'], layout=i.get('layout', 'C'), ascale=i.get('ascale', 1.0), adtype=i.get('adtype'))
    for f in fails:
        print(f)
    return bool(fails)
