"""C04 - single-IMF extraction obeys its stopping rule and always terminates.

PROOF          coq/props/Prop_C04.v  (model: coq/model/SiftCore.v gni_loop, coq/model/Toys.v sd_stop / rilling_stop)
CORRESPONDENCE (1) scripted: EVERY script of envelope availability x rule decisions up to a depth x 3 methods x iteration limits,
                   real get_next_imf with scripted envelopes/rules vs SiftCore.run_scripted (exact: outcome, iterate index, flag, niters);
               (2) toy mode: real get_next_imf on integer signals with the integer toy envelopes vs Toys.run_toy_gni (bit exact);
               (3) real sd_stop / rilling_stop on integer vectors (incl. 0/0 and x/0 rows) vs the exact models;
               (4) trace conformance on real numerics: the recorded envelope availability / rule decisions fed to the model
                   must reproduce flag, iteration count and outcome of the real run.
ORACLE         the property itself on real signals and real envelopes: the iterate sequence is recomputed with the public stage
               functions (x_{k+1} = x_k - step*mean envelope), the rule is evaluated from its definition, and get_next_imf must
               return the first firing iterate with its full mean removed / the n-th for fixed / the first iterate without
               envelopes (unmodified input flagged final when k = 0) / raise iff max_iters+1 iterates passed (guard band 1e-6).
"""
import itertools
import warnings

import numpy as np

import common
import toys
from common import zlist, blist
from props import siftcore
from props.siftcore import IMPORTS

GUARD = 1e-6


# ----------------------------------------------------------------------------- oracle on real numerics
def spec_gni(x, imf_opts, envelope_opts, extrema_opts):
    """Independent evaluation of the property's definition.  Returns (kind, value, k, discard) with kind in
    {'stop','noenv','error'}; k = index of the iterate concerned."""
    from emd import sift
    method = imf_opts.get('stop_method', 'sd')
    step = imf_opts.get('env_step_size', 1)
    max_iters = imf_opts.get('max_iters', 1000)
    proto = np.array(x)[:, None]        # same dtype as the implementation receives; numpy promotes from the first step on
    k = 0
    while True:
        if method != 'fixed' and k > max_iters:
            return 'error', None, k, False
        u = sift.interp_envelope(proto, mode='upper', **envelope_opts, extrema_opts=extrema_opts)
        l = sift.interp_envelope(proto, mode='lower', **envelope_opts, extrema_opts=extrema_opts)
        if u is None or l is None:
            return 'noenv', proto, k, False
        avg = ((u + l) / 2)[:, None]
        x1 = proto - avg
        with np.errstate(all='ignore'):
            if method == 'sd':
                thr = imf_opts.get('sd_thresh', .1)
                den = np.sum(proto ** 2)
                m = np.sum((proto - x1) ** 2) / den
                if not np.isfinite(m) or abs(m - thr) <= GUARD * thr:
                    if np.isfinite(m):
                        return 'stop', None, k, True
                stop = bool(m < thr)
            elif method == 'rilling':
                sd1, sd2, tol = imf_opts.get('rilling_thresh', (0.05, 0.5, 0.05))
                E = np.abs((u + l) / 2) / (np.abs(u - l) / 2)
                fin = E[np.isfinite(E)]
                if np.any(np.abs(fin - sd1) <= GUARD * sd1) or np.any(np.abs(fin - sd2) <= GUARD * sd2):
                    return 'stop', None, k, True
                frac = np.mean(E > sd1)
                if abs(frac - tol) < 1e-12:
                    return 'stop', None, k, True
                stop = not (frac > tol or bool(np.any(E > sd2)))
            else:
                stop = (k + 1 == max_iters)
        if stop:
            return 'stop', x1, k, False
        proto = proto - step * avg
        k += 1
        if k > 3000:
            return 'error', None, k, True


def oracle_real(x, imf_opts, envelope_opts, extrema_opts, dtype=None, amp=1.0):
    """returns (fails, path, record for conformance, discard); dtype: the signal is handed to the implementation as that dtype
    (integer counts / float32) while the specification is evaluated on the float64 values it denotes"""
    from emd import sift
    x_impl, x = siftcore.as_dtype(x, dtype)
    with warnings.catch_warnings():
        warnings.simplefilter('ignore')
        kind, val, k, discard = spec_gni(x_impl, imf_opts, envelope_opts, extrema_opts)
        if discard:
            return [], 'guard-band', None, True
        with siftcore.recording() as rec:
            try:
                with common.time_limit(60):
                    imf, flag = sift.get_next_imf(x_impl[:, None], **imf_opts, envelope_opts=envelope_opts, extrema_opts=extrema_opts)
                got = 'ok'
            except common.Timeout:
                return [('get_next_imf', 'did not terminate within 60 s (limit %s)' % imf_opts.get('max_iters'))], 'timeout', None, False
            except Exception as e:
                got = type(e).__name__
                imf = flag = None
    fails = []
    scale = amp * max(1.0, float(np.abs(x).max()) / amp)     # amp: the power of ten the order-one family signal was multiplied by
    if kind == 'error':
        if got != 'EMDSiftCovergeError':
            fails.append(('get_next_imf', 'no convergence within max_iters=%s (rule never met at iterates 0..%d) but the call %s instead of '
                          'raising the convergence error' % (imf_opts.get('max_iters'), k - 1, 'returned an iterate' if got == 'ok' else 'raised ' + got)))
    elif got != 'ok':
        fails.append(('get_next_imf', 'raised %s although %s' % (got, 'the rule fires at iterate %d' % k if kind == 'stop' else
                                                                 'iterate %d has too few extrema' % k)))
    elif kind == 'stop':
        if imf.shape != (len(x), 1) or np.abs(imf - val).max() > 1e-9 * scale:
            fails.append(('get_next_imf', 'rule %s fires first at iterate %d: the result must be that iterate minus its full envelope mean; '
                          'max deviation %.3g' % (imf_opts.get('stop_method', 'sd'), k, float(np.abs(imf - val).max()) if imf.shape == val.shape else -1)))
        if not flag and imf_opts.get('energy_thresh') is None:
            fails.append(('get_next_imf', 'a converged IMF (rule met at iterate %d) came back flagged as final residual' % k))
    else:
        if imf.shape != (len(x), 1) or np.abs(imf - val).max() > 1e-9 * scale:
            fails.append(('get_next_imf', 'iterate %d is the first without envelopes: it must be returned as is; max deviation %.3g'
                          % (k, float(np.abs(imf - val).max()) if imf.shape == val.shape else -1)))
        if k == 0 and (flag or not np.array_equal(imf[:, 0], x)):
            fails.append(('get_next_imf', 'the input itself has too few extrema: it must come back unmodified and flagged as the final residual'))
        if k > 0 and not flag and imf_opts.get('energy_thresh') is None:
            fails.append(('get_next_imf', 'iterate %d (not the input) lost its extrema and came back flagged as the FINAL residual although the '
                          'input itself has enough extrema: only the unmodified input may be flagged final' % k))
    path = '%s-%s' % (imf_opts.get('stop_method', 'sd'), kind if kind != 'stop' else ('stop@%s' % ('0' if k == 0 else '1-3' if k < 4 else '4+')))
    return fails, path, (rec, got, flag, imf), False



def oracle_history(ctx, n):
    """a sequence of get_next_imf calls that share ONE envelope_opts dictionary but use different extrema_opts: every call must
    return what the same call with fresh dictionaries returns (the iterates are defined by the call's own options)"""
    from emd import sift
    fails = []
    sigs = siftcore.real_signals(ctx.seed + 77, n, 40, 120)
    for i, (fam, x) in enumerate(sigs):
        shared = {'interp_method': ctx.rng.choice(['splrep', 'pchip', 'mono_pchip'])}
        seq = [dict(pad_width=ctx.rng.choice([1, 2, 3, 4])), None, dict(pad_width=ctx.rng.choice([1, 3, 4]), parabolic_extrema=True),
               dict(pad_width=2)]
        ctx.rng.shuffle(seq)
        imf_opts = dict(stop_method='fixed', max_iters=ctx.rng.choice([1, 2, 3]), env_step_size=ctx.rng.choice([1, 0.5]))
        outs = []
        with warnings.catch_warnings():
            warnings.simplefilter('ignore')
            try:
                with common.time_limit(60):
                    for xo in seq:
                        a = sift.get_next_imf(x[:, None], envelope_opts=shared, extrema_opts=xo, **imf_opts)
                        b = sift.get_next_imf(x[:, None], envelope_opts=dict(interp_method=shared['interp_method']),
                                              extrema_opts=None if xo is None else dict(xo), **imf_opts)
                        outs.append((a, b))
            except Exception as e:
                fails.append(('get_next_imf(history)', 'raised %s: %s' % (type(e).__name__, e),
                              dict(kind='history', signal=[float(v) for v in x], interp_method=shared['interp_method'], seq=seq, imf_opts=imf_opts)))
                return fails
        ctx.count(('history', i), True, 'history')
        ctx.tol_cmp += 1
        for k, ((ia, fa), (ib, fb)) in enumerate(outs):
            if ia.shape != ib.shape or not np.array_equal(ia, ib) or bool(fa) != bool(fb):
                fails.append(('get_next_imf(history)', 'call %d of a sequence sharing one envelope_opts dictionary (extrema_opts %s) differs from the '
                              'same call with fresh dictionaries by %.3g: the result depends on the earlier calls'
                              % (k, seq[k], float(np.abs(ia - ib).max()) if ia.shape == ib.shape else -1),
                              dict(kind='history', signal=[float(v) for v in x], interp_method=shared['interp_method'], seq=seq, imf_opts=imf_opts)))
                return fails
    return fails

def run(ctx):
    ctx.rule = ('(1) scripted: every (has_env, fired) script up to depth %d x {sd,rilling,fixed} x max_iters 1..depth+1 through the real '
                'get_next_imf (envelopes and rules replaced by the script) vs the model: outcome kind, index of the returned iterate, flag, '
                'iteration count - exact; (2) toy mode: random integer signals (6 families, length 3..40) x 6 toy envelope rules x random '
                'thresholds/steps/limits, real get_next_imf vs Toys.run_toy_gni bit for bit; (3) sd_stop / rilling_stop on integer vectors vs the '
                'exact models; (4) real signals (8 families + intermittent bursts on a weak carrier under the Rilling rule; three in ten of the float64 ones multiplied by 1e-12, 1e-9 or 1e5) x {sd,rilling,fixed} x step {1,1/2,1/4} x {splrep,pchip,mono_pchip} x pad 1..4 x '
                'limits 1..1000: specification oracle + trace conformance of the model.  non-trivial = at least one sifting iteration was '
                'completed (envelopes existed at iterate 0)' % (4 if ctx.quick() else 5))
    # the translation tie: the control skeletons of get_next_imf / sift / mask_sift are regenerated from the source and the
    # refinement theorems to the models used by this property's theorems are re-checked
    ctx.proof(extra=['props/Prop_Tie_Sift.v', 'props/Prop_Tie_Stops.v'])
    bad = []
    # ---- (1) scripted, exhaustive
    depth = 4 if ctx.quick() else 5
    cases = []
    for L in range(0, depth + 1):
        for he in itertools.product([False, True], repeat=L):
            for fr in itertools.product([False, True], repeat=L):
                if any(f and not h for h, f in zip(he, fr)):
                    continue        # a decision is only consulted when envelopes exist
                for method in (0, 1, 2):
                    if method == 2 and any(fr):
                        continue
                    for mi in range(1, depth + 2):
                        cases.append((method, mi, list(he), list(fr)))
    lits = ['((%d, %d), (%s, %s))' % (m, mi, blist(he), blist(fr)) for m, mi, he, fr in cases]
    mo = ctx.model_outputs(IMPORTS, lits, 'fun c => run_scripted (fst (fst c)) (snd (fst c)) (fst (snd c)) (snd (snd c))', shard=2000)
    for (m, mi, he, fr), exp in zip(cases, mo):
        got = siftcore.impl_scripted(m, mi, he, fr)
        ctx.count(('scripted', m, mi, tuple(he), tuple(fr)), bool(he and he[0]), 'scripted-%s' % ('error' if exp[0] == 5 else 'imf'))
        ctx.exact_cmp += 1
        if got != exp and len(bad) < 3:
            bad.append(('get_next_imf(scripted)', dict(kind='scripted', method=toys.METHODS[m], max_iters=mi, has_env=he, fired=fr), got, exp))
    ctx.exhaustive = True
    # ---- (2) toy mode
    n = 400 if ctx.quick() else 12000
    tcases = []
    for i in range(n):
        cfg = toys.gen_cfg(ctx.rng)
        cfg[15] = 0
        x = toys.gen_signal(ctx.rng)
        tcases.append((cfg, x))
    mo = ctx.model_outputs(IMPORTS, ['(%s, %s)' % (zlist(c), zlist(x)) for c, x in tcases], 'fun c => run_toy_gni (fst c) (snd c)', shard=300)
    for (cfg, x), exp in zip(tcases, mo):
        got, discard = siftcore.impl_toy_gni(cfg, x)
        if discard:
            ctx.discarded += 1
            continue
        path = 'toy-%s-%s' % (toys.METHODS[cfg[1]], 'error' if exp[0] == 5 else 'noenv@0' if (exp[1] == 0 and not cfg[5]) else 'n=%s' % min(exp[2], 4))
        ctx.count(('toy', tuple(cfg), tuple(x)), exp[0] == 5 or exp[2] > 1, path)
        ctx.exact_cmp += 1
        if got != exp and len(bad) < 6:
            bad.append(('get_next_imf(toy)', dict(kind='toy', cfg=cfg, signal=x), got, exp))
    ctx.sample(dict(cfg=tcases[0][0], signal=tcases[0][1]))
    # ---- (3) stop formulas
    from emd import sift
    scases = []
    for i in range(300 if ctx.quick() else 5000):
        ln = ctx.rng.randint(1, 8)
        kind = ctx.rng.randint(0, 4)
        a = [ctx.rng.randint(-6, 6) * (0 if kind == 0 else 1) for _ in range(ln)]
        b = [v if ctx.rng.random() < 0.3 else ctx.rng.randint(-6, 6) for v in a]
        sn, sd = ctx.rng.choice([(1, 8), (1, 2), (1, 64), (3, 4), (1, 1), (2, 1)])
        r = [ctx.rng.choice([(1, 16), (1, 4), (1, 2), (1, 1)]), ctx.rng.choice([(1, 2), (1, 1), (3, 1)]), ctx.rng.choice([(1, 16), (1, 4), (1, 2), (0, 1)])]
        scases.append((a, b, sn, sd, r))
    lits = ['((%s, %s), %s)' % (zlist(a), zlist(b), zlist([sn, sd, r[0][0], r[0][1], r[1][0], r[1][1], r[2][0], r[2][1]])) for a, b, sn, sd, r in scases]
    mo = ctx.model_outputs(IMPORTS, lits,
                           'fun c => let a := fst (fst c) in let b := snd (fst c) in let p := snd c in let g := fun k => nth k p 0 in '
                           '[b2z (sd_stop (g 0%nat) (g 1%nat) a b); b2z (rilling_stop (g 2%nat) (g 3%nat) (g 4%nat) (g 5%nat) (g 6%nat) (g 7%nat) a b)]',
                           shard=1000)
    with np.errstate(all='ignore'), warnings.catch_warnings():
        warnings.simplefilter('ignore')
        for (a, b, sn, sd, r), exp in zip(scases, mo):
            A, B = np.array(a, dtype=float), np.array(b, dtype=float)
            got = [int(bool(sift.sd_stop(A, B, sd=sn / sd)[0])),
                   int(bool(sift.rilling_stop(A, B, sd1=r[0][0] / r[0][1], sd2=r[1][0] / r[1][1], tol=r[2][0] / r[2][1])[0]))]
            ctx.count(('stop', tuple(a), tuple(b), sn, sd, tuple(r)), True, 'stop-formulas')
            ctx.exact_cmp += 1
            if documented_stops(a, b, [sn, sd], r) != exp:
                ctx.problem('correspondence-break', 'documented_stops', 'the harness reading of the documented criteria and the Coq model differ',
                            input=dict(kind='stop', a=a, b=b, sd=[sn, sd], rilling=r), observed=documented_stops(a, b, [sn, sd], r), expected=exp,
                            theorem='harness/props/c04.py:documented_stops vs Toys.sd_stop / rilling_stop')
                break
            if got != exp and len(bad) < 9:
                bad.append(('sd_stop/rilling_stop', dict(kind='stop', a=a, b=b, sd=[sn, sd], rilling=r), got, exp))
    # ---- (4) real numerics: oracle + conformance
    nsig = 48 if ctx.quick() else 1600
    conf_cases, conf_meta = [], []
    # intermittent signals (a weak carrier with a few short strong bursts): the cubic-spline envelopes overshoot and CROSS there, which is
    # where the sign conventions of the Rilling amplitude matter; always run with the Rilling rule
    brs = np.random.RandomState(ctx.seed * 29 + 3)
    bursts = []
    for _ in range(10 if ctx.quick() else 300):
        N = int(brs.randint(80, 200))
        t = np.arange(N)
        xb = 0.05 * np.sin(2 * np.pi * t / brs.uniform(6, 12))
        for _k in range(int(brs.randint(1, 4))):
            c, w = brs.randint(10, N - 10), brs.uniform(1.5, 4)
            xb = xb + brs.uniform(1, 3) * np.exp(-0.5 * ((t - c) / w) ** 2) * np.sin(2 * np.pi * (t - c) / brs.uniform(5, 9))
        bursts.append(('burst', xb))
    for fam, x in list(siftcore.real_signals(ctx.seed + 4, nsig)) + bursts:
        imf_opts, envelope_opts, extrema_opts = siftcore.real_opts(ctx.rng)
        if fam == 'burst':
            imf_opts = dict(stop_method='rilling', env_step_size=ctx.rng.choice([1, 0.7]), max_iters=ctx.rng.choice([1000, 25]),
                            rilling_thresh=ctx.rng.choice([(0.05, 0.5, 0.05), (0.1, 1.0, 0.1)]))
            envelope_opts = dict(interp_method='splrep')
        dt = ctx.rng.choice(siftcore.DTYPES)
        amp = 1.0
        if dt is None and ctx.rng.random() < 0.3:
            # "all finite signals": the rules are ratios, so the amplitude of the signal must not matter - very small and large ones
            amp = ctx.rng.choice([1e-12, 1e-9, 1e-9, 1e5])
            x = x * amp
            ctx.hist['amplitude-%g' % amp] += 1
        fails, path, info, discard = oracle_real(x, imf_opts, envelope_opts, extrema_opts, dtype=dt, amp=amp)
        if discard:
            ctx.discarded += 1
            continue
        if dt:
            ctx.hist['dtype-' + dt] += 1
        ctx.count(('real', fam, len(x), repr(imf_opts)), 'noenv@' not in path and not path.endswith('stop@0') or True, 'real-' + path)
        ctx.tol_cmp += 1
        inp = dict(kind='real', signal=[float(v) for v in x], imf_opts=imf_opts, envelope_opts=envelope_opts, extrema_opts=extrema_opts, dtype=dt, amp=amp)
        for site, what in fails[:1]:
            ctx.problem('impl-violation', site, what, input=inp, tags=dict(family=fam))
        if info is not None:
            rec, got, flag, imf = info
            m = toys.METHODS.index(imf_opts['stop_method'])
            he = rec['has_env']
            fr = rec['fired'] + [False] * (len(he) - len(rec['fired']))
            if got == 'ok':
                niters = len(he)
                stopped = bool(he[-1])
                obs = [0, niters if stopped else niters - 1, int(bool(flag)), niters]
            elif got == 'EMDSiftCovergeError':
                obs = [5, len(he)]
            else:
                continue
            conf_cases.append('((%d, %d), (%s, %s))' % (m, imf_opts['max_iters'], blist(he), blist(fr)))
            conf_meta.append((inp, obs))
    if conf_cases:
        mo = ctx.model_outputs(IMPORTS, conf_cases, 'fun c => run_scripted (fst (fst c)) (snd (fst c)) (fst (snd c)) (snd (snd c))', shard=200)
        for (inp, obs), exp in zip(conf_meta, mo):
            ctx.exact_cmp += 1
            ctx.hist['conformance'] += 1
            if obs != exp and len(bad) < 12:
                bad.append(('get_next_imf(trace)', inp, obs, exp))
    for site, what, inp in oracle_history(ctx, 8 if ctx.quick() else 200)[:1]:
        ctx.problem('impl-violation', site, what, input=inp, tags=dict(mode='real'))
    # ---- disagreements: the oracle decides
    if bad and not any(p['kind'] == 'impl-violation' for p in ctx.problems):
        site, inp, got, exp = bad[0]
        v = explain(inp, got, exp)
        if v:
            ctx.problem('impl-violation', 'get_next_imf', v, input=inp, observed=got, expected=exp)
        else:
            ctx.problem('correspondence-break', site, 'model and implementation differ (%d disagreeing cases)' % len(bad), input=inp, observed=got,
                        expected=exp, theorem='SiftCore.gni_loop / Toys vs emd.sift.get_next_imf (%s)' % site)


def documented_stops(a, b, sd, rilling):
    """the two documented criteria on integer vectors, in exact rational arithmetic with numpy's conventions for x/0 and 0/0
    (inf compares greater than every threshold, nan compares false).  sd: sum((a-b)^2)/sum(a^2) < sd.  rilling (a = upper, b = lower
    envelope): E = |(a+b)/2| / (|a-b|/2); stop unless mean(E > sd1) > tol or any(E > sd2)"""
    from fractions import Fraction as F
    num, den = sum((x - y) ** 2 for x, y in zip(a, b)), sum(x * x for x in a)
    sd_stop = den != 0 and F(num, den) < F(*sd)
    sd1, sd2, tol = (F(*q) for q in rilling)
    over1 = over2 = 0
    for x, y in zip(a, b):
        m, w = abs(F(x + y, 2)), abs(F(x - y, 2))
        if w == 0:
            big = m != 0          # inf > thr; nan > thr is False
            over1 += big
            over2 += big
        else:
            over1 += m / w > sd1
            over2 += m / w > sd2
    ril_stop = not (F(over1, len(a)) > tol or over2 > 0)
    return [int(sd_stop), int(ril_stop)]


def explain(inp, got, exp):
    """Does a disagreement on a scripted/toy case violate the property text itself?  (None = no)"""
    if inp.get('kind') == 'stop':
        doc = documented_stops(inp['a'], inp['b'], inp['sd'], inp['rilling'])
        if got != doc:
            which = 'sd_stop' if got[0] != doc[0] else 'rilling_stop'
            return ('%s on the vectors %s / %s decides %s where its documented criterion (sd %s, rilling thresholds %s) gives %s'
                    % (which, inp['a'], inp['b'], 'stop' if got[got[0] == doc[0]] else 'continue', inp['sd'], inp['rilling'],
                       'stop' if doc[got[0] == doc[0]] else 'continue'))
        return None
    if inp.get('kind') == 'scripted':
        he, fr, mi, method = inp['has_env'], inp['fired'], inp['max_iters'], inp['method']
        # property: result = first firing iterate (mean removed) / n-th for fixed / first iterate without envelopes /
        # error iff max_iters+1 iterates passed; unmodified input flagged final iff the input has no envelopes
        k, kind = 0, None
        while True:
            if method != 'fixed' and k > mi:
                kind = ('error', k)
                break
            if k >= len(he) or not he[k]:
                kind = ('noenv', k)
                break
            if (method == 'fixed' and k + 1 == mi) or (method != 'fixed' and k < len(fr) and fr[k]):
                kind = ('stop', k)
                break
            k += 1
        if kind[0] == 'error':
            return None if got[0] == 5 else 'script %s: %d iterates passed without the rule firing but no convergence error was raised' % (inp, k)
        if got[0] != 0:
            return 'script %s: the call raised (%s) although iterate %d %s' % (inp, got, k, 'meets the rule' if kind[0] == 'stop' else 'has no envelopes')
        want_idx = k + 1 if kind[0] == 'stop' else k
        if got[1] != want_idx:
            return 'script %s: returned iterate index %d, the property requires %d (%s at iterate %d)' % (inp, got[1], want_idx, kind[0], k)
        if kind == ('noenv', 0) and got[2] != 0:
            return 'script %s: input without envelopes must be flagged as the final residual' % inp
        if kind[0] == 'noenv' and k > 0 and got[2] != 1:
            return ('script %s: iterate %d (not the input) lost its envelopes and came back flagged as the FINAL residual although the input '
                    'itself had envelopes' % (inp, k))
        if kind[0] == 'stop' and got[2] != 1:
            return 'script %s: a converged IMF came back flagged final' % inp
        return None
    return None


def replay(rec):
    i = rec['input']
    if i.get('kind') == 'real':
        f, _, _, _ = oracle_real(np.array(i['signal']), i['imf_opts'], i['envelope_opts'], i['extrema_opts'], dtype=i.get('dtype'), amp=i.get('amp', 1.0))
        for x in f:
            print(x)
        return bool(f)
    if i.get('kind') == 'history':
        from emd import sift
        x = np.array(i['signal'])
        shared = {'interp_method': i['interp_method']}
        for xo in i['seq']:
            a = sift.get_next_imf(x[:, None], envelope_opts=shared, extrema_opts=xo, **i['imf_opts'])
            b = sift.get_next_imf(x[:, None], envelope_opts=dict(interp_method=i['interp_method']), extrema_opts=None if xo is None else dict(xo), **i['imf_opts'])
            if not np.array_equal(a[0], b[0]) or bool(a[1]) != bool(b[1]):
                return True
        return False
    if i.get('kind') == 'stop':
        from emd import sift
        A, B = np.array(i['a'], dtype=float), np.array(i['b'], dtype=float)
        r = i['rilling']
        with np.errstate(all='ignore'), warnings.catch_warnings():
            warnings.simplefilter('ignore')
            got = [int(bool(sift.sd_stop(A, B, sd=i['sd'][0] / i['sd'][1])[0])),
                   int(bool(sift.rilling_stop(A, B, sd1=r[0][0] / r[0][1], sd2=r[1][0] / r[1][1], tol=r[2][0] / r[2][1])[0]))]
        print('observed', got, 'documented', documented_stops(i['a'], i['b'], i['sd'], r))
        return got != documented_stops(i['a'], i['b'], i['sd'], r)
    if i.get('kind') == 'scripted':
        got = siftcore.impl_scripted(toys.METHODS.index(i['method']), i['max_iters'], i['has_env'], i['fired'])
        print('observed', got, 'expected', rec.get('expected'))
        return got != rec.get('expected')
    if i.get('kind') == 'toy':
        got, _ = siftcore.impl_toy_gni(i['cfg'], i['signal'])
        print('observed', got, 'expected', rec.get('expected'))
        return got != rec.get('expected')
    if i.get('kind') == 'stop':
        return True
    return False
