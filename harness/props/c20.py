"""C20 - logging never changes results; verbosity overrides are temporary.

PROOF          coq/props/Prop_C20.v  (model: coq/model/Logger.v)
CORRESPONDENCE every history up to a depth over {set_up(level, file), set_level, disable, enable, sift call with
               verbose in {None,CRITICAL,WARNING,INFO,DEBUG} that returns / that raises}, each run in a freshly
               forked process whose logger has never been set up; get_level() and the call outcome after every step
ORACLE         level before == level after every call; returned results byte-identical to a reference; a call made
               to raise raises its own error
"""
import json
import multiprocessing as mp
import os
import sys

import numpy as np

import common
from common import zlistlist

IMPORTS = 'From EmdV Require Import lib.NpLite model.Logger.'
NAMES = {50: 'CRITICAL', 30: 'WARNING', 20: 'INFO', 10: 'DEBUG'}

ALPHABET = ([[0, l, 0] for l in (0, 50, 30, 20, 10)] + [[0, 0, 1], [0, 10, 1]]
            + [[1, l, 0] for l in (50, 30, 20, 10)] + [[2, 0, 0], [3, 0, 0]]
            + [[4, v, o] for v in (0, 50, 30, 20, 10) for o in (0, 1)])


def signal():
    t = np.linspace(0, 1, 96)
    return np.sin(2 * np.pi * 7 * t) + 0.5 * np.sin(2 * np.pi * 2 * t) + t


_REF = {}


def call_opts():
    """fresh nested option dictionaries for every call, with floats that have many significant digits (anything that re-formats,
    rounds or caches option values on the logging path changes the result)"""
    return dict(imf_opts={'env_step_size': 0.987654321, 'sd_thresh': 0.123456789}, extrema_opts={'pad_width': 2, 'parabolic_extrema': False})


def reference():
    if 'sift' not in _REF:
        import emd
        _REF['sift'] = emd.sift.sift(signal(), **call_opts()).tobytes()
        _REF['mask_sift'] = emd.sift.mask_sift(signal(), max_imfs=2, mask_freqs=0.25, **call_opts()).tobytes()
        np.random.seed(7)
        _REF['ensemble_sift'] = emd.sift.ensemble_sift(signal(), nensembles=2, nprocesses=2, max_imfs=2, **call_opts()).tobytes()
    return _REF


def history_of_index(ln, idx):
    out = []
    for _ in range(ln):
        out.append(ALPHABET[idx % len(ALPHABET)])
        idx //= len(ALPHABET)
    return out


def real_level():
    """the console handler's level read straight from the logging module (not through emd.logger.get_level)"""
    import logging
    for h in logging.getLogger('emd').handlers:
        if h.get_name() == 'console':
            return int(h.level)
    return -1


def run_history_here(codes, workdir, variant='sift'):
    """Executed inside a freshly forked child: returns the observation trace."""
    import emd
    reals = []
    ref = reference()
    x = signal()
    bad = np.zeros((8, 2, 3))
    tr = []
    for n, (kind, a, b) in enumerate(codes):
        seen = 0
        if kind == 0:
            kw = {}
            if a:
                kw['level'] = NAMES[a]
            if b:
                kw['log_file'] = os.path.join(workdir, 'log_%d_%d.txt' % (os.getpid(), n))
            emd.logger.set_up(**kw)
        elif kind == 1:
            emd.logger.set_level(NAMES[a])
        elif kind == 2:
            emd.logger.disable()
        elif kind == 3:
            emd.logger.enable()
        else:
            verbose = NAMES[a] if a else None
            f = getattr(emd.sift, variant)
            kw = dict(max_imfs=2, mask_freqs=0.25) if variant == 'mask_sift' else {}
            if variant == 'ensemble_sift':
                # a pooled variant (two worker processes), seeded so that the result is comparable
                kw = dict(nensembles=2, nprocesses=2, max_imfs=2)
                np.random.seed(7)
            opts = call_opts()
            try:
                out = f(bad if b else x, verbose=verbose, **kw, **opts)
                seen = 1 if out.tobytes() == ref[variant] else 4
                if opts != call_opts():
                    seen = 5
            except ValueError:
                seen = 2
            except Exception:
                seen = 3
        lv = emd.logger.get_level()
        tr += [-1 if lv is None else int(lv), seen]
        reals.append(real_level())
    return tr, reals


def forked(codes, workdir, variant='sift'):
    r, w = os.pipe()
    pid = os.fork()
    if pid == 0:
        try:
            os.close(r)
            dn = os.open(os.devnull, os.O_WRONLY)
            os.dup2(dn, 1)
            os.dup2(dn, 2)
            try:
                tr = list(run_history_here(codes, workdir, variant))
            except BaseException as e:  # noqa
                tr = [[-99, common.exc_code(e)], []]
            os.write(w, json.dumps(tr).encode())
        finally:
            os._exit(0)
    os.close(w)
    data = b''
    while True:
        chunk = os.read(r, 65536)
        if not chunk:
            break
        data += chunk
    os.close(r)
    os.waitpid(pid, 0)
    return tuple(json.loads(data.decode())) if data else ([-98], [])


def oracle(codes, tr, reals=None):
    """The property itself, on the implementation's trace.  reals: the console handler's level after every step, read from the
    logging module itself - the levels the property talks about; get_level() must report exactly them"""
    fails = []
    if tr[:1] in ([-99], [-98]):
        return [('history', 'history could not be executed: %s' % tr)]
    prev = -1
    for n, (kind, a, b) in enumerate(codes):
        lv, seen = tr[2 * n], tr[2 * n + 1]
        if reals:
            if lv != reals[n]:
                fails.append(('get_level', 'after step %d (%s) get_level() reports %s but the console handler of the emd logger is at %s'
                              % (n, [kind, a, b], lv, reals[n])))
            lv = reals[n]
        if kind == 4:
            what = 'sift(verbose=%s) made to %s' % (NAMES.get(a), 'raise' if b else 'return')
            if lv != prev:
                site = 'wrap_verbose(raise)' if b else ('wrap_verbose(before set_up)' if prev == -1 else 'wrap_verbose')
                fails.append((site, '%s: console level was %s before the call and is %s after it' % (what, prev, lv)))
            if b == 0 and seen != 1:
                site = 'wrap_verbose(before set_up)' if prev == -1 else 'wrap_verbose'
                fails.append((site, '%s: %s' % (what, {4: 'result differs from the reference result (same call in a never-set-up process)',
                                                      5: 'the option dictionaries handed to the call were modified by it',
                                                      3: 'raised an unrelated error and the result was lost',
                                                      2: 'raised ValueError'}.get(seen, seen))))
            if b == 1 and seen != 2:
                fails.append(('wrap_verbose(raise)', '%s: the function\'s own error was not what the caller saw (%s)' % (what, seen)))
        if kind == 0:
            # set_up(level=..): the console comes up at the requested level, or at the documented default when none is given -
            # whatever happened before (a verbosity override is temporary: it may not colour a later set_up)
            want = a if a else _default_level()
            if lv != want:
                fails.append(('set_up', 'set_up(%s) after the history %s left the console at %s instead of %s'
                              % ('level=%r' % NAMES[a] if a else 'no level', codes[:n], lv, want)))
        if kind == 1 and prev != -1 and lv != a:
            fails.append(('set_level', 'set_level(%r) left the console at %s' % (NAMES[a], lv)))
        prev = lv
    return fails


_DEF = {}


def _default_level():
    if 'v' not in _DEF:
        tr, reals = forked([[0, 0, 0]], os.path.join(common.VERIF, '.work'))
        _DEF['v'] = reals[0] if reals else tr[0]
    return _DEF['v']


_W = {}


def _worker(job):
    ln, start, n = job
    outs, fails = [], []
    for idx in range(start, start + n):
        codes = history_of_index(ln, idx)
        tr, reals = forked(codes, _W['work'])
        outs.append(tr)
        f = oracle(codes, tr, reals)
        if f:
            fails.append((codes, f[:2], tr))
    return ln, start, n, common.block_hash(outs), fails[:3]


def run(ctx):
    depth = 3 if ctx.quick() else 4
    ctx.rule = ('every history of length 1..%d over a 23-op alphabet {set_up(level in None/CRITICAL/WARNING/INFO/DEBUG, with/without '
                'log file), set_level x4, disable, enable, sift(verbose in None+4 levels, nested option dictionaries with 9-digit floats, fresh per call) returning / raising}, each in a freshly '
                'forked never-set-up process (so both the never-set-up and the set-up state are starting points); plus random '
                'histories up to length 12 incl. mask_sift and ensemble_sift on two worker processes; observed: get_level(), the level of the console handler read from the logging module itself, and the call outcome after every step; '
                'non-trivial = contains a call with a verbosity override' % depth)
    ctx.proof(extra=['props/Prop_Tie_Logger.v', 'props/Prop_Tie_Misc.v'])  # translation tie: program regenerated from the source + refinement theorems
    reference()
    _W['work'] = ctx.work
    jobs = []
    for ln in range(1, depth + 1):
        jobs += [(ln, s, n) for s, n in common.enum_blocks(len(ALPHABET) ** ln, 529)]
    with mp.Pool(14) as pool:
        res = pool.map(_worker, jobs, chunksize=1)
    ctx.exhaustive = True
    bad = []
    by_len = {}
    for ln, start, n, h, fails in res:
        by_len.setdefault(ln, []).append((start, n, h))
        ctx.evaluations += n
        ctx.hist['depth%d' % ln] += n
        ctx.exact_cmp += n
        for codes, fl, tr in fails:
            for site, detail in fl[:1]:
                ctx.problem('impl-violation', site, detail, input=dict(history=codes), observed=tr)
    # non-trivial count: histories containing an override call (computed, not assumed)
    nt = 0
    for ln in range(1, depth + 1):
        tot = len(ALPHABET) ** ln
        no_override = (len(ALPHABET) - 8) ** ln
        nt += tot - no_override
    ctx.nontrivial |= {'enum%d' % i for i in range(min(nt, 200000))}
    alit = zlistlist(ALPHABET)
    for ln, blocks in by_len.items():
        fexpr = 'fun idx => run_trace (history_of_index %s %d%%nat idx)' % (alit, ln)
        mh = ctx.model_block_hashes(IMPORTS, fexpr, [(s, n) for s, n, _ in blocks])
        for (s, n, h), m in zip(blocks, mh):
            if h != m:
                bad.append((ln, s, n, fexpr))
    # random deeper histories, alternating sift / mask_sift
    nrand = 40 if ctx.quick() else 500
    rcases = []
    for i in range(nrand):
        ln = ctx.rng.randint(4, 12)
        rcases.append(([ctx.rng.choice(ALPHABET) for _ in range(ln)], 'mask_sift' if i % 4 == 0 else ('ensemble_sift' if i % 4 == 1 else 'sift')))
    # fixed histories for the pooled variant: a call WITHOUT an override at every non-default console level (set by set_up or by
    # set_level), returning and raising - whatever a variant does around its worker pool, the level afterwards is the level before
    for L in (50, 30, 10, 20):
        rcases.append(([[0, L, 0], [4, 0, 0], [4, 0, 1], [4, 10, 0]], 'ensemble_sift'))
        rcases.append(([[0, 0, 0], [1, L, 0], [4, 0, 0], [4, 50, 1], [4, 0, 0]], 'ensemble_sift'))
    mo = ctx.model_outputs(IMPORTS, [zlistlist(c) for c, _ in rcases], 'run_trace', shard=100)
    for (codes, variant), m in zip(rcases, mo):
        tr, reals = forked(codes, ctx.work, variant)
        ctx.count(codes, any(k == 4 and a for k, a, b in codes), 'random-' + variant)
        ctx.exact_cmp += 1
        f = oracle(codes, tr, reals)
        for site, detail in f[:1]:
            ctx.problem('impl-violation', site, detail, input=dict(history=codes, variant=variant), observed=tr)
        if tr != m and not f and not bad:
            bad.append(('random', codes, tr, m))
    ctx.sample(dict(history=history_of_index(3, 7777), legend='[kind,a,b]: 0 set_up(level a, file b) 1 set_level(a) 2 disable '
                    '3 enable 4 sift(verbose=a) b=1 raises'))
    ctx.sample(dict(history=rcases[0][0], variant=rcases[0][1]))
    if bad and not any(p['kind'] == 'impl-violation' for p in ctx.problems):
        b = bad[0]
        if b[0] == 'random':
            ctx.problem('correspondence-break', 'run_trace', 'model and implementation traces differ', input=dict(history=b[1]),
                        observed=b[2], expected=b[3], theorem='Logger.run_trace vs emd.logger')
        else:
            ln, s, n, fexpr = b
            mh = ctx.model_index_hashes(IMPORTS, fexpr, s, n)
            for k in range(n):
                codes = history_of_index(ln, s + k)
                tr, _ = forked(codes, ctx.work)
                if common.hashL(tr) != mh[k]:
                    ctx.problem('correspondence-break', 'run_trace', 'model and implementation traces differ',
                                input=dict(history=codes), observed=tr,
                                expected=ctx.model_index_output(IMPORTS, fexpr, s + k), theorem='Logger.run_trace vs emd.logger')
                    break


def replay(rec):
    codes = rec['input']['history']
    os.makedirs(os.path.join(common.VERIF, '.work', 'replay'), exist_ok=True)
    tr, reals = forked(codes, os.path.join(common.VERIF, '.work', 'replay'), rec['input'].get('variant', 'sift'))
    f = oracle(codes, tr, reals)
    for x in f:
        print(x)
    return bool(f)
