"""Implementation drivers shared by C01 / C03 / C04: the real emd.sift.get_next_imf / sift run on
integer signals with the toy envelopes of harness/toys.py patched in (bit-exact twin of coq/model/Toys.v),
scripted envelopes/stop rules, and recording wrappers for trace conformance on real numerics."""
import contextlib
import warnings

import numpy as np

import common
import toys

IMPORTS = 'From EmdV Require Import lib.NpLite model.Extrema model.SiftCore model.Toys.'


def energy_ambiguous(X, imf):
    """the energy test 20log10(a)-20log10(b) > 20 is compared exactly only when a, b > 0 and a != 10 b"""
    a = float(np.sum(np.asarray(X) ** 2))
    b = float(np.sum((np.asarray(X) - np.asarray(imf)) ** 2))
    return a == 0 or b == 0 or a == 10 * b


def impl_toy_gni(cfg, x, timeout=20):
    """render of the real get_next_imf under the toy envelope: same format as Toys.render_gni.
    Returns (rendered list, discard?)"""
    from emd import sift
    X = np.array(x, dtype=float)
    with toys.patched(cfg[0]) as toy, warnings.catch_warnings():
        warnings.simplefilter('ignore')
        try:
            with common.time_limit(timeout):
                imf, flag = sift.get_next_imf(X, **toys.imf_opts(cfg))
        except toys.ToyDomainError:
            return [-8], True
        except Exception as e:
            code = common.exc_code(e)
            return ([5, toy.calls] if code == 5 else [-code]), False
    v = imf[:, 0]
    if not np.all(v == np.round(v)):
        return [-8], True
    discard = bool(cfg[5]) and energy_ambiguous(X, v)
    return [0, int(bool(flag)), toy.calls] + [int(t) for t in v], discard


def impl_toy_sift(cfg, x, timeout=30, variant='sift', extra=None):
    """render of the real sift under the toy envelope: same format as Toys.render_sift ([raised; fuel] ++ columns)."""
    from emd import sift
    X = np.array(x, dtype=float)
    kw = dict(sift_thresh=cfg[14] / 2, max_imfs=(cfg[15] or None), imf_opts=toys.imf_opts(cfg))
    kw.update(extra or {})
    with toys.patched(cfg[0]), warnings.catch_warnings():
        warnings.simplefilter('ignore')
        try:
            with common.time_limit(timeout):
                imf = getattr(sift, variant)(X, **kw)
        except (common.Timeout, toys.ToyDomainError):
            return [0, 1], True
        except Exception as e:
            if common.exc_code(e) == 5:
                return [1, 0], False
            return [-common.exc_code(e)], False
    if not np.all(imf == np.round(imf)):
        return [-8], True
    out = [0, 0]
    for k in range(imf.shape[1]):
        out += [int(t) for t in imf[:, k]] + [-99999]
    return out, False


# ----------------------------------------------------------------------------- scripted runs
@contextlib.contextmanager
def scripted(has_env, fired):
    """interp_envelope returns None per script (both envelopes) or the constant 1 (so avg = 1);
    sd_stop / rilling_stop answer per script.  Iterate k is evaluated with niters = k + 1."""
    from emd import sift
    state = dict(k=-1)

    def env(X, mode='upper', **kw):
        if mode == 'upper':
            state['k'] += 1
        k = state['k']
        if k >= len(has_env) or not has_env[k]:
            return None
        return np.ones(np.asarray(X).shape[0])

    def stop(*a, niters=None, **kw):
        k = niters - 1
        return (bool(k < len(fired) and fired[k]), 0.0)
    real = (sift.interp_envelope, sift.sd_stop, sift.rilling_stop)
    sift.interp_envelope, sift.sd_stop, sift.rilling_stop = env, stop, stop
    try:
        yield state
    finally:
        sift.interp_envelope, sift.sd_stop, sift.rilling_stop = real


def impl_scripted(method, max_iters, has_env, fired):
    """same format as SiftCore.render_gni_nat: [0; iterate index; flag; niters] | [5; niters]"""
    from emd import sift
    X = np.full(6, 1000.0)
    with scripted(has_env, fired) as st:
        try:
            with common.time_limit(10):
                imf, flag = sift.get_next_imf(X, stop_method=toys.METHODS[method], max_iters=max_iters)
        except Exception as e:
            code = common.exc_code(e)
            return [5, st['k'] + 1] if code == 5 else [-code]
    v = imf[:, 0]
    if not np.all(v == v[0]):
        return [-8]
    return [0, int(1000 - v[0]), int(bool(flag)), st['k'] + 1]


# ----------------------------------------------------------------------------- recording wrappers (real numerics)
@contextlib.contextmanager
def recording():
    """records, per iteration of the real get_next_imf: has_env, the rule's decision and its metric"""
    from emd import sift
    rec = dict(has_env=[], fired=[], metric=[], upper=[], lower=[], cur=None)
    real_env, real_sd, real_ril = sift.interp_envelope, sift.sd_stop, sift.rilling_stop

    def env(X, mode='upper', **kw):
        r = real_env(X, mode=mode, **kw)
        if mode == 'upper':
            rec['cur'] = r
        elif mode == 'lower':
            rec['has_env'].append(rec['cur'] is not None and r is not None)
            rec['upper'].append(rec['cur'])
            rec['lower'].append(r)
        return r

    def sd(*a, **kw):
        s, m = real_sd(*a, **kw)
        rec['fired'].append(bool(s))
        rec['metric'].append(float(m))
        return s, m

    def ril(*a, **kw):
        s, m = real_ril(*a, **kw)
        rec['fired'].append(bool(s))
        rec['metric'].append(float(m))
        return s, m
    sift.interp_envelope, sift.sd_stop, sift.rilling_stop = env, sd, ril
    try:
        yield rec
    finally:
        sift.interp_envelope, sift.sd_stop, sift.rilling_stop = real_env, real_sd, real_ril


def real_signals(seed, n, nmin=24, nmax=200):
    """the property's families: noise, random walks, multi-tone + trend, AM/FM, plateaus/integers, constants, ramps"""
    rs = np.random.RandomState(seed)
    out = []
    for i in range(n):
        N = int(rs.randint(nmin, nmax))
        t = np.arange(N)
        kind = i % 8
        if kind == 0:
            x = rs.randn(N)
        elif kind == 1:
            x = np.cumsum(rs.randn(N))
        elif kind == 2:
            x = np.sin(2 * np.pi * t / rs.uniform(5, 40)) + 0.5 * np.sin(2 * np.pi * t / rs.uniform(3, 11)) + 0.01 * t
        elif kind == 3:
            x = (1 + 0.5 * np.sin(2 * np.pi * t / 90)) * np.sin(2 * np.pi * t / 13 + np.sin(2 * np.pi * t / 70))
        elif kind == 4:
            x = np.round(3 * np.sin(2 * np.pi * t / rs.uniform(6, 25)))
        elif kind == 5:
            x = rs.randint(-3, 4, N).astype(float)
        elif kind == 6:
            x = np.full(N, float(rs.randint(-2, 3))) if rs.rand() < 0.5 else 0.5 * t - 3
        else:
            x = np.cumsum(rs.randn(N)) * (rs.rand(N) < 0.3)
        out.append((['noise', 'walk', 'tones', 'amfm', 'plateau', 'integer', 'const-ramp', 'sparse-walk'][kind], x))
    return out


def real_opts(rng):
    """a valid option combination over the property's grid"""
    method = rng.choice(['sd', 'sd', 'rilling', 'fixed'])
    imf_opts = dict(stop_method=method, env_step_size=rng.choice([1, 1, 0.5, 0.25]))
    if method == 'sd':
        imf_opts['sd_thresh'] = rng.choice([0.05, 0.1, 0.2, 0.5])
        imf_opts['max_iters'] = rng.choice([1000, 1000, 50, 5, 2, 1])
    elif method == 'rilling':
        imf_opts['rilling_thresh'] = rng.choice([(0.05, 0.5, 0.05), (0.1, 1.0, 0.1), (0.02, 0.3, 0.2)])
        imf_opts['max_iters'] = rng.choice([1000, 1000, 50, 5, 2])
    else:
        imf_opts['max_iters'] = rng.choice([1, 2, 3, 5, 10])
    envelope_opts = dict(interp_method=rng.choice(['splrep', 'pchip', 'mono_pchip']))
    extrema_opts = dict(pad_width=rng.choice([1, 2, 2, 3, 4]))
    if rng.random() < 0.25:
        # custom np.pad settings for the extrema magnitudes (never a custom location mode: reflect_type='even' does not
        # terminate on the clean library)
        extrema_opts['mag_pad_opts'] = rng.choice([{'mode': 'reflect'}, {'mode': 'symmetric'}, {'mode': 'mean', 'stat_length': 2},
                                                   {'mode': 'mean', 'stat_length': 3}])
    return imf_opts, envelope_opts, extrema_opts


DTYPES = [None, None, None, 'int64', 'int32', 'int16', 'float32']


def as_dtype(x, dt):
    """the signal as the implementation receives it (raw ADC-style integer counts / single precision) and the float64
    values it denotes; None = float64 as is"""
    x = np.asarray(x, dtype=float)
    if dt is None:
        return x, x
    if dt.startswith('int'):
        xi = np.round(x * 100).astype(dt)
        return xi, xi.astype(float)
    xf = x.astype(dt)
    return xf, xf.astype(float)
