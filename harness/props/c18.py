"""C18 - sift configurations are faithful, addressable and persistable.

PROOF          coq/props/Prop_C18.v  (model: coq/model/Config.v; tables: coq/gen/Gen_Defaults.v, re-generated from
               emd/sift.py by harness/gen_tables.py before the proof step, so default_config_faithful is re-proved
               against today's signatures and literal fall-backs)
CORRESPONDENCE edit histories (get / set / delete by key path and by nested indexing at depth 1-4, odd keys, scalars,
               None, lists, tuples, ndarrays, dicts; YAML file and text round trips; key splitting) applied to a real
               SiftConfig and to Config.run_ops: every observation and the whole store after every step, exactly
               (dict order ignored, error kinds as an enum)
ORACLE         on the implementation alone: path op == nested-indexing op on a copy, a write/delete changes only its
               entry, YAML (file, text) gives back the type and the options up to tuple->list; default config unpacked
               == plain call == get_func() for the four variants; edited configs behave the same before and after a
               YAML round trip
"""
import copy
import os

import numpy as np

import common

IMPORTS = 'From EmdV Require Import lib.NpLite model.Config.'
VARIANTS = ['sift', 'ensemble_sift', 'complete_ensemble_sift', 'mask_sift']

# --------------------------------------------------------------------------- canonical form of Python objects
# ['n'] ['b',0/1] ['i',int] ['f',repr] ['s',str] ['L',[..]] ['T',[..]] ['A',[..]] ['D',[[key, c],..]] ['?',what]


def canon(o):
    if o is None:
        return ['n']
    t = type(o)
    if t is bool:
        return ['b', int(o)]
    if t is int:
        return ['i', o]
    if t is float:
        return ['f', repr(o)]
    if t is str:
        return ['s', o]
    if t is list:
        return ['L', [canon(x) for x in o]]
    if t is tuple:
        return ['T', [canon(x) for x in o]]
    if isinstance(o, np.ndarray):
        def arr(x):
            return ['A', [arr(y) for y in x]] if isinstance(x, list) else canon(x)
        return arr(o.tolist()) if o.ndim else ['?', 'ndarray0']
    if isinstance(o, dict):
        if not all(type(k) is str for k in o):
            return ['?', 'non-string key']
        return ['D', [[k, canon(v)] for k, v in o.items()]]
    return ['?', t.__name__]


def build(c):
    """A fresh Python object for a canonical form (fresh: no aliasing between entries)."""
    k = c[0]
    if k == 'n':
        return None
    if k == 'b':
        return bool(c[1])
    if k == 'i':
        return int(c[1])
    if k == 'f':
        return float(c[1])
    if k == 's':
        return c[1]
    if k == 'L':
        return [build(x) for x in c[1]]
    if k == 'T':
        return tuple(build(x) for x in c[1])
    if k == 'A':
        return np.array(build_arr(c))
    if k == 'D':
        return {kk: build(v) for kk, v in c[1]}
    raise ValueError(c)


def build_arr(c):
    return [build_arr(x) for x in c[1]] if c[0] == 'A' else build(c)


def enc_str(s):
    return [len(s)] + [ord(ch) for ch in s]


def enc_val(c):
    k = c[0]
    if k == 'n':
        return [0]
    if k == 'b':
        return [1, c[1]]
    if k == 'i':
        return [2, c[1]]
    if k == 'f':
        return [3] + enc_str(c[1])
    if k == 's':
        return [4] + enc_str(c[1])
    if k in 'LTA':
        out = [{'L': 5, 'T': 6, 'A': 7}[k], len(c[1])]
        for x in c[1]:
            out += enc_tree(x) if x[0] == 'D' else enc_val(x)
        return out
    return [-77]  # something the model has no value for


def enc_tree(c):
    """Python twin of Config.enc_tree: dict entries in key order."""
    if c[0] == 'D':
        out = [9, len(c[1])]
        for k, v in sorted(c[1], key=lambda kv: kv[0]):
            out += enc_str(k) + enc_tree(v)
        return out
    return [8] + enc_val(c)


def enc_doc(c):
    if c[0] == 'L' and c[1] and all(x[0] == 'D' for x in c[1]):
        out = [5, len(c[1])]
        for x in c[1]:
            out += enc_tree(x)
        return out
    return enc_tree(c)


def decode(z):
    """Z-list -> canonical form (for reports)."""
    def rd_str(i):
        n = z[i]
        return ''.join(chr(x) for x in z[i + 1:i + 1 + n]), i + 1 + n

    def rd(i):
        t = z[i]
        if t == 0:
            return ['n'], i + 1
        if t == 1:
            return ['b', z[i + 1]], i + 2
        if t == 2:
            return ['i', z[i + 1]], i + 2
        if t in (3, 4):
            s, j = rd_str(i + 1)
            return ['f' if t == 3 else 's', s], j
        if t in (5, 6, 7):
            n, j, out = z[i + 1], i + 2, []
            for _ in range(n):
                x, j = rd(j)
                out.append(x)
            return [{5: 'L', 6: 'T', 7: 'A'}[t], out], j
        if t == 8:
            return rd(i + 1)
        if t == 9:
            n, j, out = z[i + 1], i + 2, []
            for _ in range(n):
                k, j = rd_str(j)
                x, j = rd(j)
                out.append([k, x])
            return ['D', out], j
        raise ValueError('bad tag %r at %d' % (t, i))
    try:
        return rd(0)[0]
    except Exception:  # noqa
        return ['?', 'undecodable']


def cstr(s):
    assert all(32 <= ord(ch) < 127 for ch in s), s
    return '"%s"%%string' % s.replace('"', '""')


def coq_val(c):
    k = c[0]
    if k == 'n':
        return 'VNone'
    if k == 'b':
        return '(VBool %s)' % ('true' if c[1] else 'false')
    if k == 'i':
        return '(VInt %s)' % common.zlit(c[1])
    if k == 'f':
        return '(VFloat %s)' % cstr(c[1])
    if k == 's':
        return '(VStr %s)' % cstr(c[1])
    return '(%s [%s])' % ({'L': 'VList', 'T': 'VTuple', 'A': 'VArr'}[k], '; '.join(coq_val(x) for x in c[1]))


def coq_tree(c):
    if c[0] == 'D':
        return '(Node [%s])' % '; '.join('(%s, %s)' % (cstr(k), coq_tree(v)) for k, v in c[1])
    return '(Leaf %s)' % coq_val(c)


def coq_strs(ks):
    return '[%s]' % '; '.join(cstr(k) for k in ks)


def coq_op(op):
    k = op[0]
    if k in ('get', 'del', 'keys'):
        return '(%s %s)' % ({'get': 'OGet', 'del': 'ODel', 'keys': 'OKeys'}[k], cstr(op[1]))
    if k == 'set':
        return '(OSet %s %s)' % (cstr(op[1]), coq_tree(op[2]))
    if k in ('nget', 'ndel'):
        return '(%s %s)' % ({'nget': 'NGet', 'ndel': 'NDel'}[k], coq_strs(op[1]))
    if k == 'nset':
        return '(NSet %s %s)' % (coq_strs(op[1]), coq_tree(op[2]))
    return {'yfile': 'OYamlFile', 'ytext': 'OYamlText'}[k] + ('' if export_in_place() else 'Pure')


_PROBE = []


def export_in_place():
    """Does exporting convert the values of nested dicts of the live config in place?  C18 is silent on it
    (C19 covers it); the model has both forms and the one the code shows is used."""
    if not _PROBE:
        from emd.sift import SiftConfig
        c = SiftConfig('sift')
        c.store['a'] = {'t': (1, 2)}
        c.to_yaml_text()
        _PROBE.append(type(c.store['a']['t']) is list)
    return _PROBE[0]


def coq_case(case):
    return '({| ctype := %s; cstore := %s |}, [%s])' % (cstr(case['ctype']), coq_tree(case['store']),
                                                     '; '.join(coq_op(o) for o in case['ops']))


# --------------------------------------------------------------------------- running a history on the real class
ERR_OK = {-4: ('KeyError',), -3: ('TypeError', 'IndexError', 'ValueError'), -2: ('ValueError',)}


def nested(obj, ks):
    for k in ks:
        obj = obj[k]
    return obj


def apply_op(cfg, op, workdir):
    """-> observation: Z-list ([0]+payload) or ('E', exception class name).  Mutates cfg."""
    from emd.sift import SiftConfig
    k = op[0]
    try:
        if k == 'get':
            return [0] + enc_tree(canon(cfg[op[1]]))
        if k == 'set':
            cfg[op[1]] = build(op[2])
            return [0]
        if k == 'del':
            del cfg[op[1]]
            return [0]
        if k == 'nget':
            return [0] + enc_tree(canon(nested(cfg, op[1])))
        if k == 'nset':
            nested(cfg, op[1][:-1])[op[1][-1]] = build(op[2])
            return [0]
        if k == 'ndel':
            del nested(cfg, op[1][:-1])[op[1][-1]]
            return [0]
        if k == 'keys':
            r = cfg.__keytransform__(op[1])
            r = [r] if isinstance(r, str) else list(r)
            out = [0, len(r)]
            for s in r:
                out += enc_str(s)
            return out
    except Exception as e:  # noqa
        return ('E', type(e).__name__)
    try:
        r = yaml_roundtrip(cfg, k, workdir)
        return [0] + enc_tree(canon(r.sift_type)) + enc_doc(canon(r.store))
    except Exception as e:  # noqa
        return ('E', type(e).__name__)


_N = [0]


def yaml_roundtrip(cfg, route, workdir):
    from emd.sift import SiftConfig
    if route == 'yfile':
        _N[0] += 1
        fn = os.path.join(workdir, 'cfg_%d_%d.yml' % (os.getpid(), _N[0]))
        cfg.to_yaml_file(fn)
        try:
            return SiftConfig.from_yaml_file(fn)
        finally:
            os.unlink(fn)
    return SiftConfig.from_yaml_stream(cfg.to_yaml_text())


def make_cfg(case):
    from emd.sift import SiftConfig
    cfg = SiftConfig(case['ctype'])
    for k, v in case['store'][1]:
        cfg.store[k] = build(v)
    return cfg


def obs_agree(model, impl):
    if isinstance(impl, tuple):
        return len(model) == 1 and model[0] < 0 and (impl[1] in ERR_OK.get(model[0], ()) or model[0] == -9)
    return model == impl


# --------------------------------------------------------------------------- the property, on the implementation alone
def same_options(a, b):
    """a (before) and b (after a YAML trip): same options, a tuple / array may have become a list."""
    if isinstance(a, dict) or isinstance(b, dict):
        return (isinstance(a, dict) and isinstance(b, dict) and set(a) == set(b)
                and all(same_options(a[k], b[k]) for k in a))
    if isinstance(a, np.ndarray):
        a = a.tolist()
    if isinstance(a, (list, tuple)):
        return isinstance(b, (list, tuple)) and len(a) == len(b) and all(same_options(x, y) for x, y in zip(a, b))
    return type(a) is type(b) and (a == b or (a != a and b != b))


def all_paths(c, pre=()):
    out = []
    if c[0] == 'D':
        for k, v in c[1]:
            out.append((pre + (k,), v))
            out += all_paths(v, pre + (k,))
    return out


def diverges(p, q):
    for a, b in zip(p, q):
        if a != b:
            return True
    return False


def outcome(f):
    try:
        return ('ok', canon(f()))
    except Exception as e:  # noqa
        return ('err', type(e).__name__)


def oracle_edit(cfg, op, workdir):
    """Checks of the property for one operation about to be applied to cfg (cfg is not changed).  -> [(site, what)]"""
    fails = []
    k = op[0]
    if k in ('get', 'set', 'del'):
        ks = op[1].split('/')
        if len(ks) > 3:
            return fails
        a, b = copy.deepcopy(cfg), copy.deepcopy(cfg)
        if k == 'get':
            ra, rb = outcome(lambda: a[op[1]]), outcome(lambda: nested(b, ks))
        elif k == 'set':
            def pa():
                a[op[1]] = build(op[2])

            def pb():
                nested(b, ks[:-1])[ks[-1]] = build(op[2])
            ra, rb = outcome(pa), outcome(pb)
        else:
            def pa():
                del a[op[1]]

            def pb():
                del nested(b, ks[:-1])[ks[-1]]
            ra, rb = outcome(pa), outcome(pb)
        site = 'SiftConfig.__%sitem__' % k
        if ra[0] != rb[0] or (ra[0] == 'ok' and ra[1] != rb[1]):
            fails.append((site, 'key path %r gives %s, nested indexing %r gives %s' % (op[1], ra, ks, rb)))
        elif enc_tree(canon(a.store)) != enc_tree(canon(b.store)):
            fails.append((site, 'key path %r and nested indexing %r leave different stores' % (op[1], ks)))
        elif ra[0] == 'ok' and k != 'get':
            before, after = canon(cfg.store), canon(a.store)
            pb_, pa_ = dict(all_paths(before)), dict(all_paths(after))
            tk = tuple(ks)
            for p, v in pb_.items():
                if diverges(p, tk) and pa_.get(p) != v:
                    fails.append((site, '%s %r changed the unrelated entry %r' % (k, op[1], '/'.join(p))))
                    break
            for p in pa_:
                if diverges(p, tk) and p not in pb_:
                    fails.append((site, '%s %r created the unrelated entry %r' % (k, op[1], '/'.join(p))))
                    break
            if k == 'set' and pa_.get(tk) != op[2]:
                fails.append((site, 'after writing %r the entry reads %r' % (op[1], pa_.get(tk))))
            if k == 'del' and tk in pa_:
                fails.append((site, 'after deleting %r the entry is still there' % (op[1],)))
    elif k in ('yfile', 'ytext'):
        a = copy.deepcopy(cfg)
        site = 'SiftConfig.from_yaml_file' if k == 'yfile' else 'SiftConfig.from_yaml_stream'
        try:
            r = yaml_roundtrip(a, k, workdir)
        except Exception as e:  # noqa
            import traceback
            fr = [f.name for f in traceback.extract_tb(e.__traceback__)]
            if 'to_yaml_file' in fr or 'to_yaml_text' in fr:
                site = 'SiftConfig.to_yaml_file' if k == 'yfile' else 'SiftConfig.to_yaml_text'
            return [(site, 'write/read raised %s: %s' % (type(e).__name__, str(e)[:120]))]
        if r.sift_type != cfg.sift_type:
            fails.append((site, 'sift type %r came back as %r' % (cfg.sift_type, r.sift_type)))
        if not same_options(cfg.store, r.store):
            fails.append((site, 'options differ after the round trip: store is a %s%s' % (
                type(r.store).__name__, '' if not isinstance(r.store, dict) else ' with keys %s' % sorted(r.store)[:6])))
    return fails


def run_history(case, workdir, with_oracle=True):
    """-> (trace [[obs, store encoding] per op], [(step, site, what)])"""
    cfg = make_cfg(case)
    trace, fails = [], []
    for n, op in enumerate(case['ops']):
        if with_oracle:
            for site, what in oracle_edit(cfg, op, workdir):
                fails.append((n, site, what))
        obs = apply_op(cfg, op, workdir)
        trace.append([obs, enc_tree(canon(cfg.store))])
    return trace, fails


# --------------------------------------------------------------------------- generators
KEYS = ['a', 'b', 'c', 'imf_opts', 'envelope_opts', 'extrema_opts', 'mag_pad_opts', 'sd_thresh', 'max_imfs', 'x y', 'k.1', '']
FLOATS = ['0.1', '0.05', '1e-08', '2.5', '-0.5', '1.0', '3.0', '1e+20']
STRS = ['sd', 'rilling', 'splrep', 'null', 'true', '1', '', 'a b', '~', 'zc', 'No', '0.5']


def rscalar(r):
    k = r.randrange(6)
    if k == 0:
        return ['n']
    if k == 1:
        return ['b', r.randrange(2)]
    if k == 2:
        return ['i', r.choice([0, 1, 2, 3, 9, 1000, -4, 2 ** 40])]
    if k == 3:
        return ['f', r.choice(FLOATS)]
    return ['s', r.choice(STRS)]


def rnum(r, kind):
    return ['i', r.randrange(-3, 9)] if kind == 0 else ['f', r.choice(FLOATS)] if kind == 1 else ['b', r.randrange(2)]


def rseq(r, nest):
    items = []
    for _ in range(r.randrange(0, 4)):
        items.append(rseq(r, False) if nest and r.random() < 0.2 else rscalar(r))
    return [r.choice('LT'), items]


def rvalue(r):
    """An option value: scalar, list / tuple (possibly holding lists / tuples), 1-D or 2-D ndarray."""
    k = r.randrange(10)
    if k < 4:
        return rscalar(r)
    if k < 7:
        return rseq(r, True)
    kind = r.randrange(3)
    if r.random() < 0.7:
        return ['A', [rnum(r, kind) for _ in range(r.randrange(1, 4))]]
    w = r.randrange(1, 3)
    return ['A', [['A', [rnum(r, kind) for _ in range(w)]] for _ in range(r.randrange(1, 3))]]


def rdict(r, depth):
    items, seen = [], set()
    for _ in range(r.randrange(0, 4)):
        k = r.choice(KEYS)
        if k in seen:
            continue
        seen.add(k)
        items.append([k, rdict(r, depth - 1) if depth > 0 and r.random() < 0.45 else rvalue(r)])
    return ['D', items]


def rtree(r):
    return rdict(r, 1) if r.random() < 0.3 else rvalue(r)


def default_store(variant):
    from emd.sift import get_config
    return canon(dict(get_config(variant).store))


def existing_paths(store):
    return [p for p, _ in all_paths(store)]


def rkeys(r, store, depth=None):
    """A key list: mostly along entries that exist, sometimes off them."""
    paths = existing_paths(store)
    if paths and r.random() < 0.75:
        p = list(r.choice(paths))
        if r.random() < 0.3:
            p = p[:-1] + [r.choice(KEYS)]
        elif r.random() < 0.2:
            p = p + [r.choice(KEYS)]
        return p
    return [r.choice(KEYS) for _ in range(depth or r.choice([1, 1, 2, 2, 3, 3, 4]))]


def rcase(r):
    variant = r.choice(VARIANTS + ['sift', 'my_sift'])
    if r.random() < 0.5 and variant in VARIANTS:
        store = default_store(variant)
    else:
        store = rdict(r, 2)
    ops = []
    cur = make_cfg(dict(ctype=variant, store=store))  # track the store so that later ops hit what exists
    for _ in range(r.randrange(4, 13)):
        st = canon(cur.store)
        u = r.random()
        ks = rkeys(r, st)
        plain = all('/' not in k for k in ks)
        if u < 0.20:
            op = ('get', '/'.join(ks))
        elif u < 0.42:
            op = ('set', '/'.join(ks), rtree(r))
        elif u < 0.54:
            op = ('del', '/'.join(ks))
        elif u < 0.62 and plain:
            op = ('nget', ks)
        elif u < 0.72 and plain:
            op = ('nset', ks, rtree(r))
        elif u < 0.78 and plain:
            op = ('ndel', ks)
        elif u < 0.86:
            op = ('yfile',)
        elif u < 0.94:
            op = ('ytext',)
        else:
            op = ('keys', r.choice(['a/b', 'a//b', '/a', 'a/', '/', 'a/b/c', 'a/b/c/d', 'a/b/c/d/e', '', 'imf_opts/sd_thresh', '//', '///']))
        ops.append(op)
        if op[0] in ('yfile', 'ytext'):
            cur.to_yaml_text()       # the export converts nested values in place
        else:
            apply_op(cur, op, None)
    return dict(ctype=variant, store=store, ops=ops)


def corpus():
    s = default_store('sift')
    m = default_store('mask_sift')
    arr2 = ['A', [['A', [['f', '1.0'], ['f', '2.5']]], ['A', [['f', '3.0'], ['f', '0.1']]]]]
    s_none = ['D', [[k, ['n'] if k == 'extrema_opts' else v] for k, v in s[1]]]   # extrema_opts=None: sift's own default
    return [
        dict(ctype='sift', store=s, ops=[('ytext',)]),
        dict(ctype='sift', store=s_none, ops=[('yfile',), ('ytext',), ('get', 'extrema_opts'), ('set', 'imf_opts', ['n']), ('yfile',)]),
        dict(ctype='sift', store=s, ops=[('get', 'imf_opts/sd_thresh'), ('set', 'imf_opts/sd_thresh', ['f', '0.05']),
                                        ('nget', ['imf_opts', 'sd_thresh']), ('ytext',), ('yfile',), ('del', 'imf_opts/sd_thresh'),
                                        ('get', 'imf_opts/sd_thresh'), ('nget', ['imf_opts'])]),
        dict(ctype='mask_sift', store=m, ops=[('set', 'extrema_opts/mag_pad_opts/stat_length', ['i', 3]),
                                             ('get', 'extrema_opts/mag_pad_opts/stat_length'), ('get', 'extrema_opts/mag_pad_opts/mode'),
                                             ('set', 'mask_freqs', ['T', [['f', '0.1'], ['f', '0.05']]]),
                                             ('set', 'mask_amp', ['A', [['f', '1.0'], ['f', '2.5']]]),
                                             ('ytext',), ('yfile',), ('del', 'extrema_opts/mag_pad_opts/stat_length'),
                                             ('ndel', ['extrema_opts', 'loc_pad_opts']), ('yfile',), ('ytext',)]),
        dict(ctype='sift', store=s, ops=[('get', 'a/b/c/d'), ('set', 'a/b/c/d', ['i', 1]), ('del', 'a/b/c/d'), ('keys', 'a/b/c/d'),
                                        ('get', 'imf_opts/nope'), ('set', 'nope/x', ['i', 1]), ('del', 'nope'), ('get', 'max_imfs/x'),
                                        ('set', 'max_imfs/x', ['i', 1]), ('del', 'sift_thresh/x/y'), ('keys', 'a//b'), ('keys', '')]),
        dict(ctype='ensemble_sift', store=['D', [['p', ['T', [['i', 1], ['T', [['i', 2], ['i', 3]]]]]],
                                                 ['q', ['D', [['t', ['T', [['f', '0.05'], ['f', '0.5']]]], ['arr', arr2],
                                                              ['deep', ['D', [['u', ['T', [['s', 'x']]]]]]]]]],
                                                 ['w', arr2]]],
             ops=[('ytext',), ('get', 'q/t'), ('get', 'p'), ('yfile',), ('get', 'q/deep/u'), ('set', 'q/deep/u', ['A', [['b', 1], ['b', 0]]]),
                  ('get', 'q/arr/x'), ('set', 'w/x', ['i', 1]), ('del', 'w/x'), ('ytext',)]),
        dict(ctype='sift', store=['D', []], ops=[('set', 'a', ['D', []]), ('set', 'a/b', ['D', []]), ('set', 'a/b/c', ['L', []]),
                                                ('nset', ['a', 'b', 'c2'], ['n']), ('yfile',), ('ytext',), ('ndel', ['a', 'b']),
                                                ('get', 'a/b'), ('set', '', ['i', 0]), ('get', ''), ('set', '/', ['i', 0])]),
    ]


# --------------------------------------------------------------------------- behavioural oracle
def signals():
    out = []
    for n, k in ((256, 0), (200, 3), (160, 5)):
        t = np.linspace(0, 1, n)
        out.append(np.sin(2 * np.pi * (7 + k) * t) + 0.5 * np.sin(2 * np.pi * (2 + k) * t + 0.3) + 0.3 * t
                   + 0.2 * np.cos(2 * np.pi * 31 * t))
    return out


def flat(o):
    """Result of a sift call as comparable bytes (complete_ensemble_sift and ret_mask_freq return tuples)."""
    if isinstance(o, tuple):
        return b'|'.join(flat(x) for x in o)
    a = np.asarray(o)
    return repr(a.shape).encode() + a.tobytes()


def how(r, ref):
    return 'the same outcome kind but different output' if r[0] == ref[0] else '%s instead of %s' % (r[0], ref[0])


def call(f, seed=11):
    np.random.seed(seed)
    try:
        with common.time_limit(60):
            return ('ok', flat(f()))
    except common.Timeout:
        return ('timeout', b'')
    except Exception as e:  # noqa
        return ('err', type(e).__name__.encode())


EDITS = {
    'sift': [[('max_imfs', ['i', 3])], [('imf_opts/stop_method', ['s', 'rilling']), ('imf_opts/rilling_thresh', ['T', [['f', '0.05'], ['f', '0.5'], ['f', '0.1']]])],
             [('imf_opts/stop_method', ['s', 'fixed']), ('imf_opts/max_iters', ['i', 5])], [('imf_opts/sd_thresh', ['f', '0.05']), ('imf_opts/env_step_size', ['f', '0.5'])],
             [('envelope_opts/interp_method', ['s', 'mono_pchip'])], [('extrema_opts/pad_width', ['i', 3]), ('extrema_opts/parabolic_extrema', ['b', 1])],
             [('extrema_opts/mag_pad_opts/stat_length', ['i', 2])], [('extrema_opts', ['n']), ('envelope_opts', ['n'])], [('sift_thresh', ['f', '1e-06']), ('imf_opts/energy_thresh', ['i', 40])]],
    'mask_sift': [[('mask_freqs', ['T', [['f', '0.2'], ['f', '0.1'], ['f', '0.05']]])], [('mask_freqs', ['A', [['f', '0.2'], ['f', '0.1'], ['f', '0.05']]]), ('mask_amp', ['A', [['f', '1.0'], ['f', '2.5'], ['f', '0.5']]])],
                  [('max_imfs', ['i', 3]), ('nphases', ['i', 2]), ('mask_amp_mode', ['s', 'ratio_sig'])], [('mask_freqs', ['f', '0.15']), ('ret_mask_freq', ['b', 1]), ('max_imfs', ['i', 4])],
                  [('imf_opts/stop_method', ['s', 'rilling']), ('imf_opts/rilling_thresh', ['T', [['f', '0.05'], ['f', '0.5'], ['f', '0.1']]]), ('max_imfs', ['i', 3])]],
    'ensemble_sift': [[('nensembles', ['i', 2]), ('max_imfs', ['i', 3])], [('noise_mode', ['s', 'flip']), ('ensemble_noise', ['f', '0.1']), ('max_imfs', ['i', 2])]],
    'complete_ensemble_sift': [[('nensembles', ['i', 2])], [('imf_opts/sd_thresh', ['f', '0.05']), ('ensemble_noise', ['f', '0.1'])]],
}


def behaviour(variant, edits, sig, routes=('yfile', 'ytext'), workdir='/tmp'):
    """-> [(site, what)] : config-driven calls against the plain call, before and after YAML."""
    import emd.sift as S
    f = getattr(S, variant)
    x = signals()[sig]
    cfg = S.get_config(variant)
    fails = []
    if not edits:
        ref = call(lambda: f(x))
        for name, g in (('variant(x, **get_config(variant))', lambda: f(x, **S.get_config(variant))),
                        ('get_config(variant).get_func()(x)', lambda: S.get_config(variant).get_func()(x))):
            r = call(g)
            if r != ref:
                fails.append(('get_config', '%s: %s differs from %s(x): %s' % (variant, name, variant, how(r, ref))))
    else:
        for k, v in edits:
            try:
                cfg[k] = build(v)
            except Exception as e:  # noqa
                return [('SiftConfig.__setitem__', '%s: writing %r into the default configuration raised %s' % (variant, k, type(e).__name__))]
    ref = call(lambda: f(x, **cfg))
    if ref[0] == 'timeout':
        return fails
    r = call(lambda: cfg.get_func()(x))
    if r != ref:
        fails.append(('SiftConfig.get_func', '%s %s: get_func()(x) differs from %s(x, **config): %s' % (variant, edits, variant, how(r, ref))))
    for route in routes:
        site = 'SiftConfig.from_yaml_file' if route == 'yfile' else 'SiftConfig.from_yaml_stream'
        try:
            back = yaml_roundtrip(copy.deepcopy(cfg), route, workdir)
        except Exception as e:  # noqa
            import traceback
            fr = [f.name for f in traceback.extract_tb(e.__traceback__)]
            if 'to_yaml_file' in fr or 'to_yaml_text' in fr:
                site = 'SiftConfig.to_yaml_file' if route == 'yfile' else 'SiftConfig.to_yaml_text'
            fails.append((site, '%s %s: write/read raised %s' % (variant, edits, type(e).__name__)))
            continue
        if back.sift_type != variant or not same_options(cfg.store, back.store):
            fails.append((site, '%s %s: sift type %r / options (%s) differ after the round trip'
                          % (variant, edits, back.sift_type, type(back.store).__name__)))
            continue
        r = call(lambda: back.get_func()(x))
        if r != ref:
            fails.append((site, '%s %s: the re-read config\'s callable differs from the original call: %s' % (variant, edits, how(r, ref))))
    return fails


# --------------------------------------------------------------------------- run / replay
def features(case, trace):
    """[(operation, depth, outcome)] of a history."""
    out = []
    for op, (obs, _) in zip(case['ops'], trace):
        k = op[0]
        d = len(op[1].split('/')) if k in ('get', 'set', 'del', 'keys') else len(op[1]) if k in ('nget', 'nset', 'ndel') else 0
        out.append((k, min(d, 4), obs[1] if isinstance(obs, tuple) else 'ok'))
    return out


def run(ctx):
    ctx.rule = ('histories of 4-12 operations {get/set/delete by "/" key path, the same by nested indexing, key splitting, YAML file '
                'round trip, YAML text round trip} on a SiftConfig that starts as get_config(variant) (4 variants) or a random tree of '
                'depth <= 3; keys follow existing entries 75% of the time, else random (incl. empty / odd keys, 4-5 levels); values: '
                'None, bool, int, float, str (incl. YAML look-alikes), lists/tuples (nested), 1-D/2-D ndarrays, dicts; observed: result '
                'or error class of every operation and the whole store after it. non-trivial = history with a successful write or '
                'delete at depth >= 2 and a YAML round trip. Behavioural oracle: 4 variants x 3 signals, default and edited configs.')
    ctx.proof(extra=['props/Prop_Tie_Config.v', 'props/Prop_Tie_Rest.v', 'props/Prop_Tie_Parab.v'])  # translation tie: program regenerated from the source + refinement theorems
    work = ctx.work
    r = ctx.rng
    cases = corpus() + [rcase(r) for _ in range(300 if ctx.quick() else 5000)]
    traces, reported = [], set()
    for case in cases:
        tr, fails = run_history(case, work)
        traces.append(tr)
        feats = features(case, tr)
        nt = (any(k in ('set', 'del', 'nset', 'ndel') and d in (2, 3) and o == 'ok' for k, d, o in feats)
              and any(k in ('yfile', 'ytext') for k, _, _ in feats))
        ctx.count(coq_case(case), nt)
        for k, d, o in feats:
            ctx.hist['%s%s%s' % (k, '-d%d' % d if d else '', '' if o == 'ok' else '-' + o)] += 1
        for n, site, what in fails:
            if site not in reported:
                reported.add(site)
                small = shrink(case, n, site, work)
                ctx.problem('impl-violation', site, what, input=dict(kind='history', case=small), observed=what,
                            expected='the property (path == nested indexing; only the addressed entry changes; YAML keeps type and options)')
    for c in cases[2:4] + cases[7:9]:
        ctx.sample(dict(ctype=c['ctype'], ops=[list(o) for o in c['ops']][:6], store_keys=[k for k, _ in c['store'][1]][:8]))
    model = ctx.model_outputs(IMPORTS, [coq_case(c) for c in cases], 'fun c => run_ops_h (fst c) (snd c)', shard=100)
    brk = None
    for case, tr, mo in zip(cases, traces, model):
        for n, (obs, enc) in enumerate(tr):
            ctx.exact_cmp += 2
            if not obs_agree(mo[2 * n], obs) or mo[2 * n + 1] != [common.hashL(enc)]:
                if brk is None:
                    brk = (case, n)
                break
    if brk is not None:
        case, n = brk
        # the oracle has already run on every step of this history; report the break only if it found nothing there
        _, fails = run_history(case, work)
        if not fails and not any(p['kind'] == 'impl-violation' for p in ctx.problems):
            full = ctx.model_outputs(IMPORTS, [coq_case(case)], 'fun c => run_ops (fst c) (snd c)')[0]
            tr, _ = run_history(case, work, with_oracle=False)
            obs = tr[n][0]
            ctx.problem('correspondence-break', 'SiftConfig', 'model and implementation differ at step %d (%s)' % (n, list(case['ops'][n])[:2]),
                        input=dict(kind='history', case=jcase(case), step=n),
                        observed=dict(obs=list(obs) if isinstance(obs, tuple) else decode(obs[1:]) if len(obs) > 1 else obs, store=decode(tr[n][1])),
                        expected=dict(obs=full[2 * n][:1] + [decode(full[2 * n][1:])] if len(full[2 * n]) > 1 else full[2 * n],
                                      store=decode(full[2 * n + 1])),
                        theorem='Config.run_ops vs emd.sift.SiftConfig')
    # ---- behaviour
    nsig = 2 if ctx.quick() else 3
    for v in VARIANTS:
        for sig in range(nsig):
            for edits in [[]] + EDITS[v][:(3 if ctx.quick() and sig else None)]:
                fails = behaviour(v, edits, sig, workdir=work)
                ctx.count(('behaviour', v, sig, repr(edits)), True, 'behaviour-' + v)
                ctx.exact_cmp += 4
                for site, what in fails:
                    if site not in reported:
                        reported.add(site)
                        ctx.problem('impl-violation', site, what, input=dict(kind='behaviour', variant=v, edits=edits, signal=sig),
                                    observed=what, expected='identical output from the plain call, the unpacked config, get_func() and the re-read config')
    ctx.extra['variants'] = VARIANTS
    ctx.extra['export_converts_nested_values_in_place'] = export_in_place()
    ctx.notes.append('YAML export %s the live configuration below the first level (tuples/arrays -> lists); C18 does not '
                     'constrain this, the model form matching the code was used' % ('converts' if export_in_place() else 'does not touch'))


def jcase(case):
    return dict(ctype=case['ctype'], store=case['store'], ops=[list(o) for o in case['ops']])


def shrink(case, n, site, work):
    """Smallest prefix-free form: try the failing op alone on the initial store, else the prefix up to it."""
    for ops in ([case['ops'][n]], case['ops'][:n + 1]):
        c = dict(ctype=case['ctype'], store=case['store'], ops=ops)
        try:
            _, fails = run_history(c, work)
        except Exception:  # noqa
            continue
        if any(s == site for _, s, _ in fails):
            return jcase(c)
    return jcase(case)


def replay(rec):
    work = os.path.join(common.VERIF, '.work', 'replay')
    os.makedirs(work, exist_ok=True)
    inp = rec['input']
    if inp['kind'] == 'behaviour':
        fails = behaviour(inp['variant'], [tuple(e) for e in inp['edits']], inp['signal'], workdir=work)
    else:
        case = inp['case']
        case = dict(ctype=case['ctype'], store=case['store'], ops=[tuple(o) for o in case['ops']])
        _, fails = run_history(case, work)
        fails = [(s, w) for _, s, w in fails]
    for f in fails:
        print(f)
    return any(s == rec['site'] for s, _ in fails) if rec.get('kind') == 'impl-violation' else bool(fails)
