"""C02 - sifting commutes with rescaling, sign flip and time reversal.

PROOF          coq/props/Prop_C02.v  (models: coq/model/Symmetry.v over SiftCore.v / Extrema.v / Toys.v)
CORRESPONDENCE (1) concrete stages, exact, integer data: the real _find_extrema / get_padded_extrema on c*x and on x[::-1] vs what the
                   model PREDICTS from x alone through the symmetry (Symmetry.run_sym_stages);
               (2) the real sd_stop / rilling_stop on (c*a, c*b), (c*b, c*a), reversed vectors vs the exact model value on (a, b);
               (3) the INTERPOLANT ORACLE CONTRACT numerically against scipy as emd calls it (splrep/splev, pchip, PchipInterpolator):
                   homogeneity in the magnitudes and reflection of the knots over random knot sets, tolerance 1e-9;
               (4) the envelope stage of the real code, interp_envelope(c*x) vs c*interp_envelope(x) (upper/lower swapped for c < 0) and reversal.
ORACLE         get_next_imf, sift on x vs c*x: c = +-2^k (|k| <= 8) np.array_equal EXACT (sift_thresh scaled by |c|); arbitrary non-zero reals
               and time reversal within 1e-9*scale under the measured guard band; mask_sift (ratio_sig / ratio_imf) on x vs c*x.
               Masked sift with c < 0 and an odd number of phases is a violation of the property as stated ("non-zero constant"): it is
               emitted with site 'mask_sift(c<0, odd nphases)' / tags family=mask-neg-odd (refuted in Coq: mask_scale_neg_odd_refuted).
"""
import concurrent.futures
import contextlib
import copy
import math
import multiprocessing
import os
import random
import tempfile
import warnings

import numpy as np

import common
from common import zlist
from props import siftcore

IMPORTS = 'From EmdV Require Import lib.NpLite model.Extrema model.SiftCore model.Toys model.Symmetry.'
PADS = [1, 2, 3]
GUARD = 1e-6          # relative distance of a stop metric to its threshold
TIE_REL = 1e-9        # two neighbouring samples closer than this (relative) are a near-tie at an extremum
TIE_ABS = 1e-12       # ... or closer than this relative to the input signal's scale (tiny late iterates)
TOL = 1e-9
MAG_PADS = [{'mode': 'reflect'}, {'mode': 'symmetric'}, {'mode': 'mean', 'stat_length': 2}, {'mode': 'median', 'stat_length': 3},
            {'mode': 'edge'}]
SITE_NEG_ODD = 'mask_sift(c<0, odd nphases)'
TAG_NEG_ODD = {'family': 'mask-neg-odd'}


# ============================================================================= correspondence: exact stages
def _render_pad(locs, mags):
    if locs is None:
        return [-1]
    return [0] + [int(v) for v in locs] + [-99999] + [int(v) for v in mags]


def impl_sym_stages(c, x):
    """the real stages on c*x and x[::-1], rendered like Symmetry.run_sym_stages"""
    from emd import sift
    X = np.array(x, dtype=float)
    cx, rx = c * X, X[::-1].copy()
    out = [int(v) for v in sift._find_extrema(cx)[0]] + [-99996]
    out += [int(v) for v in sift._find_extrema(rx)[0]] + [-99996]
    for p in PADS:
        for mode in ('peaks', 'troughs'):
            out += _render_pad(*sift.get_padded_extrema(cx, pad_width=p, mode=mode)) + [-99998]
            out += _render_pad(*sift.get_padded_extrema(rx, pad_width=p, mode=mode)) + [-99997]
    return out


def stage_property(c, x):
    """the symmetry itself on the real stages, no model: returns a description of the first violation or None"""
    from emd import sift
    X = np.array(x, dtype=float)
    N = len(x)
    for p in PADS:
        for mode, omode in (('peaks', 'troughs'), ('troughs', 'peaks')):
            l0, m0 = sift.get_padded_extrema(X, pad_width=p, mode=(mode if c > 0 else omode))
            l1, m1 = sift.get_padded_extrema(c * X, pad_width=p, mode=mode)
            if (l0 is None) != (l1 is None) or (l0 is not None and (not np.array_equal(l0, l1) or not np.array_equal(c * m0, m1))):
                return ('get_padded_extrema', 'mode=%s pad=%d: extrema of %g*x are not those of x (%s) with magnitudes multiplied by %g'
                        % (mode, p, c, mode if c > 0 else omode, c))
            l0, m0 = sift.get_padded_extrema(X, pad_width=p, mode=mode)
            l2, m2 = sift.get_padded_extrema(X[::-1].copy(), pad_width=p, mode=mode)
            if (l0 is None) != (l2 is None) or (l0 is not None and (not np.array_equal((N - 1 - l0)[::-1], l2) or not np.array_equal(m0[::-1], m2))):
                return ('get_padded_extrema', 'mode=%s pad=%d: padded extrema of the reversed signal are not the mirror image' % (mode, p))
    return None


def gen_int_signal(rng):
    n = rng.randint(3, 40)
    kind = rng.randint(0, 4)
    if kind == 0:
        return [rng.randint(-6, 6) for _ in range(n)]
    if kind == 1:       # plateaus
        out, v = [], rng.randint(-3, 3)
        for _ in range(n):
            if rng.random() < 0.5:
                v = rng.randint(-3, 3)
            out.append(v)
        return out
    if kind == 2:       # walk
        out, v = [], 0
        for _ in range(n):
            v += rng.randint(-2, 2)
            out.append(v)
        return out
    if kind == 3:
        return [int(round(5 * math.sin(2 * math.pi * i / rng.uniform(3, 9)))) for i in range(n)]
    return [rng.choice([-1, 0, 1]) for _ in range(n)]


# ============================================================================= correspondence: interpolant contract
def _interp(method, locs, mags, t):
    from emd import sift
    if method == 'splrep':
        return sift.interp.splev(t, sift.interp.splrep(locs, mags))
    if method == 'mono_pchip':
        return sift.interp.PchipInterpolator(locs, mags)(t)
    return sift.interp.pchip(locs, mags)(t)


def contract_case(rs, method):
    """homogeneity and reflection of the interpolant emd uses; returns (max relative deviation, detail)"""
    n = int(rs.randint(4, 14))
    if rs.rand() < 0.5:
        locs = np.cumsum(rs.randint(1, 9, n)).astype(float) - rs.randint(0, 12)
    else:
        locs = np.cumsum(rs.uniform(0.5, 9, n)) - rs.uniform(0, 12)
    mags = rs.randn(n) if rs.rand() < 0.7 else rs.randint(-3, 4, n).astype(float)
    c = float(rs.choice([-1, 1])) * float(np.exp(rs.uniform(-3, 3)))
    t = np.arange(np.ceil(locs[0]), locs[-1])
    if len(t) == 0:
        t = np.array([locs[0]])
    K = float(rs.randint(0, 200))
    base = _interp(method, locs, mags, t)
    scale = max(1.0, float(np.abs(base).max()), float(np.abs(mags).max()))
    d1 = float(np.abs(_interp(method, locs, c * mags, t) - c * base).max()) / (abs(c) * scale)
    d2 = float(np.abs(_interp(method, (K - locs)[::-1], mags[::-1], K - t) - base).max()) / scale
    return max(d1, d2), dict(method=method, locs=[float(v) for v in locs], mags=[float(v) for v in mags], c=c, K=K, homogeneity=d1, reflection=d2)


def envelope_case(x, c, eo, xo):
    """envs_equiv on the real interp_envelope: (max relative deviation, what)"""
    from emd import sift
    X = np.asarray(x, dtype=float)
    scale = max(1.0, float(np.abs(X).max()))
    worst, what = 0.0, None
    env = {}
    for sig, nm in ((X, 'x'), (c * X, 'cx'), (X[::-1].copy(), 'rx')):
        for mode in ('upper', 'lower'):
            env[nm, mode] = sift.interp_envelope(sig, mode=mode, **eo, extrema_opts=xo)
    for mode, omode in (('upper', 'lower'), ('lower', 'upper')):
        src = env['x', mode if c > 0 else omode]
        got = env['cx', mode]
        if (src is None) != (got is None):
            return float('inf'), '%s envelope of %g*x is %s but that of x (%s) is %s' % (mode, c, 'None' if got is None else 'defined',
                                                                                           mode if c > 0 else omode, 'None' if src is None else 'defined')
        if src is not None:
            d = float(np.abs(c * src - got).max()) / (abs(c) * scale)
            if d > worst:
                worst, what = d, '%s envelope of %g*x deviates from %g * %s envelope of x by %.3g (relative)' % (mode, c, c, mode if c > 0 else omode, d)
        src, got = env['x', mode], env['rx', mode]
        if (src is None) != (got is None):
            return float('inf'), '%s envelope exists for only one of x and reversed x' % mode
        if src is not None:
            d = float(np.abs(src[::-1] - got).max()) / scale
            if d > worst:
                worst, what = d, '%s envelope of reversed x deviates from the reversed envelope by %.3g (relative)' % (mode, d)
    return worst, what


# ============================================================================= oracle on the real code
class _Trace:
    """what one run of the real code went through, reduced to the guard-band evidence"""

    def __init__(self):
        self.near = []          # reasons why the run is within rounding distance of a decision
        self.iterated = False   # at least one sifting iteration had both envelopes
        self.nevals = 0


def _near_tie(X, scale0):
    v = np.asarray(X, dtype=float).ravel()
    if v.size < 2:
        return False
    d = np.abs(np.diff(v))
    lim = max(TIE_REL * float(np.abs(v).max()), TIE_ABS * scale0)
    return bool(np.any((d > 0) & (d <= lim)))


def _metric_flags(rec, imf_opts, tr):
    method = imf_opts.get('stop_method', 'sd')
    tr.nevals += len(rec['has_env'])
    if any(rec['has_env']):
        tr.iterated = True
    with np.errstate(all='ignore'):
        if method == 'sd':
            thr = imf_opts.get('sd_thresh', .1)
            for m in rec['metric']:
                if np.isfinite(m) and abs(m - thr) <= GUARD * thr:
                    tr.near.append('sd metric %.17g within %g of threshold %g' % (m, GUARD, thr))
                    break
        elif method == 'rilling':
            sd1, sd2, _tol = imf_opts.get('rilling_thresh', (0.05, 0.5, 0.05))
            for u, l in zip(rec['upper'], rec['lower']):
                if u is None or l is None:
                    continue
                E = np.abs((u + l) / 2) / (np.abs(u - l) / 2)
                E = E[np.isfinite(E)]
                if np.any(np.abs(E - sd1) <= GUARD * sd1) or np.any(np.abs(E - sd2) <= GUARD * sd2):
                    tr.near.append('rilling per-sample metric within %g of sd1/sd2' % GUARD)
                    break


@contextlib.contextmanager
def tracing(imf_opts, scale0):
    """recording wrappers around one in-process run (siftcore.recording for the metrics, plus the iterates' near-ties and the
    energy ratio)"""
    from emd import sift
    tr = _Trace()
    real_env, real_en = sift.interp_envelope, sift._energy_difference
    state = dict(tie=False)

    def env(X, mode='upper', **kw):
        if mode == 'upper' and not state['tie'] and _near_tie(X, scale0):
            state['tie'] = True
        return real_env(X, mode=mode, **kw)

    def en(a, b):
        v = real_en(a, b)
        thr = imf_opts.get('energy_thresh')
        if thr is not None and np.isfinite(v) and abs(float(v) - thr) <= GUARD * abs(thr):
            tr.near.append('energy ratio %.17g within %g of threshold %g' % (float(v), GUARD, thr))
        return v
    sift.interp_envelope, sift._energy_difference = env, en
    try:
        with siftcore.recording() as rec:
            try:
                yield tr
            finally:
                _metric_flags(rec, imf_opts, tr)
                if state['tie']:
                    tr.near.append('two neighbouring samples of an iterate differ by less than %g relative' % TIE_REL)
    finally:
        sift.interp_envelope, sift._energy_difference = real_env, real_en


# --- mask sift: the member extractions run in forked pool workers; the wrapper below is what get_next_imf_mask picks up as
# emd.sift.get_next_imf, it traces inside the worker and reports through an append-only file
_REAL_GNI = None
_FLAG_FILE = None
_SCALE0 = 1.0
_PARENT = None


def _gni_traced(X, **kw):
    tr = None
    try:
        with tracing(kw, _SCALE0) as tr:
            out = _REAL_GNI(X, **kw)
        if os.getpid() == _PARENT:
            # not a pool member: this is get_mask_freqs computing the first IMF whose zero crossings (np.sign) set the mask frequency
            v = np.abs(np.asarray(out[0], dtype=float)).ravel()
            if v.size and np.any((v > 0) & (v <= TIE_REL * float(v.max()))):
                tr.near.append('a sample of the IMF whose zero crossings set the mask frequency is within %g (relative) of zero' % TIE_REL)
    finally:
        # also when the extraction raises: the evidence gathered so far must reach the parent
        if tr is not None:
            with open(_FLAG_FILE, 'a') as f:
                f.write('%d %d %s\n' % (1 if tr.iterated else 0, tr.nevals, ' | '.join(tr.near)))
    return out


@contextlib.contextmanager
def mask_tracing(scale0):
    global _REAL_GNI, _FLAG_FILE, _SCALE0, _PARENT
    from emd import sift
    tr = _Trace()
    fd, path = tempfile.mkstemp(prefix='c02-', dir=os.path.join(common.VERIF, '.work'))
    os.close(fd)
    _REAL_GNI, _FLAG_FILE, _SCALE0, _PARENT = sift.get_next_imf, path, scale0, os.getpid()
    sift.get_next_imf = _gni_traced
    try:
        yield tr
    finally:
        sift.get_next_imf = _REAL_GNI
        for ln in open(path):
            parts = ln.rstrip('\n').split(' ', 2)
            if parts[0] == '1':
                tr.iterated = True
            tr.nevals += int(parts[1])
            if len(parts) > 2 and parts[2]:
                tr.near.append(parts[2])
        os.unlink(path)
        _REAL_GNI = _FLAG_FILE = None


def _transform(T, a):
    if 'scale' in T:
        return T['scale'] * a
    return a[::-1].copy()


def _run_side(case, x, cabs, timeout, xo=None):
    """one call into the implementation.  returns (status, imf (N,k) | None, flag | None, trace)"""
    from emd import sift
    kind = case['kind']
    io = dict(case['imf_opts'])
    if 'rilling_thresh' in io:
        io['rilling_thresh'] = tuple(io['rilling_thresh'])
    eo = dict(case['envelope_opts'])
    if xo is None:
        xo = copy.deepcopy(case['extrema_opts'])
    scale0 = max(1e-300, float(np.abs(x).max()))
    X = np.asarray(x, dtype=float)
    flag = None
    with warnings.catch_warnings():
        warnings.simplefilter('ignore')
        ctxm = mask_tracing(scale0) if kind == 'mask' else tracing(io, scale0)
        status = 'ok'
        imf = None
        with ctxm as tr:
            try:
                with common.time_limit(timeout):
                    if kind == 'gni':
                        imf, flag = sift.get_next_imf(X[:, None], **io, envelope_opts=eo, extrema_opts=xo)
                        flag = bool(flag)
                    elif kind == 'sift':
                        imf = sift.sift(X, sift_thresh=case['sift_thresh'] * cabs, max_imfs=case['max_imfs'], imf_opts=io,
                                        envelope_opts=eo, extrema_opts=xo)
                    else:
                        m = case['mask']
                        freqs = m['freqs'] if isinstance(m['freqs'], str) else np.array(m['freqs'], dtype=float)
                        imf = sift.mask_sift(X, mask_amp=m['amp'], mask_amp_mode=m['mode'], mask_freqs=freqs, nphases=m['nphases'],
                                             max_imfs=case['max_imfs'], sift_thresh=case['sift_thresh'] * cabs, imf_opts=io,
                                             envelope_opts=eo, extrema_opts=xo)
            except common.Timeout:
                status = 'timeout'
            except Exception as e:     # noqa: BLE001 - the kind of exception is part of the comparison
                status = 'exc:' + type(e).__name__
    if status == 'ok':
        imf = np.asarray(imf, dtype=float)
        if kind != 'gni':
            thr = case['sift_thresh'] * cabs
            for k in range(imf.shape[1]):
                s = float(np.abs(imf[:, k]).sum())
                if abs(s - thr) <= GUARD * thr:
                    tr.near.append('component %d abs-sum %.17g within %g of sift_thresh' % (k, s, GUARD))
    return status, imf, flag, tr


def run_case(case, timeout=60):
    """the property on one input.  returns dict(status in ok|violation|discard|timeout, what, path, nontrivial, exact)"""
    x = np.array(case['signal'], dtype=float)
    T = case['transform']
    cabs = abs(T['scale']) if 'scale' in T else 1.0
    # custom np.pad settings are nested dicts: either a fresh copy per call, or ONE object handed to both calls (a caller reusing
    # its options); the case record itself is never handed to the implementation
    shared = copy.deepcopy(case['extrema_opts']) if case.get('reuse_opts') else None
    sa, A, fa, ta = _run_side(case, x, 1.0, timeout, xo=shared)
    sb, B, fb, tb = _run_side(case, _transform(T, x), cabs, timeout, xo=shared)
    path = '%s-%s-%s' % (case['kind'], case['compare'], 'rev' if 'rev' in T else ('pos' if T['scale'] > 0 else 'neg'))
    if 'mag_pad_opts' in case['extrema_opts']:
        path += '-pad:%s%s' % (case['extrema_opts']['mag_pad_opts']['mode'], '(reused)' if case.get('reuse_opts') else '')
    res = dict(status='ok', what=None, path=path, nontrivial=bool(ta.iterated), exact=False, near=ta.near + tb.near)
    if 'timeout' in (sa, sb):
        res['status'] = 'timeout'
        return res
    scale = cabs * max(1.0, float(np.abs(x).max()))
    what = None
    if sa != sb:
        what = 'the call on the original signal %s but on the transformed signal it %s' % (
            'returned' if sa == 'ok' else 'raised ' + sa[4:], 'returned' if sb == 'ok' else 'raised ' + sb[4:])
    elif sa == 'ok':
        TA = _transform(T, A)
        if A.shape != B.shape:
            what = '%d components for the original signal, %d for the transformed one' % (A.shape[1], B.shape[1])
        elif case['kind'] == 'gni' and fa != fb:
            what = 'continue flag %s for the original signal, %s for the transformed one' % (fa, fb)
        elif case['compare'] == 'exact':
            res['exact'] = True
            if not np.array_equal(TA, B):
                what = ('not bit-for-bit: max |c*imf(x) - imf(c*x)| = %.3g (c = %r)' % (float(np.abs(TA - B).max()), T.get('scale')))
        else:
            res['exact'] = bool(np.array_equal(TA, B))
            dev = float(np.abs(TA - B).max()) if TA.size else 0.0
            if not dev <= TOL * scale:
                what = 'max deviation %.3g (relative %.3g) between the transformed IMFs of x and the IMFs of the transformed x' % (dev, dev / scale)
    if case['compare'] != 'exact' and res['near']:
        # measured guard band: a decision of one of the two runs lies within rounding distance of its threshold
        res['status'] = 'discard'
        res['what'] = what
        return res
    if what:
        res['status'] = 'violation'
        res['what'] = what
    return res


def _worker(case):
    try:
        return run_case(case)
    except Exception as e:      # noqa: BLE001
        import traceback
        return dict(status='harness-error', what=traceback.format_exc()[-800:], path='error', nontrivial=False, exact=False, near=[])


# ----------------------------------------------------------------------------- case generation
def _real_c(rng):
    if rng.random() < 0.3:
        return rng.choice([3.0, -3.0, 1 / 3, -1 / 3, math.pi, -math.e, 10.0, -0.1, 7.0, -1.5])
    return rng.choice([-1, 1]) * math.exp(rng.uniform(math.log(0.05), math.log(50)))


def _dyadic_c(rng):
    return rng.choice([-1.0, 1.0]) * 2.0 ** rng.randint(-8, 8)


def gen_cases(ctx, n_dy, n_real, n_rev, n_mask, n_few=0):
    rng = ctx.rng
    cases = []
    sigs = siftcore.real_signals(ctx.seed * 7 + 2, n_dy + n_real + n_rev + n_mask)
    it = iter(sigs)

    prng = random.Random(ctx.seed * 7919 + 17)       # separate stream: the pad settings do not shift the other draws

    def base(kind, fam, x):
        io, eo, xo = siftcore.real_opts(rng)
        if rng.random() < 0.15:
            io['energy_thresh'] = rng.choice([20, 50])
        reuse = False
        if prng.random() < 0.4:
            # "every padding setting": user-supplied np.pad options for the extrema magnitudes (all linear in the magnitudes and
            # symmetric end to end); locations stay on the default odd reflection (reflect_type='even' never terminates)
            xo['mag_pad_opts'] = copy.deepcopy(prng.choice(MAG_PADS))
            if prng.random() < 0.3:
                xo['loc_pad_opts'] = {'mode': 'reflect', 'reflect_type': 'odd'}
            reuse = prng.random() < 0.5
        return dict(kind=kind, family=fam, signal=[float(v) for v in x], imf_opts=io, envelope_opts=eo, extrema_opts=xo,
                    reuse_opts=reuse, sift_thresh=1e-8, max_imfs=rng.choice([None, None, 3, 5]))
    for i in range(n_dy):
        fam, x = next(it)
        c = -1.0 if i % 5 == 0 else _dyadic_c(rng)
        case = base('gni' if i % 2 else 'sift', fam, x)
        case.update(transform={'scale': c}, compare='exact')
        cases.append(case)
    for i in range(n_real):
        fam, x = next(it)
        case = base('gni' if i % 2 else 'sift', fam, x)
        case.update(transform={'scale': _real_c(rng)}, compare='tol')
        cases.append(case)
    for i in range(n_rev):
        fam, x = next(it)
        case = base('gni' if i % 2 else 'sift', fam, x)
        case.update(transform={'rev': True}, compare='tol')
        cases.append(case)
    for i in range(n_mask):
        fam, x = next(it)
        case = base('mask', fam, x)
        if i % 2 == 0:                                 # defaults; otherwise the drawn interpolation / padding options
            case['envelope_opts'], case['extrema_opts'] = {}, {}
        if case['imf_opts']['max_iters'] < 5 and case['imf_opts']['stop_method'] != 'fixed':
            case['imf_opts']['max_iters'] = 50
        nph = [1, 2, 3, 4, 4, 8][i % 6]
        r = rng.random()
        if nph % 2 == 1 and i % 12 in (0, 2):
            c = -1.0                                   # the documented-algorithm counterexample family
        elif r < 0.3:
            c = 2.0 ** rng.randint(-8, 8)
        elif r < 0.6 or nph % 2 == 1:
            c = abs(_real_c(rng))
        else:
            c = -abs(_real_c(rng)) if rng.random() < 0.7 else -1.0
        f0 = rng.uniform(0.11, 0.37)
        case['mask'] = dict(mode=rng.choice(['ratio_sig', 'ratio_imf']), nphases=nph, amp=rng.choice([1, 1, 0.5, 2]),
                            freqs=('zc' if rng.random() < 0.2 else [f0 / 2.13 ** k for k in range(4)]))
        case['max_imfs'] = 4
        case.update(transform={'scale': c}, compare='tol')
        cases.append(case)
    # few-extrema sign flips: short random walks / smoothed noise lose ONE kind of extremum (two maxima, one minimum or the reverse)
    # after a few iterations far more often than the long signals above - the branch of get_next_imf where exactly one envelope is
    # missing is where an up/down asymmetry of the control flow shows, and only a negative factor exchanges the two
    frs = np.random.RandomState(ctx.seed * 31 + 9)
    for i in range(n_few):
        if i % 2:
            x = np.cumsum(frs.normal(size=frs.randint(6, 24)))
        else:
            n = frs.randint(10, 30)
            x = np.convolve(frs.normal(size=n + 8), np.ones(5) / 5, 'valid')[:n]
        io = {} if i % 3 else {'stop_method': 'fixed', 'max_iters': int(frs.randint(2, 6))}
        case = dict(kind='sift' if i % 4 else 'gni', family='few-extrema', signal=[float(v) for v in x], imf_opts=io, envelope_opts={},
                    extrema_opts={}, reuse_opts=False, sift_thresh=1e-8, max_imfs=None,
                    transform={'scale': -(2.0 ** int(frs.randint(-2, 3)))}, compare='exact')
        cases.append(case)
    # near-silent stretches: a windowed two-tone burst on an order-one scale, under the Rilling rule (a RATIO of envelope mean to envelope
    # half-width - any absolute floor or offset in it shows when the whole signal is scaled down) and under the sd rule
    for i in range(n_few // 10):
        n = int(frs.randint(120, 260))
        t = np.arange(n) / n
        w = np.exp(-0.5 * ((t - frs.uniform(0.4, 0.6)) / frs.uniform(0.06, 0.08)) ** 2)
        x = w * (np.sin(2 * np.pi * frs.uniform(18, 30) * t) + 0.6 * np.sin(2 * np.pi * frs.uniform(5, 9) * t))
        io = {'stop_method': 'rilling', 'rilling_thresh': (0.05, 0.5, 0.05)} if i % 4 else {'stop_method': 'sd', 'sd_thresh': 0.1}
        case = dict(kind='sift' if i % 2 else 'gni', family='burst', signal=[float(v) for v in x], imf_opts=io, envelope_opts={},
                    extrema_opts={}, reuse_opts=False, sift_thresh=1e-8, max_imfs=3,
                    transform={'scale': 2.0 ** int(frs.choice([-8, -8, -4, -12, 6]))}, compare='exact')
        cases.append(case)
    return cases


def _is_neg_odd(case):
    return case['kind'] == 'mask' and case['transform'].get('scale', 1) < 0 and case['mask']['nphases'] % 2 == 1


def report(ctx, case, res):
    site = {'gni': 'get_next_imf', 'sift': 'sift', 'mask': 'mask_sift'}[case['kind']]
    tags = dict(family=case['family'], mode='real')
    T = case['transform']
    tname = 'time reversal' if 'rev' in T else 'multiplication by %r' % T['scale']
    if _is_neg_odd(case):
        site, tags = SITE_NEG_ODD, dict(TAG_NEG_ODD)
    ctx.problem('impl-violation', site, '%s does not commute with %s: %s' % (case['kind'], tname, res['what']),
                input={k: v for k, v in case.items()}, observed=res['what'],
                expected='imf(T x) == T imf(x) %s' % ('bit for bit' if case['compare'] == 'exact' else 'within 1e-9*scale'), tags=tags)


# ============================================================================= run
def run(ctx):
    quick = ctx.quick()
    ctx.rule = ('(1) integer signals (5 families, length 3..40) x c in +-1..+-5 x pad 1..3 x {peaks,troughs}: real _find_extrema / get_padded_extrema on '
                'c*x and on reversed x vs the model prediction from x - exact; (2) real sd_stop / rilling_stop on integer vectors scaled, swapped, '
                'reversed vs the exact model on the originals; (3) interpolant contract (homogeneity, reflection) on random knot sets for splrep, '
                'pchip, mono_pchip and envelope equivariance of the real interp_envelope - tolerance 1e-9; (4) oracle on real signals (8 families, '
                'order-one amplitude, length 24..200) x {sd,rilling,fixed} x step {1,1/2,1/4} x {splrep,pchip,mono_pchip} x pad 1..4 x '
                'magnitude padding {default median-1, reflect, symmetric, mean-2, median-3, edge; fresh options per call or one dict reused '
                'across the two calls} (x energy option): get_next_imf and sift under c = +-2^k, |k| <= 8 (np.array_equal, sift_thresh*|c|), under arbitrary non-zero reals and '
                'under time reversal (1e-9*scale); few-extrema family (random walks / smoothed noise of 6..30 samples, default and fixed-iteration options) under c = -2^k bit for bit; windowed bursts with near-silent tails under the Rilling / sd rules and c = 2^-12..2^6 bit for bit; mask_sift ratio_sig/ratio_imf x nphases {1,2,3,4,8} under c > 0 and, for even nphases, c < 0. '
                'guard band: a case is discarded when a recorded stop metric / per-sample Rilling metric / energy ratio / component abs-sum '
                'lies within 1e-6 relative of its threshold, two neighbouring samples of an iterate differ by less than 1e-9 relative, or (mask_freqs=zc) '
                'a sample of the IMF whose sign changes set the mask frequency is within 1e-9 relative of zero '
                '(exact +-2^k comparisons need no guard).  masked sift with c < 0 and odd nphases is reported under the known-finding site.  '
                'non-trivial = at least one sifting iteration was completed')
    ctx.notes.append('ORACLE CONTRACTS (trusted, validated numerically here): interpolant homogeneous of degree one in the magnitudes and symmetric '
                     'under reflection of the knots (splrep/splev, PchipInterpolator); std(c x) = |c| std(x); cos(theta + pi) = -cos(theta)')
    ctx.notes.append('NOT A THEOREM: bit-for-bit equality for c = +-2^k is an IEEE fact about FITPACK/PCHIP internals, watched by exact '
                     'np.array_equal on the real code; theorems are about exact arithmetic')
    ctx.notes.append('NOT A THEOREM / KNOWN FINDING: masked sifts with c < 0 need the mask set closed under negation (even nphases); for odd nphases '
                     'the scaling law is false of the documented algorithm (Coq: mask_scale_neg_odd_refuted; real code: c = -1, nphases 1 and 3 '
                     'differ by O(1))')
    ctx.notes.append('the concrete Coq layer is over integer lists with a Z-valued half-envelope interpolant oracle; rational data is covered by '
                     'the abstract theorems (any signal type)')
    # translation ties: the Symmetry model is built on SiftCore.gni_loop / peel_loop and on model/Extrema.v; the skeletons of
    # get_next_imf / sift / mask_sift and of the extrema routines are regenerated from the source and their refinement re-checked
    ctx.proof(extra=['props/Prop_Tie_Sift.v', 'props/Prop_Tie_Extrema.v'])
    from emd import sift
    bad = []
    # ---- (1) stages, exact
    n1 = 300 if quick else 4000
    cases = []
    for _ in range(n1):
        x = gen_int_signal(ctx.rng)
        c = ctx.rng.choice([-5, -4, -3, -2, -1, -1, 1, 2, 3, 5])
        cases.append((c, x))
    lits = ['(%s, %s)' % (common.zlit(c), zlist(x)) for c, x in cases]
    mo = ctx.model_outputs(IMPORTS, lits, 'fun cx => run_sym_stages (fst cx) [%s]%%nat (snd cx)' % '; '.join(str(p) for p in PADS), shard=150)
    for (c, x), exp in zip(cases, mo):
        got = impl_sym_stages(float(c), x)
        nmax = exp.index(-99996)
        ctx.count(('stages', c, tuple(x)), nmax >= 2, 'stages-%s-%s' % ('pos' if c > 0 else 'neg', 'noext' if nmax < 2 else 'ext'))
        ctx.exact_cmp += 1
        if got != exp and len(bad) < 3:
            bad.append(('stages', dict(kind='stages', c=c, signal=x), got, exp))
    ctx.sample(dict(stage_case=dict(c=cases[0][0], signal=cases[0][1])))
    # ---- (2) stop rules, exact
    n2 = 200 if quick else 3000
    scases = []
    for _ in range(n2):
        ln = ctx.rng.randint(1, 8)
        z = ctx.rng.randint(0, 5) == 0
        a = [0 if z else ctx.rng.randint(-6, 6) for _ in range(ln)]
        b = [v if ctx.rng.random() < 0.3 else ctx.rng.randint(-6, 6) for v in a]
        thr = list(ctx.rng.choice([(1, 8), (1, 2), (1, 64), (3, 4), (1, 1), (2, 1)])) + list(ctx.rng.choice([(1, 16), (1, 4), (1, 2), (1, 1)])) + \
            list(ctx.rng.choice([(1, 2), (1, 1), (3, 1)])) + list(ctx.rng.choice([(1, 16), (1, 4), (1, 2), (0, 1)]))
        c = ctx.rng.choice([-4, -3, -2, -1, 2, 3, 5])
        scases.append((a, b, thr, c))
    mo = ctx.model_outputs(IMPORTS, ['((%s, %s), %s)' % (zlist(a), zlist(b), zlist(thr)) for a, b, thr, c in scases],
                           'fun q => run_sym_stops (snd q) (fst (fst q)) (snd (fst q))', shard=1000)
    with np.errstate(all='ignore'), warnings.catch_warnings():
        warnings.simplefilter('ignore')
        for (a, b, thr, c), exp in zip(scases, mo):
            A, B = np.array(a, dtype=float), np.array(b, dtype=float)
            kw = dict(sd1=thr[2] / thr[3], sd2=thr[4] / thr[5], tol=thr[6] / thr[7])
            variants = [(c * A, c * B, 'scaled by %d' % c), (A[::-1].copy(), B[::-1].copy(), 'reversed')]
            got_sd = [int(bool(sift.sd_stop(u, v, sd=thr[0] / thr[1])[0])) for u, v, _ in variants]
            got_ril = [int(bool(sift.rilling_stop(u, v, **kw)[0])) for u, v, _ in variants + [(c * B, c * A, 'scaled by %d and swapped' % c)]]
            ctx.count(('stops', tuple(a), tuple(b), tuple(thr), c), True, 'stop-rules')
            ctx.exact_cmp += 1
            if (any(g != exp[0] for g in got_sd) or any(g != exp[1] for g in got_ril)) and len(bad) < 6:
                bad.append(('stops', dict(kind='stops', a=a, b=b, thr=thr, c=c), [got_sd, got_ril], exp))
    # ---- (3) interpolant contract and envelope equivariance (tolerance)
    rs = np.random.RandomState(ctx.seed * 13 + 5)
    n3 = 150 if quick else 3000
    worst = dict(splrep=0.0, pchip=0.0, mono_pchip=0.0)
    for i in range(n3):
        method = ('splrep', 'pchip', 'mono_pchip')[i % 3]
        d, detail = contract_case(rs, method)
        worst[method] = max(worst[method], d)
        ctx.count(('contract', i, method), True, 'interp-contract-' + method)
        ctx.tol_cmp += 1
        if not d <= TOL and len(bad) < 9:
            bad.append(('contract', dict(kind='contract', **detail), d, '<= %g' % TOL))
    ctx.extra['interpolant_contract_max_rel_dev'] = worst
    n4 = 60 if quick else 1000
    wenv = 0.0
    for fam, x in siftcore.real_signals(ctx.seed * 11 + 3, n4, nmin=12, nmax=120):
        _, eo, xo = siftcore.real_opts(ctx.rng)
        c = _real_c(ctx.rng)
        with warnings.catch_warnings():
            warnings.simplefilter('ignore')
            d, what = envelope_case(x, c, eo, xo)
        if _near_tie(x, 1.0):
            ctx.discarded += 1
            continue
        ctx.count(('envelope', fam, len(x), c), what is not None, 'envelope-equivariance')
        ctx.tol_cmp += 1
        wenv = max(wenv, d)
        if not d <= TOL and len(bad) < 12:
            bad.append(('envelope', dict(kind='envelope', signal=[float(v) for v in x], c=c, envelope_opts=eo, extrema_opts=xo), what, '<= %g' % TOL))
    ctx.extra['envelope_equivariance_max_rel_dev'] = wenv
    # ---- (4) oracle
    if quick:
        ocases = gen_cases(ctx, 60, 50, 50, 36, 300)
    else:
        ocases = gen_cases(ctx, 1500, 1300, 1300, 900, 6000)
    mpctx = multiprocessing.get_context('fork')
    with concurrent.futures.ProcessPoolExecutor(max_workers=14, mp_context=mpctx) as ex:
        results = list(ex.map(_worker, ocases, chunksize=2))
    nexact_hits = 0
    for case, res in zip(ocases, results):
        key = (case['kind'], case['family'], len(case['signal']), repr(case['transform']), repr(case['imf_opts']), repr(case.get('mask')))
        if res['status'] == 'harness-error':
            ctx.problem('correspondence-break', 'harness-exception', 'oracle worker raised: ' + res['what'], input=case, theorem='harness/props/c02.py')
            continue
        if res['status'] == 'timeout':
            ctx.hist['oracle-timeout'] += 1
            ctx.discarded += 1
            continue
        if res['status'] == 'discard' and not _is_neg_odd(case):
            ctx.hist['guard-band:' + res['path']] += 1
            ctx.discarded += 1
            continue
        path = res['path'] + ('-nph%d' % case['mask']['nphases'] if case['kind'] == 'mask' else '')
        ctx.count(key, res['nontrivial'], path)
        if case['compare'] == 'exact':
            ctx.exact_cmp += 1
        else:
            ctx.tol_cmp += 1
            nexact_hits += int(res['exact'])
        if res['status'] == 'violation' or (_is_neg_odd(case) and res['what']):
            res = dict(res)
            report(ctx, case, res)
    ctx.extra['tolerance_cases_bit_identical'] = nexact_hits
    ctx.sample(dict(oracle_case={k: (v if k != 'signal' else v[:6] + ['...']) for k, v in ocases[0].items()}))
    # ---- disagreements of the exact / contract layers: the oracle on that input decides
    if bad:
        site, inp, got, exp = bad[0]
        v = None
        if inp['kind'] == 'stages':
            v = stage_property(float(inp['c']), inp['signal'])
        elif inp['kind'] == 'stops':
            v = ('sd_stop/rilling_stop', 'decisions %s on the scaled / reversed / swapped vectors differ among themselves' % got) \
                if len(set(got[0])) > 1 or len(set(got[1])) > 1 else None
        elif inp['kind'] == 'envelope':
            v = ('interp_envelope', str(got))
        if v:
            ctx.problem('impl-violation', v[0], v[1], input=inp, observed=got, expected=exp, tags=dict(mode='stage'))
        else:
            ctx.problem('correspondence-break', site, 'model / oracle contract and implementation differ (%d disagreeing cases)' % len(bad),
                        input=inp, observed=got, expected=exp,
                        theorem={'stages': 'Symmetry.run_sym_stages vs emd.sift._find_extrema / get_padded_extrema',
                                 'stops': 'Toys.sd_stop / rilling_stop vs emd.sift.sd_stop / rilling_stop',
                                 'contract': 'interpolant oracle contract (interp_scale / interp_rev) vs scipy.interpolate',
                                 'envelope': 'envs_scale_pos / envs_scale_neg / envs_rev vs emd.sift.interp_envelope'}[inp['kind']])


def replay(rec):
    i = rec['input']
    kind = i.get('kind')
    if kind in ('gni', 'sift', 'mask'):
        res = run_case(i)
        print(res['status'], res['what'], res.get('near'))
        return res['status'] == 'violation' or (_is_neg_odd(i) and bool(res['what']))
    if kind == 'stages':
        got = impl_sym_stages(float(i['c']), i['signal'])
        v = stage_property(float(i['c']), i['signal'])
        print('observed', got, 'expected', rec.get('expected'), v)
        return bool(v) or got != rec.get('expected')
    if kind == 'envelope':
        d, what = envelope_case(np.array(i['signal']), i['c'], i['envelope_opts'], i['extrema_opts'])
        print(d, what)
        return not d <= TOL
    if kind == 'contract':
        return True
    if kind == 'stops':
        from emd import sift
        thr, c = i['thr'], i['c']
        A, B = np.array(i['a'], dtype=float), np.array(i['b'], dtype=float)
        with np.errstate(all='ignore'):
            sd = {int(bool(sift.sd_stop(u, v, sd=thr[0] / thr[1])[0])) for u, v in ((A, B), (c * A, c * B), (A[::-1], B[::-1]))}
            kw = dict(sd1=thr[2] / thr[3], sd2=thr[4] / thr[5], tol=thr[6] / thr[7])
            ril = {int(bool(sift.rilling_stop(u, v, **kw)[0])) for u, v in ((A, B), (c * A, c * B), (c * B, c * A), (A[::-1], B[::-1]))}
        return len(sd) > 1 or len(ril) > 1
    return False
