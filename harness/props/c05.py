"""C05 - extrema are exact, padding is mirrored, envelopes interpolate on the sample grid.

PROOF          coq/props/Prop_C05.v  (model: coq/model/Extrema.v)
CORRESPONDENCE (1) run_extrema: get_padded_extrema and interp_envelope's sample grid for every sequence up to a length over
               {-1,0,1} x pad widths 0..5 x {peaks,troughs,abs_peaks} (enumerated inside Coq, block hashes);
               (2) np.pad reflect-odd / median-1 themselves; (3) compute_parabolic_extrema vs exact rationals
ORACLE         strict local maxima/minima by brute force; padded = mirrored L ++ interior ++ R, strictly increasing, covering;
               envelope == interpolant rebuilt from the returned extrema evaluated at 0..N-1, knots hit
"""
import multiprocessing as mp
from fractions import Fraction

import numpy as np

import common
from common import zlist
from props import siftcore

IMPORTS = 'From EmdV Require Import lib.NpLite model.Extrema.'
ALPHABET = [-1, 0, 1]
PADS = [0, 1, 2, 3, 4, 5]
MODES = [('peaks', 'upper'), ('troughs', 'lower'), ('abs_peaks', 'combined')]


def seq_of_index(ln, idx):
    out = []
    for _ in range(ln):
        out.append(ALPHABET[idx % 3])
        idx //= 3
    return out


class _Grid:
    """splrep/splev stand-ins that make interp_envelope return the sample grid it evaluated on."""
    @staticmethod
    def splrep(locs, pks):
        return None

    @staticmethod
    def splev(t, f):
        return np.asarray(t)


def impl_run_extrema(x):
    from emd import sift
    X = np.array(x, dtype=float)
    out = []
    real_rep, real_ev = sift.interp.splrep, sift.interp.splev
    sift.interp.splrep, sift.interp.splev = _Grid.splrep, _Grid.splev
    try:
        for p in PADS:
            for mode, envmode in MODES:
                try:
                    locs, mags = sift.get_padded_extrema(X, pad_width=p, mode=mode)
                    if locs is None:
                        out += [-1]
                    else:
                        out += [0] + [int(v) for v in locs] + [-99999] + [int(v) for v in mags]
                except Exception as e:
                    out += [-2, common.exc_code(e)]
                out += [-99998]
                try:
                    g = sift.interp_envelope(X, mode=envmode, extrema_opts={'pad_width': p})
                    out += [-1] if g is None else [0] + [int(v) for v in g]
                except ValueError:
                    out += [-2]
                except Exception as e:
                    out += [-3, common.exc_code(e)]
                out += [-99997]
    finally:
        sift.interp.splrep, sift.interp.splev = real_rep, real_ev
    return out


def oracle_extrema(x):
    """The property on get_padded_extrema, no model involved."""
    from emd import sift
    X = np.array(x, dtype=float)
    N = len(x)
    fails = []
    for mode, f in (('peaks', lambda v: v), ('troughs', lambda v: -v), ('abs_peaks', abs)):
        y = [f(v) for v in x]
        exp = [i for i in range(1, N - 1) if y[i] > y[i - 1] and y[i] > y[i + 1]]
        try:
            locs0, mags0 = sift.get_padded_extrema(X, pad_width=0, mode=mode)
        except Exception as e:
            return [('get_padded_extrema', 'raised %s' % type(e).__name__)]
        if len(exp) <= 1:
            if locs0 is not None:
                fails.append(('get_padded_extrema', 'mode=%s: %d extrema must give (None, None)' % (mode, len(exp))))
            continue
        if locs0 is None or [int(v) for v in locs0] != exp:
            fails.append(('_find_extrema', 'mode=%s: detected %s, the strict local extrema are %s'
                          % (mode, None if locs0 is None else list(locs0), exp)))
            continue
        if [float(v) for v in mags0] != [float(x[i]) if mode != 'abs_peaks' else float(abs(x[i])) for i in exp]:
            fails.append(('_find_extrema', 'mode=%s: magnitudes %s are not the signal values at %s' % (mode, list(mags0), exp)))
        # with parabolic refinement the SAME extrema are detected, each refined to within half a sample of its strict extremum
        try:
            plocs, pmags = sift.get_padded_extrema(X, pad_width=0, mode=mode, parabolic_extrema=True)
        except Exception as e:
            plocs = None
            fails.append(('_find_extrema(parabolic)', 'mode=%s: raised %s' % (mode, type(e).__name__)))
        if plocs is None or len(plocs) != len(exp) or any(abs(float(a) - b) > 0.5 + 1e-9 for a, b in zip(plocs, exp)):
            fails.append(('_find_extrema(parabolic)', 'mode=%s: with parabolic refinement the extrema are %s, the strict local extrema are at %s'
                          % (mode, None if plocs is None else [round(float(v), 3) for v in plocs], exp)))
        for p in PADS[1:]:
            locs, mags = sift.get_padded_extrema(X, pad_width=p, mode=mode)
            locs = [int(v) for v in locs]
            k = locs.index(exp[0]) if exp[0] in locs else -1
            if k < 0 or locs[k:k + len(exp)] != exp:
                fails.append(('get_padded_extrema', 'mode=%s pad=%d: interior extrema altered: %s' % (mode, p, locs)))
                continue
            L, R = locs[:k], locs[k + len(exp):]
            if any(b <= a for a, b in zip(locs, locs[1:])):
                fails.append(('get_padded_extrema', 'mode=%s pad=%d: padded locations not strictly ordered: %s' % (mode, p, locs)))
            if not (locs[0] < 0 and locs[-1] >= N):
                fails.append(('get_padded_extrema', 'mode=%s pad=%d: padding does not cover both edges: %s' % (mode, p, locs)))
            if any(v >= exp[0] for v in L) or any(v <= exp[-1] for v in R):
                fails.append(('get_padded_extrema', 'mode=%s pad=%d: padding is not beyond the ends: %s' % (mode, p, locs)))
            # mirrored: the first reflections are the odd reflections about the end extrema
            pe = min(p, len(exp))
            for j in range(1, min(pe, len(exp) - 1) + 1):
                if L and len(L) >= j and L[-j] != 2 * exp[0] - exp[j]:
                    fails.append(('get_padded_extrema', 'mode=%s pad=%d: left padding %s is not the mirror image of %s' % (mode, p, L, exp)))
                    break
                if R and len(R) >= j and R[j - 1] != 2 * exp[-1] - exp[-1 - j]:
                    fails.append(('get_padded_extrema', 'mode=%s pad=%d: right padding %s is not the mirror image of %s' % (mode, p, R, exp)))
                    break
    return fails


_W = {}


def _worker(job):
    ln, start, n = job
    outs, fails = [], []
    for idx in range(start, start + n):
        x = seq_of_index(ln, idx)
        try:
            with common.time_limit(20):
                outs.append(impl_run_extrema(x))
                f = oracle_extrema(x)
        except common.Timeout:
            outs.append([-6])
            f = [('get_padded_extrema', 'did not return within 20 s for the %d-sample signal %s' % (ln, x))]
        if f:
            fails.append((x, f[:2]))
    return ln, start, n, common.block_hash(outs), fails[:3]


# ------------------------------------------------------------------ envelopes on real signals (oracle)
def signals(ctx, n):
    rs = np.random.RandomState(ctx.seed + 5)
    out = []
    for i in range(n):
        N = int(rs.randint(12, 300))
        t = np.arange(N)
        kind = i % 7
        if kind == 6:
            # a loud oscillation with a quiet gap / bursts on a weak carrier: the abs-peak magnitudes jump, the cubic spline through them
            # overshoots (below zero for the combined envelope) - the envelope IS that interpolant all the same
            gap = (t > N * rs.uniform(0.25, 0.4)) & (t < N * rs.uniform(0.55, 0.75))
            x = np.where(gap, 0.02, 1.0 + rs.uniform(0, 2)) * np.sin(2 * np.pi * t / rs.uniform(5, 9)) + 0.001 * rs.randn(N)
        elif kind == 0:
            x = rs.randn(N)
        elif kind == 1:
            x = np.cumsum(rs.randn(N))
        elif kind == 2:
            x = np.sin(2 * np.pi * t / rs.uniform(5, 40)) + 0.5 * np.sin(2 * np.pi * t / rs.uniform(3, 11)) + 0.01 * t
        elif kind == 3:
            x = (1 + 0.5 * np.sin(2 * np.pi * t / 90)) * np.sin(2 * np.pi * t / 13 + np.sin(2 * np.pi * t / 70))
        elif kind == 4:
            x = np.round(3 * np.sin(2 * np.pi * t / rs.uniform(6, 25)))       # plateaus / ties
        else:
            x = rs.randint(-3, 4, N).astype(float)
        out.append(x)
    return out


def oracle_envelope(x, mode, method, pad, parabolic, dtype=None, amp=1.0):
    from scipy import interpolate as interp
    from emd import sift
    x, _ = siftcore.as_dtype(x, dtype)       # integer counts / single precision handed to the implementation as they are
    if amp != 1.0:
        x = x * amp                          # 'all finite signals': extrema and envelopes do not depend on the unit of the signal
    N = len(x)
    opts = {'pad_width': pad, 'parabolic_extrema': parabolic}
    try:
        with common.time_limit(20):
            r = sift.interp_envelope(x, mode=mode, interp_method=method, extrema_opts=opts, ret_extrema=True)
    except common.Timeout:
        return [('interp_envelope', 'mode=%s method=%s pad=%d parabolic=%s: no envelope after 20 s for a %d-sample signal (the padding '
                 'loop does not terminate)' % (mode, method, pad, parabolic, N))], True
    except Exception as e:
        return [('interp_envelope', 'raised %s: %s' % (type(e).__name__, e))], False
    if r is None:
        return [], False
    env, (locs, pks) = r
    fails = []
    if env.shape[0] != N:
        return [('interp_envelope', 'envelope has %d values for %d samples' % (env.shape[0], N))], True
    t = np.arange(N)
    if method == 'splrep':
        ref = interp.splev(t, interp.splrep(locs, pks))
    else:
        ref = interp.PchipInterpolator(locs, pks)(t)
    scale = amp * max(1.0, np.abs(ref).max() / amp)
    err = np.abs(env - ref).max()
    if err > 1e-9 * scale:
        fails.append(('interp_envelope', 'mode=%s method=%s pad=%d parabolic=%s: envelope differs from the interpolant through the '
                      'returned extrema evaluated at the integer sample times by %.3g' % (mode, method, pad, parabolic, err)))
    # the padded extrema themselves: their interior part must be the strict local extrema of the signal (of |x| for the combined
    # envelope), at the vertex of the parabola through the three samples around each when refinement is on
    yv = np.asarray({'upper': x, 'lower': -np.asarray(x, dtype=float), 'combined': np.abs(x)}[mode], dtype=float)
    idx = [i for i in range(1, N - 1) if yv[i] > yv[i - 1] and yv[i] > yv[i + 1]]
    if parabolic:
        el, ev = [], []
        for i in idx:
            pa, pb = (yv[i - 1] + yv[i + 1]) / 2 - yv[i], (yv[i + 1] - yv[i - 1]) / 2
            el.append(i - pb / (2 * pa))
            ev.append(yv[i] - pb * pb / (4 * pa))
    else:
        el, ev = [float(i) for i in idx], [yv[i] for i in idx]
    ev = [-v for v in ev] if mode == 'lower' else ev
    inner = [(float(a), float(b)) for a, b in zip(locs, pks) if 0 <= a <= N - 1]
    # (a padded extremum may coincide with sample 0 or N-1 only through reflection: interior ones are those matching the expected count)
    got_l, got_v = [a for a, _ in inner], [b for _, b in inner]
    if len(el) >= 1 and (len(got_l) < len(el) or not any(
            np.allclose(got_l[o:o + len(el)], el, rtol=0, atol=1e-9 * max(1.0, N)) and
            np.allclose(got_v[o:o + len(el)], ev, rtol=1e-9, atol=1e-9 * scale) for o in range(len(got_l) - len(el) + 1))):
        fails.append(('get_padded_extrema', 'mode=%s pad=%d parabolic=%s: the extrema inside the recording are %s / %s, the strict local extrema%s '
                      'of the signal are %s / %s' % (mode, pad, parabolic, [round(v, 6) for v in got_l][:8], [float('%.6g' % v) for v in got_v][:8],
                                                     ' (parabola vertices)' if parabolic else '', [round(v, 6) for v in el][:8],
                                                     [float('%.6g' % v) for v in ev][:8])))
    if not parabolic:
        y = {'upper': x, 'lower': x, 'combined': np.abs(x)}[mode]
        inner = [int(v) for v in locs if 0 <= v < N and float(v).is_integer()]
        sgn = -1 if mode == 'lower' else 1
        true = [i for i in range(1, N - 1) if sgn * y[i] > sgn * y[i - 1] and sgn * y[i] > sgn * y[i + 1]]
        hit = [i for i in true if abs(env[i] - y[i]) > 1e-9 * scale]
        if hit:
            fails.append(('interp_envelope', 'mode=%s method=%s pad=%d: envelope does not pass through the extrema at %s'
                          % (mode, method, pad, hit[:5])))
    return fails, True


def run(ctx):
    maxlen = 7 if ctx.quick() else 9
    ctx.rule = ('(1) every sequence of length 3..%d over {-1,0,1} x pad widths 0..5 x {peaks,troughs,abs_peaks}: padded extrema and '
                'envelope sample grid vs the model (block hashes) and vs brute-force strict extrema / mirror / order / cover; '
                '(2) np.pad reflect-odd and median-1 on random arrays; (3) parabolic vertex on dyadic triples vs exact rationals; '
                '(4) envelopes of random real signals (noise, walks, tones, AM/FM, plateaus, integers, loud oscillations with a quiet gap) x {splrep,pchip,mono_pchip} x '
                '{upper,lower,combined} x pad 1..4 x parabolic on/off vs the interpolant rebuilt from the returned extrema; '
                'non-trivial = at least two extrema of the requested kind' % maxlen)
    ctx.proof(extra=['props/Prop_Tie_Extrema.v', 'props/Prop_Tie_Parab.v'])  # translation tie: program regenerated from the source + refinement theorems
    jobs = []
    for ln in range(3, maxlen + 1):
        jobs += [(ln, s, n) for s, n in common.enum_blocks(3 ** ln, 243)]
    with mp.Pool(14) as pool:
        res = pool.map(_worker, jobs, chunksize=1)
    ctx.exhaustive = True
    by_len, bad = {}, []
    for ln, start, n, h, fails in res:
        by_len.setdefault(ln, []).append((start, n, h))
        ctx.evaluations += n
        ctx.hist['len%d' % ln] += n
        ctx.exact_cmp += n
        for x, fl in fails:
            for site, detail in fl[:1]:
                ctx.problem('impl-violation', site, detail, input=dict(signal=x))
    nt = 0
    for ln in range(3, maxlen + 1):
        for idx in range(3 ** ln):
            x = seq_of_index(ln, idx)
            if sum(1 for i in range(1, ln - 1) if x[i] > x[i - 1] and x[i] > x[i + 1]) >= 2:
                nt += 1
    ctx.nontrivial |= {'enum%d' % i for i in range(nt)}
    plit = '[' + '; '.join('%d' % p for p in PADS) + ']%nat'
    for ln, blocks in by_len.items():
        fexpr = 'fun idx => run_extrema %s (seq_of_index %s %d%%nat idx)' % (plit, zlist(ALPHABET), ln)
        mh = ctx.model_block_hashes(IMPORTS, fexpr, [(s, n) for s, n, _ in blocks])
        for (s, n, h), m in zip(blocks, mh):
            if h != m:
                bad.append((ln, s, n, fexpr))
    ctx.sample(dict(signal=seq_of_index(7, 1234), pads=PADS))
    # (2) np.pad itself
    cases = []
    for _ in range(200 if ctx.quick() else 4000):
        n = ctx.rng.randint(2, 7)
        a = sorted(ctx.rng.sample(range(-5, 40), n))
        cases.append((a, ctx.rng.randint(0, n)))
    mo = ctx.model_outputs(IMPORTS, ['(%s, %d%%nat)' % (zlist(a), p) for a, p in cases],
                           'fun c => pad_reflect_odd (S (snd c)) (fst c) (snd c) ++ [-99999] ++ pad_edge (fst c) (snd c)', shard=400)
    for (a, p), m in zip(cases, mo):
        exp = [int(v) for v in np.pad(np.array(a), p, 'reflect', reflect_type='odd')] + [-99999] + \
              [int(v) for v in np.pad(np.array(a), p, 'median', stat_length=1)]
        ctx.count(('pad', a, p), p > 0, 'np.pad')
        ctx.exact_cmp += 1
        if exp != m and not bad:
            bad.append(('np.pad', dict(a=a, pad_width=p), exp, m))
    # (3) parabolic vertex
    from emd import sift
    pc = []
    for _ in range(200 if ctx.quick() else 4000):
        y1 = ctx.rng.randint(-20, 40)
        pc.append((y1 - ctx.rng.randint(1, 30), y1, y1 - ctx.rng.randint(1, 30), ctx.rng.randint(1, 500)))
    mo = ctx.model_outputs(IMPORTS, ['[%s]' % '; '.join(common.zlit(v) for v in c) for c in pc],
                           'fun c => run_parabolic (nth 0 c 0) (nth 1 c 0) (nth 2 c 0) (nth 3 c 0)', shard=400)
    for k, (c, m) in enumerate(zip(pc, mo)):
        # the vertex does not depend on the unit of the signal: the same triplet times a power of two (exact in binary)
        amp = [1.0, 1.0, 2.0 ** -52, 2.0 ** -70, 2.0 ** 40, 2.0 ** -100][k % 6]
        t, yh = sift.compute_parabolic_extrema(np.array([[c[0] / 8], [c[1] / 8], [c[2] / 8]]) * amp, np.array([c[3]]))
        yh = yh / amp
        ctx.count(('parabolic', c, amp), True, 'parabolic' if amp == 1.0 else 'parabolic-scaled')
        ctx.tol_cmp += 1
        et, ey = Fraction(m[0], m[1]), Fraction(m[2], m[3])
        if abs(t[0] - float(et)) > 1e-9 * max(1, abs(float(et))) or abs(yh[0] - float(ey)) > 1e-9 * max(1, abs(float(ey))):
            # the property itself, independent of the model: the refined magnitude is the vertex value of the parabola through the
            # three samples, c - b^2/(4a) with a = (y0+y2)/2 - y1, b = (y2-y0)/2, c = y1
            y0, y1, y2 = (Fraction(v, 8) for v in c[:3])
            pa, pb = (y0 + y2) / 2 - y1, (y2 - y0) / 2
            vy = y1 - pb * pb / (4 * pa)
            inp = dict(y=[v / 8 for v in c[:3]], loc=c[3], amp=amp)
            if abs(yh[0] - float(vy)) > 1e-9 * max(1, abs(float(vy))) and not any(q['site'] == 'compute_parabolic_extrema' for q in ctx.problems):
                ctx.problem('impl-violation', 'compute_parabolic_extrema',
                            'samples %s x %g around location %d: refined magnitude %.12g x %g is not the vertex value %.12g x %g of the parabola '
                            'through them (refined location %.12g)' % (inp['y'], amp, c[3], float(yh[0]), amp, float(vy), amp, float(t[0])),
                            input=dict(parabolic_triplet=inp), observed=[float(t[0]), float(yh[0])], expected=[float(et), float(ey)])
            elif not bad:
                bad.append(('parabolic', inp, [float(t[0]), float(yh[0])], [float(et), float(ey)]))
    # (4) envelopes on real signals
    nsig = 21 if ctx.quick() else 420
    for si, x in enumerate(signals(ctx, nsig)):
        dt = [None, None, 'int64', None, 'float32', None, None, 'int16'][si % 8]
        if dt:
            ctx.hist['dtype-' + dt] += 1
        amp = 1.0 if dt else [1.0, 1.0, 2.0 ** -52, 1.0, 1e-17, 1e12, 1.0, 1e-30][(si // 8 + si) % 8]
        if amp != 1.0:
            ctx.hist['amplitude-%g' % amp] += 1
        for mode in ('upper', 'lower', 'combined'):
            for method in ('splrep', 'pchip', 'mono_pchip'):
                pad = 1 + (si + len(mode) + len(method)) % 4
                for parabolic in (False, True):
                    fails, nt = oracle_envelope(x, mode, method, pad, parabolic, dtype=dt, amp=amp)
                    ctx.count(('env', si, mode, method, parabolic), nt, 'envelope-%s' % ('parabolic' if parabolic else 'plain'))
                    ctx.tol_cmp += 1
                    for site, detail in fails[:1]:
                        ctx.problem('impl-violation', site, detail,
                                    input=dict(signal=x.tolist(), mode=mode, interp_method=method, pad_width=pad, parabolic_extrema=parabolic, dtype=dt, amp=amp),
                                    tags=dict(parabolic=parabolic))
    if bad and not any(p['kind'] == 'impl-violation' for p in ctx.problems):
        b = bad[0]
        if isinstance(b[0], str):
            ctx.problem('correspondence-break', b[0], 'model and implementation differ', input=b[1], observed=b[2], expected=b[3],
                        theorem='Extrema (%s) vs numpy / emd.sift' % b[0])
        else:
            ln, s, n, fexpr = b
            mh = ctx.model_index_hashes(IMPORTS, fexpr, s, n)
            for k in range(n):
                x = seq_of_index(ln, s + k)
                out = impl_run_extrema(x)
                if common.hashL(out) != mh[k]:
                    ctx.problem('correspondence-break', 'run_extrema', 'model and implementation differ', input=dict(signal=x),
                                observed=out, expected=ctx.model_index_output(IMPORTS, fexpr, s + k),
                                theorem='Extrema.run_extrema vs emd.sift.get_padded_extrema / interp_envelope')
                    break


def replay(rec):
    i = rec['input']
    if 'parabolic_triplet' in i:
        from emd import sift
        q = i['parabolic_triplet']
        y0, y1, y2 = (Fraction(v) for v in q['y'])
        pa, pb = (y0 + y2) / 2 - y1, (y2 - y0) / 2
        vy = float(y1 - pb * pb / (4 * pa))
        t, yh = sift.compute_parabolic_extrema(np.array([[q['y'][0]], [q['y'][1]], [q['y'][2]]]) * q['amp'], np.array([q['loc']]))
        print('refined', float(t[0]), float(yh[0] / q['amp']), 'vertex value', vy)
        return abs(yh[0] / q['amp'] - vy) > 1e-9 * max(1, abs(vy))
    if 'interp_method' in i:
        f, _ = oracle_envelope(np.array(i['signal']), i['mode'], i['interp_method'], i['pad_width'], i['parabolic_extrema'], dtype=i.get('dtype'), amp=i.get('amp', 1.0))
    else:
        f = oracle_extrema(i['signal'])
    for x in f:
        print(x)
    return bool(f)
