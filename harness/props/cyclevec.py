"""Shared machinery for C12 / C13: get_cycle_vector, is_good, Cycles.metrics['is_good'].

Phases are dyadic floats code/8 so every comparison in the implementation is exact
and equals the integer comparison the model makes on the codes.
"""
import math
import multiprocessing as mp
from fractions import Fraction

import numpy as np

import common
from common import zlist

IMPORTS = 'From EmdV Require Import lib.NpLite model.CycleMaps model.CycleVec.'
ALPHABET = [2, 12, 24, 36, 50]      # 0.25, 1.5, 3.0, 4.5, 6.25  (x8)
UNIT = 8
TWO_PI = 2 * np.pi


def code_cfg(step, edge):
    """float thresholds -> integer thresholds in code units, by exact rational arithmetic
    on the very floats the implementation will compare against."""
    s = Fraction(float(step)) * UNIT
    lo = Fraction(float(edge)) * UNIT
    hi = Fraction(float(TWO_PI - edge)) * UNIT
    tp = Fraction(float(TWO_PI)) * UNIT
    for fr in (s, lo, hi, tp):
        assert fr.denominator != 1, 'threshold exactly on a code value: comparison would be rounding dependent'
    return [math.floor(s), math.floor(lo), math.ceil(hi), math.floor(tp)]


def digits(base, ln, idx):
    out = []
    for _ in range(ln):
        out.append(idx % base)
        idx //= base
    return out


def seq_of_index(ln, idx):
    return [ALPHABET[d] for d in digits(len(ALPHABET), ln, idx)]


# ------------------------------------------------------------------ implementation
def _ov(f):
    try:
        v = f()
    except Exception:
        return [-2]
    return [0] + [int(x) for x in np.asarray(v).reshape(-1)]


def impl_flags(ph, step, edge):
    from emd import cycles
    try:
        C = cycles.Cycles(ph, phase_step=step, phase_edge=edge)
        if 'is_good' not in C.metrics:
            return [0] if C.ncycles == 0 else [-2]
        return [0] + [int(x) for x in C.metrics['is_good']]
    except Exception:
        return [-2]


def impl_run_cv(codes, cfgs, mask=None):
    """cfgs: list of (step, edge) floats."""
    from emd import cycles
    ph = np.array(codes, dtype=float) / UNIT
    m = None if mask is None else np.array(mask, dtype=bool)
    out = []
    for step, edge in cfgs:
        out += _ov(lambda: cycles.get_cycle_vector(ph, return_good=False, mask=m, phase_step=step, phase_edge=edge)) + [-9]
        out += _ov(lambda: cycles.get_cycle_vector(ph, return_good=True, mask=m, phase_step=step, phase_edge=edge)) + [-9]
        out += impl_flags(ph, step, edge) + [-9]
    return out


# ------------------------------------------------------------------ property oracles (no model)
def wraps_of(ph, step):
    return [i + 1 for i in range(len(ph) - 1) if abs(ph[i + 1] - ph[i]) > step]


def oracle_partition(ph, step, vec, require_cover, what):
    """C12: labels 0..K-1 in temporal order, contiguous runs, no internal wrap, runs begin/end at a
    wrap or an end of the recording, everything else -1 (and full cover when required)."""
    fails = []
    n = len(ph)
    w = set(wraps_of(ph, step))
    if len(vec) != n:
        return [(what, 'output length %d for %d samples' % (len(vec), n))]
    if not w:
        if any(v != -1 for v in vec):
            fails.append((what, 'wrap-free series must yield no cycles, got %s' % vec))
        return fails
    labs = [v for v in vec if v != -1]
    if any(v < -1 for v in vec):
        fails.append((what, 'label below -1'))
    firsts = []
    for v in labs:
        if v not in firsts:
            firsts.append(v)
    if firsts != list(range(len(firsts))):
        fails.append((what, 'labels are not 0..K-1 in temporal order: %s' % vec))
    for lab in set(labs):
        idx = [i for i, v in enumerate(vec) if v == lab]
        if idx != list(range(idx[0], idx[-1] + 1)):
            fails.append((what, 'label %d is not one contiguous run: %s' % (lab, vec)))
            continue
        a, b = idx[0], idx[-1]
        if any((i in w) for i in range(a + 1, b + 1)):
            fails.append((what, 'label %d contains an internal phase wrap: %s' % (lab, vec)))
        if not (a == 0 or a in w):
            fails.append((what, 'label %d begins at %d which is neither a wrap nor the start: %s' % (lab, a, vec)))
        if not (b == n - 1 or (b + 1) in w):
            fails.append((what, 'label %d ends at %d, not before a wrap nor at the end of the recording: %s' % (lab, b, vec)))
    if require_cover and any(v == -1 for v in vec):
        fails.append((what, 'all cycles requested, nothing masked, series has a wrap, but samples %s are unlabelled: %s'
                      % ([i for i, v in enumerate(vec) if v == -1], vec)))
    return fails


def segments_of(ph, step):
    n = len(ph)
    w = wraps_of(ph, step)
    if not w:
        return []
    b = [0] + w + [n]
    return [(b[i], b[i + 1]) for i in range(len(b) - 1)]


def criteria(ph, a, b, edge, mask):
    seg = ph[a:b]
    inc = all(seg[i + 1] > seg[i] for i in range(len(seg) - 1))
    start = 0 <= seg[0] <= edge
    end = (TWO_PI - edge) <= seg[-1] <= TWO_PI
    m = True if mask is None else all(mask[a:b])
    return bool(inc and start and end and m)


def oracle_good(ph, step, edge, mask, good_vec, what='get_cycle_vector(return_good=True)'):
    """C13: a wrap-delimited segment is labelled iff it meets the criteria; renumbered in order."""
    fails = []
    segs = segments_of(ph, step)
    exp = [-1] * len(ph)
    count = 0
    for a, b in segs:
        if criteria(ph, a, b, edge, mask):
            for i in range(a, b):
                exp[i] = count
            count += 1
    if list(good_vec) != exp:
        for a, b in segs:
            lab = set(good_vec[a:b]) if len(good_vec) == len(ph) else {None}
            ok = criteria(ph, a, b, edge, mask)
            if ok and lab == {-1}:
                fails.append((what, 'segment [%d,%d) meets every criterion but is not labelled' % (a, b)))
                break
            if (not ok) and lab != {-1}:
                fails.append((what, 'segment [%d,%d) fails a criterion but is labelled %s' % (a, b, sorted(lab))))
                break
        else:
            fails.append((what, 'good cycles are not the order-preserving renumbering: got %s expected %s' % (list(good_vec), exp)))
    return fails


def oracle_flags(ph, step, edge, flags, what="Cycles.metrics['is_good']"):
    segs = segments_of(ph, step)
    exp = [int(criteria(ph, a, b, edge, None)) for a, b in segs]
    if list(flags) != exp:
        return [(what, 'container flags %s but the criteria (phase_edge=%.4f) give %s' % (list(flags), edge, exp))]
    return []


def oracle_all(codes, cfgs, mask=None, do_flags=True):
    """Every C12/C13 oracle on one phase series.  Returns (c12_fails, c13_fails)."""
    from emd import cycles
    ph = [c / UNIT for c in codes]
    pha = np.array(ph)
    m = None if mask is None else np.array(mask, dtype=bool)
    f12, f13 = [], []
    for step, edge in cfgs:
        try:
            allv = [int(x) for x in cycles.get_cycle_vector(pha, return_good=False, mask=m, phase_step=step,
                                                            phase_edge=edge).reshape(-1)]
            f12 += oracle_partition(ph, step, allv, mask is None, 'get_cycle_vector(return_good=False)')
        except Exception as e:
            f12.append(('get_cycle_vector(return_good=False)', 'detection failed: %s: %s' % (type(e).__name__, e)))
        try:
            good = [int(x) for x in cycles.get_cycle_vector(pha, return_good=True, mask=m, phase_step=step,
                                                            phase_edge=edge).reshape(-1)]
            f12 += oracle_partition(ph, step, good, False, 'get_cycle_vector(return_good=True)')
            f13 += oracle_good(ph, step, edge, mask, good)
        except Exception as e:
            f12.append(('get_cycle_vector(return_good=True)', 'detection failed: %s: %s' % (type(e).__name__, e)))
            f13.append(('get_cycle_vector(return_good=True)', 'good-cycle selection failed: %s: %s' % (type(e).__name__, e)))
        if do_flags and mask is None and wraps_of(ph, step):
            fl = impl_flags(pha, step, edge)
            if fl[0] == -2:
                f13.append(("Cycles.metrics['is_good']", 'container construction failed'))
            else:
                f13 += oracle_flags(ph, step, edge, fl[1:])
            # the same phase handed over as a single column (n,1) - the layout frequency_transform returns for one IMF
            flc = impl_flags(pha[:, None], step, edge)
            if flc[0] == -2:
                f13.append(("Cycles.metrics['is_good']", 'container construction failed for the phase given as a single column (n,1)'))
            else:
                f13 += oracle_flags(ph, step, edge, flc[1:], what="Cycles.metrics['is_good'] (phase given as a column (n,1))")
    return f12, f13


# ------------------------------------------------------------------ parallel enumeration worker
_W = {}


def _worker(args):
    ln, start, n = args
    cfgs = _W['cfgs']
    outs, f12, f13, nt = [], [], [], 0
    for idx in range(start, start + n):
        codes = seq_of_index(ln, idx)
        outs.append(impl_run_cv(codes, cfgs))
        a, b = oracle_all(codes, cfgs)
        if a:
            f12.append((codes, a[:3]))
        if b:
            f13.append((codes, b[:3]))
        if wraps_of(codes, _W['min_step_code']):
            nt += 1
    return ln, start, n, common.block_hash(outs), f12[:5], f13[:5], nt


def enumerate_domain(ctx, lengths, cfgs, bsize=625):
    """Exhaustive comparison over every sequence of the given lengths.
    Returns (c12_fails, c13_fails, mismatching blocks)."""
    coded = [code_cfg(s, e) for s, e in cfgs]
    _W['cfgs'] = cfgs
    _W['min_step_code'] = min(c[0] for c in coded)
    jobs = []
    for ln in lengths:
        jobs += [(ln, s, n) for s, n in common.enum_blocks(len(ALPHABET) ** ln, bsize)]
    with mp.Pool(12) as pool:
        res = pool.map(_worker, jobs, chunksize=1)
    f12, f13, bad = [], [], []
    by_len = {}
    for ln, start, n, h, a, b, nt in res:
        by_len.setdefault(ln, []).append((start, n, h))
        f12 += a
        f13 += b
        ctx.evaluations += n
        ctx.hist['len%d' % ln] += n
        ctx.extra['nontrivial_enumerated'] = ctx.extra.get('nontrivial_enumerated', 0) + nt
        ctx.exact_cmp += n
    for ln, blocks in by_len.items():
        fexpr = 'fun idx => run_cv %s None (seq_of_index %s %d%%nat idx)' % (common.zlistlist(coded), zlist(ALPHABET), ln)
        mh = ctx.model_block_hashes(IMPORTS, fexpr, [(s, n) for s, n, _ in blocks])
        for (s, n, h), m in zip(blocks, mh):
            if h != m:
                bad.append((ln, s, n, fexpr))
    return f12, f13, bad


def locate_mismatch(ctx, ln, start, n, fexpr, cfgs):
    mh = ctx.model_index_hashes(IMPORTS, fexpr, start, n)
    for k in range(n):
        codes = seq_of_index(ln, start + k)
        out = impl_run_cv(codes, cfgs)
        if common.hashL(out) != mh[k]:
            return codes, out, ctx.model_index_output(IMPORTS, fexpr, start + k)
    return None, None, None


def masked_cases(ctx, n):
    """Random phase series (sawtooth-like with defects) with random / block masks, as explicit cases."""
    cases = []
    for _ in range(n):
        ln = ctx.rng.randint(3, 14)
        codes, cur = [], ctx.rng.choice(ALPHABET)
        for _ in range(ln):
            codes.append(cur)
            i = ALPHABET.index(cur)
            r = ctx.rng.random()
            if r < 0.7:
                cur = ALPHABET[(i + 1) % 5]
            elif r < 0.85:
                cur = ALPHABET[(i + 2) % 5]
            else:
                cur = ctx.rng.choice(ALPHABET)
        kind = ctx.rng.choice(['random', 'block', 'alltrue'])
        if kind == 'random':
            mask = [ctx.rng.random() < 0.85 for _ in range(ln)]
        elif kind == 'block':
            a = ctx.rng.randint(0, ln - 1)
            b = ctx.rng.randint(a, ln)
            mask = [not (a <= i < b) for i in range(ln)]
        else:
            mask = [True] * ln
        cases.append((codes, mask, kind))
    return cases


def long_cases(ctx, n):
    """Long synthetic phases with variable, noisy and occasionally reversing frequency (codes 0..50)."""
    cases = []
    for _ in range(n):
        ln = ctx.rng.randint(40, 300)
        codes, cur = [], ctx.rng.randint(0, 50)
        for _ in range(ln):
            codes.append(cur)
            stepv = ctx.rng.choice([1, 2, 3, 5, 8, 13])
            if ctx.rng.random() < 0.05:
                stepv = -ctx.rng.choice([1, 2, 4])
            cur = cur + stepv
            if cur > 50:
                cur -= 50
            if cur < 0:
                cur += 50
        cases.append(codes)
    return cases
