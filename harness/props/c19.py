"""C19 - array inputs are layout-insensitive, validated and never modified.

PROOF          coq/props/Prop_C19.v  (model: coq/model/Shapes.v, lemmas: coq/proofs/ShapesFacts.v)
               shapes of ANY rank through ensure_vector / ensure_1d_with_singleton / ensure_2d / ensure_equal_dims
CORRESPONDENCE (1) every shape of rank <= 3 over dimensions {1,2,3,5} (+ rank 0, rank 4, zero-length axes) through the
               three normalisers, singly and in pairs: accepted -> resulting shape(s) and untouched data, rejected ->
               error class, exact; (2) ensure_equal_dims on every pair (and triples of a subset) x dim in
               {None,0,1,2,3}; (3) the composite validation of hilberthuang / phase_align / bin_by_phase /
               get_cycle_vector(mask=) at the entry point: the routine returns iff the model accepts
ORACLE         (NOT proved - statements about the Python heap and about floating-point results of the real routines)
               for every public numeric entry point: identical results across the layouts its contract accepts,
               an exception for multi-column input to the single-signal sift routines and for mismatched lengths,
               byte-identical arrays and option dictionaries after every call, read-only inputs accepted,
               a repeated deterministic call byte-identical; the accepted layouts also compared under non-default option
               sets (energy_thresh x stop method, pad_width, parabolic_extrema, interpolation / transform methods),
               every returned component (arrays, flags, tuples)
"""
import copy
import itertools
import logging
import os
import tempfile
import warnings

import numpy as np

import common

IMPORTS = 'From EmdV Require Import lib.NpLite model.Shapes.'
ALPHA = [1, 2, 3, 5]
EXTRA_SHAPES = [[5, 1, 1, 1], [1, 1, 1, 1], [5, 1, 2, 1], [2, 1, 1, 1], [3, 2, 1, 1], [5, 1, 1, 2], [2, 2, 2, 2],
                [0], [0, 1], [5, 0], [0, 1, 1], [5, 0, 1], [0, 2], [5, 1, 0]]
ENSURE_NAMES = ['ensure_vector', 'ensure_1d_with_singleton', 'ensure_2d']
DIMS = [-1, 0, 1, 2, 3]
ERR = {-1: 'IndexError', -2: 'ValueError', -9: 'another exception'}


def quiet():
    logging.disable(logging.CRITICAL)


# ------------------------------------------------------------------ snapshots / comparison
def snap(o):
    """Type-sensitive, byte-exact picture of a (nested) argument: tuple != list, dtype/shape/bytes of arrays."""
    if isinstance(o, np.ndarray) and o.dtype == object:
        return ('obj', tuple(o.shape), tuple(snap(v) for v in o.reshape(-1)))
    if isinstance(o, np.ndarray):
        return ('nd', str(o.dtype), tuple(o.shape), bool(o.flags.writeable), np.ascontiguousarray(o).tobytes())
    if isinstance(o, dict):
        return ('dict', tuple((repr(k), snap(v)) for k, v in o.items()))
    if isinstance(o, tuple):
        return ('tuple', tuple(snap(v) for v in o))
    if isinstance(o, list):
        return ('list', tuple(snap(v) for v in o))
    if hasattr(o, 'store') and hasattr(o, 'sift_type'):
        return ('SiftConfig', o.sift_type, snap(o.store))
    return (type(o).__name__, repr(o))


def describe(o, depth=0):
    if isinstance(o, np.ndarray):
        return 'array%s' % (tuple(o.shape),) if o.size > 6 else 'array(%s)' % o.tolist()
    if isinstance(o, dict):
        return '{' + ', '.join('%r: %s' % (k, describe(v)) for k, v in o.items()) + '}'
    return repr(o)


def canon(r):
    """Result of a routine as bytes-comparable data."""
    if isinstance(r, tuple) or isinstance(r, list):
        return ('seq', tuple(canon(v) for v in r))
    if hasattr(r, 'toarray') and not isinstance(r, np.ndarray):
        r = r.toarray()
    if isinstance(r, np.matrix):
        r = np.asarray(r)
    if isinstance(r, np.ndarray) and r.dtype == object:
        return ('obj', tuple(r.shape), tuple(repr(v) for v in r.reshape(-1)))   # bytes would be addresses
    if isinstance(r, np.ndarray):
        return ('nd', str(r.dtype), tuple(r.shape), np.ascontiguousarray(r).tobytes())
    if isinstance(r, (np.generic,)):
        return ('sc', repr(r.item()))
    return ('py', repr(r))


def result_summary(r):
    if isinstance(r, (tuple, list)):
        return '(' + ', '.join(result_summary(v) for v in r) + ')'
    if hasattr(r, 'shape'):
        return 'array of shape %s' % (tuple(r.shape),)
    return repr(r)


# ------------------------------------------------------------------ (1)(2) ensure_* correspondence
def all_shapes():
    out = [[]] + [[a] for a in ALPHA] + [[a, b] for a in ALPHA for b in ALPHA]
    out += [[a, b, c] for a in ALPHA for b in ALPHA for c in ALPHA]
    return out + EXTRA_SHAPES


def coq_shape(s):
    return '[' + '; '.join('%d' % d for d in s) + ']%nat'


def coq_shapes(l):
    return '[' + '; '.join(coq_shape(s) for s in l) + ']'


def mk_array(s, salt=0):
    size = int(np.prod(s)) if len(s) else 1
    return (np.arange(size, dtype=float) + 100 * salt).reshape(s)


def render_shape(s):
    return [len(s)] + [int(d) for d in s]


def err_code(e):
    return -1 if isinstance(e, IndexError) else (-2 if isinstance(e, ValueError) else -9)


def impl_ensure(which, shapes):
    """-> (rendered outcome, note about anything the shape model cannot say: data changed / wrong return form)."""
    from emd import support
    fn = getattr(support, ENSURE_NAMES[which])
    arrs = [mk_array(s, i) for i, s in enumerate(shapes)]
    before = [a.copy() for a in arrs]
    try:
        out = fn(arrs, ['a%d' % i for i in range(len(arrs))], 'c19')
    except Exception as e:
        return [err_code(e)], None
    note = None
    if len(arrs) == 1:
        if not isinstance(out, np.ndarray):
            note = 'a single input did not come back as an array'
        out = [out]
    elif not isinstance(out, list) or len(out) != len(arrs):
        note = 'did not return one array per input'
    r = [len(out)]
    for a, b, o in zip(arrs, before, out):
        r += render_shape(o.shape)
        if not np.array_equal(a, b):
            note = 'the input array was modified'
        if o.size != b.size or not np.array_equal(np.asarray(o).reshape(-1), b.reshape(-1)):
            note = 'the normalised array does not hold the input data in the same order'
    return r, note


def impl_equal_dims(dim, shapes):
    from emd import support
    arrs = [mk_array(s, i) for i, s in enumerate(shapes)]
    try:
        r = support.ensure_equal_dims(arrs, ['a%d' % i for i in range(len(arrs))], 'c19', dim=None if dim < 0 else dim)
    except Exception as e:
        return [err_code(e)]
    return [0] if r is None else [7]


def layout_ok_for_e1d(s):
    """single_signal_layout of the model: (n,), (n,1), (n,1,..,1)."""
    return len(s) >= 1 and all(d == 1 for d in s[1:])


def oracle_ensure(which, shapes, out, note):
    """What the property demands of the normalisers themselves (only the clauses it states)."""
    if note:
        return note
    if which == 1 and len(shapes) == 1:
        s = shapes[0]
        if len(s) >= 1 and not layout_ok_for_e1d(s) and out[0] >= 0:
            return ('ensure_1d_with_singleton accepted the multi-column shape %s (returned shape %s) instead of raising'
                    % (tuple(s), tuple(out[2:])))
        if layout_ok_for_e1d(s) and (s[0] != 1 or len(s) <= 2) and out != [1, 2, s[0], 1]:
            return 'ensure_1d_with_singleton did not normalise %s to (%d, 1): %s' % (tuple(s), s[0], out)
    if which == 0 and len(shapes) == 1 and len(shapes[0]) >= 1:
        s = shapes[0]
        if (len(s) == 1 or (len(s) == 2 and s[1] == 1)) and out != [1, 1, s[0]]:
            return 'ensure_vector did not normalise %s to (%d,): %s' % (tuple(s), s[0], out)
        if len(s) >= 2 and int(np.prod(s[1:])) != 1 and out[0] >= 0:
            return ('ensure_vector accepted the multi-column shape %s (returned shape %s) instead of raising'
                    % (tuple(s), tuple(out[2:])))
    return None


def run_ensure_correspondence(ctx):
    """Enumeration is done inside Coq; large blocks come back as one hash per row (all partners of one shape)."""
    quiet()
    shapes = all_shapes()
    sub = shapes if not ctx.quick() else [s for i, s in enumerate(shapes) if i % 3 == 0 or len(s) <= 1 or s in EXTRA_SHAPES]
    tri = [[], [5], [3], [5, 1], [5, 2], [3, 1], [1, 5], [5, 1, 1], [5, 2, 3], [5, 2, 1], [2, 5, 3], [5, 1, 1, 1]]
    body = ('Definition SH : list shape := shapes_upto3 %s ++ %s.\n' % (coq_shape(ALPHA), coq_shapes(EXTRA_SHAPES))
            + 'Definition SUB : list shape := %s.\nDefinition TRI : list shape := %s.\n' % (coq_shapes(sub), coq_shapes(tri))
            + 'Eval vm_compute in (map (fun s => Z.of_nat (List.length s)) SH).\n'
            + 'Eval vm_compute in (flat_map (fun w => map (fun s => run_ensure w [s]) SH) [0; 1; 2]).\n'
            + 'Eval vm_compute in (flat_map (fun w => map (fun a => hashL (map (fun b => hashL (run_ensure w [a; b])) SUB)) SUB) [0; 1; 2]).\n'
            + 'Eval vm_compute in (flat_map (fun d => map (fun a => hashL (map (fun b => hashL (run_equal_dims d [a; b])) SH)) SH) %s).\n' % common.zlist(DIMS)
            + 'Eval vm_compute in (flat_map (fun d => flat_map (fun a => map (fun b => hashL (map (fun c => hashL (run_equal_dims d [a; b; c])) TRI)) TRI) TRI) %s).\n' % common.zlist(DIMS)
            + 'Eval vm_compute in (flat_map (fun d => map (fun s => hashL (run_equal_dims d [s])) SH) %s ++ map (fun d => hashL (run_equal_dims d [])) %s).\n'
            % (common.zlist(DIMS), common.zlist(DIMS)))
    ranks, single, pairs, eq2, eq3, eq1 = ctx.coq_eval(IMPORTS, body)
    if ranks != [len(s) for s in shapes]:
        raise RuntimeError('shape enumeration differs between Coq and Python')
    bad = []

    def mismatch(kind, inp, impl, model):
        if not bad:
            bad.append((kind, inp, impl, model))

    def locate(kind, expr, row_cases, row_outs, mk_input):
        """A row hash differs: ask the model for the row and find the first differing cell."""
        if bad:
            return
        mo = ctx.model_outputs(IMPORTS, [coq_shapes(c) for c in row_cases], expr, shard=400)
        for c, o, m in zip(row_cases, row_outs, mo):
            if o != m:
                return mismatch(kind, mk_input(c), o, m)
        mismatch(kind, mk_input(row_cases[0]), 'row hash differs', 'no differing cell found')

    # single arrays (full outputs)
    k = 0
    for w in range(3):
        for s in shapes:
            out, note = impl_ensure(w, [s])
            ctx.count(('e1', w, s), len(s) >= 2, '%s:%s' % (ENSURE_NAMES[w], 'accepted' if out[0] >= 0 else ERR[out[0]]))
            ctx.exact_cmp += 1
            viol = oracle_ensure(w, [s], out, note)
            if viol:
                ctx.problem('impl-violation', ENSURE_NAMES[w], viol, input=dict(check='ensure', which=w, shapes=[s]),
                            observed=out, expected=single[k], tags=dict(check='ensure', rank=len(s)))
            elif out != single[k]:
                mismatch(ENSURE_NAMES[w], dict(check='ensure', which=w, shapes=[s]), out, single[k])
            k += 1
    # pairs
    k = 0
    for w in range(3):
        for a in sub:
            outs = []
            for b in sub:
                out, note = impl_ensure(w, [a, b])
                outs.append(out)
                ctx.count(('e2', w, a, b), len(a) >= 2 or len(b) >= 2, '%s-pair:%s' % (ENSURE_NAMES[w], 'accepted' if out[0] >= 0 else ERR[out[0]]))
                ctx.exact_cmp += 1
                if note:
                    ctx.problem('impl-violation', ENSURE_NAMES[w], note, input=dict(check='ensure', which=w, shapes=[a, b]), observed=out)
            if common.hashL([common.hashL(o) for o in outs]) != pairs[k]:
                locate(ENSURE_NAMES[w], 'fun l => run_ensure %d l' % w, [[a, b] for b in sub], outs,
                       lambda c, w=w: dict(check='ensure', which=w, shapes=c))
            k += 1
    # ensure_equal_dims
    k = 0
    for d in DIMS:
        for a in shapes:
            outs = []
            for b in shapes:
                out = impl_equal_dims(d, [a, b])
                outs.append(out)
                ctx.count(('q2', d, a, b), a != b, 'equal_dims(dim=%s):%s' % ('None' if d < 0 else d, 'accepted' if out[0] >= 0 else ERR[out[0]]))
                ctx.exact_cmp += 1
            if common.hashL([common.hashL(o) for o in outs]) != eq2[k]:
                locate('ensure_equal_dims', 'fun l => run_equal_dims (%d) l' % d, [[a, b] for b in shapes], outs,
                       lambda c, d=d: dict(check='equal_dims', dim=d, shapes=c))
            k += 1
    k = 0
    for d in DIMS:
        for a in tri:
            for b in tri:
                outs = []
                for c in tri:
                    out = impl_equal_dims(d, [a, b, c])
                    outs.append(out)
                    ctx.count(('q3', d, a, b, c), True, 'equal_dims-triple:%s' % ('accepted' if out[0] >= 0 else ERR[out[0]]))
                    ctx.exact_cmp += 1
                if common.hashL([common.hashL(o) for o in outs]) != eq3[k]:
                    locate('ensure_equal_dims', 'fun l => run_equal_dims (%d) l' % d, [[a, b, c] for c in tri], outs,
                           lambda c, d=d: dict(check='equal_dims', dim=d, shapes=c))
                k += 1
    k = 0
    for lst in [[[s] for s in shapes], [[]]]:
        for d in DIMS:
            for l in lst:
                out = impl_equal_dims(d, l)
                ctx.count(('q1', d, l), False, 'equal_dims-single')
                ctx.exact_cmp += 1
                if common.hashL(out) != eq1[k]:
                    mismatch('ensure_equal_dims', dict(check='equal_dims', dim=d, shapes=l), out, 'hash %d' % eq1[k])
                k += 1
    ctx.sample(dict(ensure='ensure_1d_with_singleton', shapes=[[5, 1, 1]], model=single[len(shapes) + shapes.index([5, 1, 1])]))
    ctx.sample(dict(ensure='ensure_1d_with_singleton', shapes=[[5, 2]], model=single[len(shapes) + shapes.index([5, 2])]))
    return bad[0] if bad else None


# ------------------------------------------------------------------ (3) composite validation at the entry points
VAL_SHAPES = [[6], [7], [6, 1], [7, 1], [6, 2], [1, 6], [6, 1, 1], [6, 2, 1], [6, 1, 2]]


def incr_phase(n):
    return np.linspace(0.2, 6.0, n)


def fill(s, base):
    """An array of shape s whose every column along axis 0 is `base` (length s[0]) plus a column offset."""
    a = np.zeros(s)
    idx = (slice(None),) + (None,) * (len(s) - 1)
    a = a + base[idx]
    return a + 1e-3 * np.arange(int(np.prod(s[1:])) if len(s) > 1 else 1).reshape((1,) + tuple(s[1:]))


def impl_validate(which, a, b, w=None):
    """Run the real routine on arrays of the given shapes; [1] returned / [-k] raised."""
    from emd import spectra, cycles
    n = a[0]
    try:
        with common.time_limit(20):
            if which == 0:
                infr = fill(a, np.linspace(1.0, 9.0, a[0]))
                inam = fill(b, np.linspace(1.0, 2.0, b[0]))
                spectra.hilberthuang(infr, inam, np.linspace(0, 10, 6))
            elif which == 1:
                ip = fill(a, incr_phase(a[0]))
                x = fill(b, np.linspace(1.0, 2.0, b[0]))
                cycles.phase_align(ip, x, cycles=np.zeros(n, dtype=int), npoints=8)
            elif which == 2:
                ip = fill(a, incr_phase(a[0]))
                x = fill(b, np.linspace(1.0, 2.0, b[0]))
                cycles.bin_by_phase(ip, x, nbins=4)
            elif which == 3:
                ph = fill(a, incr_phase(a[0]))
                mask = np.ones(b, dtype=bool)
                cycles.get_cycle_vector(ph, return_good=False, mask=mask)
    except Exception as e:
        return [err_code(e)]
    return [1]


def run_validate_correspondence(ctx):
    quiet()
    cases = [(w, a, b) for w in range(4) for a in VAL_SHAPES for b in VAL_SHAPES]
    lits = ['(%d, %s, %s)' % (w, coq_shape(a), coq_shape(b)) for w, a, b in cases]
    mo = ctx.model_outputs(IMPORTS, lits, "fun c => let '(w, a, b) := c in run_validate w a b []", shard=400)
    names = ['hilberthuang', 'phase_align', 'bin_by_phase', 'get_cycle_vector(mask=)']
    bad = None
    for (w, a, b), m in zip(cases, mo):
        # the routine's own documented contract beyond the validators: 2-d [samples x imfs] inputs for hilberthuang,
        # vectors for phase_align, a vector ip for bin_by_phase; shapes outside that are compared on rejection only
        out = impl_validate(w, a, b)
        ctx.count(('val', w, a, b), a[0] != b[0], '%s:%s' % (names[w], 'returned' if out[0] > 0 else 'raised'))
        ctx.exact_cmp += 1
        model_ok = m[0] >= 0
        if a[0] != b[0] and out[0] > 0:
            ctx.problem('impl-violation', names[w], 'arrays of %d and %d samples (shapes %s and %s) were processed instead of being rejected'
                        % (a[0], b[0], tuple(a), tuple(b)), input=dict(check='validate', which=w, a=a, b=b),
                        observed='returned', expected='an exception', tags=dict(check='mismatch'))
        elif model_ok != (out[0] > 0) and not (model_ok and max(len(a), len(b)) > 2):
            # (model accepts but the routine fails later on >2-d data: outside every documented contract, not compared)
            if bad is None:
                bad = (names[w], dict(check='validate', which=w, a=a, b=b), out, m)
    return bad


# ------------------------------------------------------------------ oracle: the public entry points
def base_signal(k, n):
    t = np.arange(n, dtype=float)
    return (np.sin(2 * np.pi * t / (12.0 + k)) * (1 + 0.3 * np.sin(2 * np.pi * t / 90.0))
            + 0.5 * np.sin(2 * np.pi * t / (5.3 + 0.1 * k)) + 0.003 * t)


def other_signal(k, n):
    t = np.arange(n, dtype=float)
    return np.cos(2 * np.pi * t / (7.0 + k)) + 0.2 * np.sin(2 * np.pi * t / 31.0)


def lay(x, layout, k=0):
    """The signal x in a named layout."""
    n = x.shape[0]
    if layout == 'n':
        return x.copy()
    if layout == 'n1':
        return x.reshape(n, 1).copy()
    if layout == 'n11':
        return x.reshape(n, 1, 1).copy()
    if layout == 'n111':
        return x.reshape(n, 1, 1, 1).copy()
    if layout == 'n2':
        return np.c_[x, other_signal(k, n)]
    if layout == '1n':
        return x.reshape(1, n).copy()
    if layout == 'n23':
        return np.stack([np.c_[x, other_signal(k, n)]] * 3, axis=2) + np.arange(3)[None, None, :] * 0.1
    raise ValueError(layout)


def sift_opts():
    return dict(imf_opts={'env_step_size': 1, 'sd_thresh': .1, 'stop_method': 'sd', 'rilling_thresh': (0.05, 0.5, 0.05),
                          'max_iters': 1000, 'energy_thresh': 50},
                envelope_opts={'interp_method': 'splrep'},
                extrema_opts={'pad_width': 2, 'parabolic_extrema': False,
                              'loc_pad_opts': {'mode': 'reflect', 'reflect_type': 'odd'},
                              'mag_pad_opts': {'mode': 'median', 'stat_length': 1}})


class Data:
    """Per-signal reference data (computed once with the implementation; used only as inputs)."""
    _cache = {}

    @classmethod
    def get(cls, k, n):
        if (k, n) not in cls._cache:
            from emd import sift, spectra, cycles
            quiet()
            x = base_signal(k, n)
            with common.time_limit(60):
                imf = sift.sift(x, max_imfs=3)
                IP, IF, IA = spectra.frequency_transform(imf, 1, 'hilbert')
                cv = cycles.get_cycle_vector(IP[:, 0], return_good=False)[:, 0]
            rs = np.random.RandomState(1900 + k)
            d = dict(x=x, imf=imf, IP=IP, IF=IF, IA=IA, cv=cv,
                     IF2=np.abs(rs.randn(n, imf.shape[1], 2)) * 0.05 + 0.01, IA2=np.abs(rs.randn(n, imf.shape[1], 2)) + 0.1,
                     edges=np.linspace(0, 0.5, 9), edges2=np.linspace(0, 0.2, 5))
            cls._cache[(k, n)] = d
        return cls._cache[(k, n)]


def seeded(f):
    def g(*a, **kw):
        st = np.random.get_state()
        np.random.seed(1919)
        try:
            return f(*a, **kw)
        finally:
            np.random.set_state(st)
    return g


def E(name, group, build, call, layouts=(), rejects=(), mism=(), deterministic=True, tier='quick'):
    return dict(name=name, group=group, build=build, call=call, layouts=layouts, rejects=rejects, mism=mism,
                deterministic=deterministic, tier=tier)


def entries():
    """name, group, build(d, variant) -> (arrays dict, options dict), call(arrays, options).
    variant: 'ref' | a layout name applied to the primary signal(s) | a mismatch name."""
    from emd import sift, spectra, cycles, utils
    L = []
    SIFT_ACCEPT = ('n1', 'n11')
    SIFT_REJECT = ('n2', '1n', 'n23')

    def b_sig(d, v, k=0):
        return dict(X=lay(d['x'], 'n' if v == 'ref' else v, k)), sift_opts()

    L.append(E('sift', 'sift', b_sig, lambda a, o: sift.sift(a['X'], max_imfs=3, **o), SIFT_ACCEPT + ('n111',), SIFT_REJECT))
    L.append(E('get_next_imf', 'sift', b_sig,
               lambda a, o: sift.get_next_imf(a['X'], envelope_opts=o['envelope_opts'], extrema_opts=o['extrema_opts'], **o['imf_opts']),
               SIFT_ACCEPT, SIFT_REJECT))
    L.append(E('get_next_imf_mask', 'sift', b_sig,
               lambda a, o: sift.get_next_imf_mask(a['X'], 0.12, 1.0, nphases=4, **o), SIFT_ACCEPT, SIFT_REJECT))
    L.append(E('mask_sift', 'sift', b_sig, lambda a, o: sift.mask_sift(a['X'], max_imfs=3, **o), SIFT_ACCEPT, SIFT_REJECT))
    L.append(E('mask_sift(mask_freqs=array)', 'sift',
               lambda d, v: (dict(X=lay(d['x'], 'n' if v == 'ref' else v), mask_freqs=np.array([.2, .1, .05]), mask_amp=np.array([1., 1., .5])), sift_opts()),
               lambda a, o: sift.mask_sift(a['X'], mask_freqs=a['mask_freqs'], mask_amp=a['mask_amp'], mask_amp_mode='ratio_sig',
                                           ret_mask_freq=True, **o), ('n1',), ('n2',)))
    L.append(E('ensemble_sift', 'sift', b_sig,
               seeded(lambda a, o: sift.ensemble_sift(a['X'], nensembles=2, max_imfs=2, nprocesses=1, **o)), SIFT_ACCEPT, SIFT_REJECT))
    L.append(E('complete_ensemble_sift', 'sift', b_sig,
               seeded(lambda a, o: sift.complete_ensemble_sift(a['X'], nensembles=2, max_imfs=2, nprocesses=1, **o)), SIFT_ACCEPT, SIFT_REJECT))

    # envelope / extrema: vector vs single column
    def b_env(d, v):
        return dict(X=lay(d['x'], 'n' if v == 'ref' else v)), dict(extrema_opts=sift_opts()['extrema_opts'])
    for mode in ('upper', 'lower', 'combined'):
        for meth in ('splrep', 'pchip', 'mono_pchip'):
            L.append(E('interp_envelope(%s,%s)' % (mode, meth), 'envelope', b_env,
                       (lambda mode, meth: lambda a, o: sift.interp_envelope(a['X'], mode=mode, interp_method=meth, **o))(mode, meth),
                       ('n1',), tier='quick' if (mode, meth) in (('upper', 'splrep'), ('combined', 'pchip'), ('lower', 'mono_pchip')) else 'thorough'))
    for mode in ('peaks', 'troughs', 'abs_peaks'):
        for par in (False, True):
            L.append(E('get_padded_extrema(%s,parabolic=%s)' % (mode, par), 'envelope',
                       lambda d, v: (dict(X=lay(d['x'], 'n' if v == 'ref' else v)),
                                     dict(loc_pad_opts={'mode': 'reflect', 'reflect_type': 'odd'}, mag_pad_opts={'mode': 'median', 'stat_length': 1})),
                       (lambda mode, par: lambda a, o: sift.get_padded_extrema(a['X'], pad_width=2, mode=mode, parabolic_extrema=par, **o))(mode, par),
                       ('n1',), tier='quick' if (mode, par) in (('peaks', False), ('troughs', True)) else 'thorough'))
    L.append(E('zero_crossing_count', 'envelope', lambda d, v: (dict(X=d['imf'].copy()), {}), lambda a, o: sift.zero_crossing_count(a['X'])))
    L.append(E('is_imf', 'envelope', lambda d, v: (dict(imf=(d['imf'] if v == 'ref' else lay(d['imf'][:, 0], v)).copy()), dict(envelope_opts={}, extrema_opts=sift_opts()['extrema_opts'])),
               lambda a, o: sift.is_imf(a['imf'], **o)))

    # frequency transform: [samples x imfs] or a vector
    for meth in ('hilbert', 'nht', 'quad'):
        L.append(E('frequency_transform(%s)' % meth, 'transform',
                   lambda d, v: (dict(imf=lay(d['imf'][:, 0], 'n' if v == 'ref' else v)), {}),
                   (lambda meth: lambda a, o: spectra.frequency_transform(a['imf'], 1, meth))(meth), ('n1',)))
        L.append(E('frequency_transform(%s) [samples x imfs]' % meth, 'transform', lambda d, v: (dict(imf=d['imf'].copy()), {}),
                   (lambda meth: lambda a, o: spectra.frequency_transform(a['imf'], 1, meth))(meth), tier='quick' if meth == 'hilbert' else 'thorough'))
    L.append(E('quadrature_transform', 'transform', lambda d, v: (dict(X=d['imf'].copy()), {}), lambda a, o: spectra.quadrature_transform(a['X'])))
    L.append(E('phase_from_complex_signal', 'transform',
               lambda d, v: (dict(z=(d['imf'] + 1j * np.roll(d['imf'], 3, axis=0))), {}),
               lambda a, o: spectra.phase_from_complex_signal(a['z'], smoothing=5, ret_phase='unwrapped')))
    L.append(E('freq_from_phase', 'transform', lambda d, v: (dict(ip=np.unwrap(d['IP'], axis=0)), {}), lambda a, o: spectra.freq_from_phase(a['ip'], 1.0)))
    L.append(E('phase_from_freq', 'transform', lambda d, v: (dict(f=d['IF'].copy()), {}), lambda a, o: spectra.phase_from_freq(a['f'], 1.0)))
    L.append(E('wrap_phase', 'transform', lambda d, v: (dict(ip=np.unwrap(d['IP'], axis=0)), {}), lambda a, o: utils.wrap_phase(a['ip'])))

    # amplitude normalisation
    def b_amp(d, v):
        X = d['imf'][:, :2].copy()
        if v == 'n1':
            X = d['imf'][:, :1].copy()
        if v == 'n11':
            X = d['imf'][:, :1, None].copy()
        return dict(X=X), {}
    for clip in (False, True):
        L.append(E('amplitude_normalise(clip=%s)' % clip, 'amplitude', b_amp,
                   (lambda clip: lambda a, o: utils.amplitude_normalise(a['X'], clip=clip))(clip)))
    L.append(E('amplitude_normalise(one imf)', 'amplitude', lambda d, v: b_amp(d, 'n1' if v == 'ref' else v),
               lambda a, o: utils.amplitude_normalise(a['X']).reshape(-1), ('n11',)))

    # spectra
    def b_hht(d, v):
        fr, am = d['IF'][:, 0], d['IA'][:, 0]
        if v == 'ref':
            a = dict(infr=fr.copy(), inam=am.copy())
        elif v == 'n1':
            a = dict(infr=fr[:, None].copy(), inam=am[:, None].copy())
        elif v == 'mixed':
            a = dict(infr=fr.copy(), inam=am[:, None].copy())
        elif v == 'short-inam':
            a = dict(infr=fr.copy(), inam=am[:-1].copy())
        elif v == 'short-infr-2d':
            a = dict(infr=d['IF'][:-3].copy(), inam=d['IA'].copy())
        a['edges'] = d['edges'].copy()
        return a, {}
    for mode in ('energy', 'amplitude'):
        L.append(E('hilberthuang(%s)' % mode, 'spectra', b_hht,
                   (lambda mode: lambda a, o: spectra.hilberthuang(a['infr'], a['inam'], a['edges'], mode=mode))(mode),
                   ('n1', 'mixed'), mism=('short-inam', 'short-infr-2d')))
    L.append(E('hilberthuang(sparse) [samples x imfs]', 'spectra', lambda d, v: (dict(infr=d['IF'].copy(), inam=d['IA'].copy(), edges=d['edges'].copy()), {}),
               lambda a, o: spectra.hilberthuang(a['infr'], a['inam'], a['edges'], return_sparse=True)))

    def b_hht1(d, v):
        a = dict(infr=d['IF'].copy(), inam=d['IA'].copy(), edges=d['edges'].copy())
        if v == 'short-inam':
            a['inam'] = a['inam'][:-1].copy()
        return a, {}
    L.append(E('hilberthuang_1d', 'spectra', b_hht1, lambda a, o: spectra.hilberthuang_1d(a['infr'], a['inam'], a['edges']), mism=('short-inam',)))

    def b_holo(d, v):
        a = dict(infr=d['IF'].copy(), infr2=d['IF2'].copy(), inam2=d['IA2'].copy(), edges=d['edges'].copy(), edges2=d['edges2'].copy())
        if v in ('one-imf', 'n'):
            a.update(infr=d['IF'][:, :1].copy(), infr2=d['IF2'][:, :1].copy(), inam2=d['IA2'][:, :1].copy())
        if v == 'n':
            a['infr'] = a['infr'][:, 0].copy()
        if v == 'short-infr2':
            a['infr2'] = a['infr2'][:-1].copy()
        if v == 'short-inam2':
            a['inam2'] = a['inam2'][:-2].copy()
        if v == 'short-infr':
            a['infr'] = a['infr'][:-1].copy()
        return a, {}
    for sq in ('sum', 'mean', False):
        L.append(E('holospectrum(squash_time=%s)' % sq, 'spectra', b_holo,
                   (lambda sq: lambda a, o: spectra.holospectrum(a['infr'], a['infr2'], a['inam2'], a['edges'], a['edges2'], squash_time=sq))(sq),
                   mism=('short-infr2', 'short-inam2', 'short-infr') if sq == 'sum' else ()))
    L.append(E('holospectrum(one imf)', 'spectra', lambda d, v: b_holo(d, 'one-imf' if v == 'ref' else v),
               lambda a, o: spectra.holospectrum(a['infr'], a['infr2'], a['inam2'], a['edges'], a['edges2']), ('n',)))
    L.append(E('define_hist_bins_from_data', 'spectra', lambda d, v: (dict(X=d['IF'].copy()), {}), lambda a, o: spectra.define_hist_bins_from_data(a['X'])))

    # cycles
    def b_cv(d, v):
        ph = d['IP'][:, 0]
        mask = (d['IA'][:, 0] > np.percentile(d['IA'][:, 0], 10))
        a = dict(phase=ph.copy(), mask=mask.copy())
        if v == 'n1':
            a = dict(phase=ph[:, None].copy(), mask=mask[:, None].copy())
        if v == 'mixed':
            a = dict(phase=ph[:, None].copy(), mask=mask.copy())
        if v == 'short-mask':
            a['mask'] = mask[:-1].copy()
        return a, {}
    for good in (True, False):
        L.append(E('get_cycle_vector(return_good=%s)' % good, 'cycles', b_cv,
                   (lambda good: lambda a, o: cycles.get_cycle_vector(a['phase'], return_good=good))(good), ('n1',)))
        L.append(E('get_cycle_vector(return_good=%s, mask=)' % good, 'cycles', b_cv,
                   (lambda good: lambda a, o: cycles.get_cycle_vector(a['phase'], return_good=good, mask=a['mask']))(good),
                   ('n1', 'mixed'), mism=('short-mask',)))
    L.append(E('get_cycle_vector [samples x imfs]', 'cycles', lambda d, v: (dict(phase=d['IP'].copy()), {}),
               lambda a, o: cycles.get_cycle_vector(a['phase'], return_good=False)))
    # an UNWRAPPED phase (values beyond 2 pi): the routine wraps it internally - in a copy, the caller's array stays as it was
    L.append(E('get_cycle_vector(unwrapped phase)', 'cycles',
               lambda d, v: (dict(phase=(np.unwrap(d['IP'][:, 0])[:, None].copy() if v == 'n1' else np.unwrap(d['IP'][:, 0]).copy())), {}),
               lambda a, o: cycles.get_cycle_vector(a['phase'], return_good=False), ('n1',)))
    L.append(E('phase_align(unwrapped ip, cycles=None)', 'cycles',
               lambda d, v: (dict(ip=np.unwrap(d['IP'][:, 0]).copy(), x=d['IF'][:, 0].copy()), {}),
               lambda a, o: cycles.phase_align(a['ip'], a['x'], npoints=12)))

    def b_stat(d, v):
        a = dict(cycles=d['cv'].copy(), values=d['IF'][:, 0].copy())
        if v == 'n1':
            a = dict(cycles=d['cv'][:, None].copy(), values=d['IF'][:, :1].copy())
        if v == 'values-n1':
            a['values'] = d['IF'][:, :1].copy()
        if v == 'values-n12':
            a['values'] = np.stack([d['IF'][:, :1], d['IA'][:, :1]], axis=2)
        if v == 'short-values':
            a['values'] = a['values'][:-1].copy()
        if v == 'short-cycles':
            a['cycles'] = a['cycles'][:-1].copy()
        return a, {}
    for out in (None, 'samples'):
        L.append(E('get_cycle_stat(out=%s)' % out, 'cycles', b_stat,
                   (lambda out: lambda a, o: cycles.get_cycle_stat(a['cycles'], a['values'], out=out, func=np.mean))(out),
                   ('n1', 'values-n1'), ('values-n12',), mism=('short-values', 'short-cycles')))

    def b_pa(d, v):
        a = dict(ip=d['IP'][:, 0].copy(), x=d['IF'][:, 0].copy(), cycles=d['cv'].copy())
        if v == 'n1':
            a = dict(ip=d['IP'][:, :1].copy(), x=d['IF'][:, :1].copy(), cycles=d['cv'][:, None].copy())
        if v == 'mixed':
            a['x'] = d['IF'][:, :1].copy()
        if v == 'short-x':
            a['x'] = a['x'][:-1].copy()
        if v == 'short-ip':
            a['ip'] = a['ip'][:-1].copy()
        if v == 'short-cycles':
            a['cycles'] = a['cycles'][:-2].copy()
        return a, {}
    L.append(E('phase_align', 'cycles', b_pa, lambda a, o: cycles.phase_align(a['ip'], a['x'], cycles=a['cycles'], npoints=24),
               ('n1', 'mixed'), mism=('short-x', 'short-ip', 'short-cycles')))
    L.append(E('phase_align(cycles=None)', 'cycles', b_pa, lambda a, o: cycles.phase_align(a['ip'], a['x'], npoints=12), ('n1',), mism=('short-x',)))

    def b_bin(d, v):
        a = dict(ip=d['IP'][:, 0].copy(), x=d['IF'][:, :1].copy(), weights=d['IA'][:, 0].copy())
        if v in ('n1', 'ip-n1'):
            a['ip'] = d['IP'][:, :1].copy()
        if v in ('n1', 'weights-n1'):
            a['weights'] = d['IA'][:, :1].copy()
        if v == 'short-x':
            a['x'] = a['x'][:-1].copy()
        if v == 'short-ip':
            a['ip'] = a['ip'][:-1].copy()
        if v == 'short-weights':
            a['weights'] = a['weights'][:-1].copy()
        return a, {}
    for vm in ('variance', 'std'):
        L.append(E('bin_by_phase(%s)' % vm, 'cycles', b_bin, (lambda vm: lambda a, o: cycles.bin_by_phase(a['ip'], a['x'], nbins=12, variance_metric=vm))(vm),
                   ('ip-n1',), mism=('short-x', 'short-ip')))
    L.append(E('bin_by_phase(x vector)', 'cycles', lambda d, v: (dict(ip=lay(d['IP'][:, 0], 'n' if v == 'ref' else v), x=d['IF'][:, 0].copy()), {}),
               lambda a, o: cycles.bin_by_phase(a['ip'], a['x'], nbins=12), ('n1',)))
    L.append(E('bin_by_phase(weights=)', 'cycles', b_bin, lambda a, o: cycles.bin_by_phase(a['ip'], a['x'], nbins=12, weights=a['weights']),
               ('ip-n1', 'weights-n1', 'n1'), mism=('short-x', 'short-weights')))
    L.append(E('get_control_points', 'cycles',
               lambda d, v: (dict(x=lay(d['imf'][:, 0], 'n' if v == 'ref' else v), cycles=(d['cv'][:, None].copy() if v == 'n1' else d['cv'].copy())), {}),
               lambda a, o: cycles.get_control_points(a['x'], a['cycles']), ('n1',)))
    L.append(E('mean_vector', 'cycles', lambda d, v: (dict(IP=d['IP'][:, 0].copy(), X=d['IA'].copy()), {}), lambda a, o: cycles.mean_vector(a['IP'], a['X'])))

    def call_cycles(a, o):
        c = cycles.Cycles(a['IP'])
        return c.cycle_vect, np.asarray(c.metrics['is_good'])
    L.append(E('Cycles(IP)', 'cycles', lambda d, v: (dict(IP=lay(d['IP'][:, 0], 'n' if v == 'ref' else v)), {}), call_cycles, ('n1',)))

    # further public helpers taking arrays (non-mutation / read-only / determinism; layouts where documented)
    L.append(E('get_cycle_vector_from_waveform', 'cycles', lambda d, v: (dict(imf=lay(d['imf'][:, 0], 'n' if v == 'ref' else v)), {}),
               lambda a, o: cycles.get_cycle_vector_from_waveform(a['imf'], cycle_start='peaks'), ('n1', 'n11')))
    L.append(E('is_good', 'cycles', lambda d, v: (dict(phase=d['IP'][:40, 0].copy(), wf=d['imf'][:40, 0].copy()), {}),
               lambda a, o: cycles.is_good(a['phase'], waveform=a['wf'], ret_all_checks=True)))
    L.append(E('get_subset_vector/get_chain_vector', 'cycles', lambda d, v: (dict(valids=(np.arange(12) % 4 != 1)), {}),
               lambda a, o: (cycles.get_subset_vector(a['valids']), cycles.get_chain_vector(cycles.get_subset_vector(a['valids'])))))
    L.append(E('normalised_waveform', 'cycles', lambda d, v: (dict(f=(np.abs(d['IF'][:48, :2]) + 0.01 if v == 'ref' else np.abs(d['IF'][:48, 0]) + 0.01)), {}),
               lambda a, o: cycles.normalised_waveform(a['f'])))
    L.append(E('normalised_waveform(one cycle)', 'cycles', lambda d, v: (dict(f=lay(np.abs(d['IF'][:48, 0]) + 0.01, 'n' if v == 'ref' else v)), {}),
               lambda a, o: cycles.normalised_waveform(a['f']), ('n1',)))
    L.append(E('basis_project', 'cycles', lambda d, v: (dict(X=d['IF'][:48].copy()), {}), lambda a, o: cycles.basis_project(a['X'], ncomps=2)))
    L.append(E('kdt_match', 'cycles', lambda d, v: (dict(x=d['IA'][:20, :2].copy(), y=d['IA'][20:45, :2].copy()), {}),
               lambda a, o: cycles.kdt_match(a['x'], a['y'], K=3)))
    L.append(E('est_orthogonality', 'amplitude', lambda d, v: (dict(imf=d['imf'].copy()), {}), lambda a, o: utils.est_orthogonality(a['imf'])))
    L.append(E('find_extrema_locked_epochs/apply_epochs', 'envelope', lambda d, v: (dict(X=d['x'].copy(), X2=d['imf'].copy()), {}),
               lambda a, o: utils.apply_epochs(a['X2'], utils.find_extrema_locked_epochs(a['X'], 8))))
    L.append(E('get_mask_freqs(zc)', 'sift', lambda d, v: (dict(X=lay(d['x'], 'n1')), dict(imf_opts=sift_opts()['imf_opts'])),
               lambda a, o: sift.get_mask_freqs(a['X'], 'zc', **o)))
    L.append(E('get_mask_freqs(if)', 'sift', lambda d, v: (dict(X=lay(d['x'], 'n1')), dict(imf_opts=sift_opts()['imf_opts'])),
               lambda a, o: sift.get_mask_freqs(a['X'], 'if', **o)))
    L.append(E('sd_stop/rilling_stop/energy_stop', 'sift',
               lambda d, v: (dict(a=d['imf'][:, :1].copy(), b=d['imf'][:, 1:2].copy(), up=np.abs(d['IA'][:, 0]) + 1, lo=-np.abs(d['IA'][:, 0]) - 0.9), {}),
               lambda a, o: (sift.sd_stop(a['a'], a['b']), sift.rilling_stop(a['up'], a['lo']), sift.energy_stop(a['a'], a['b']))))
    return L


def run_entry(entry, d, variant, readonly=False, limit=60):
    """-> dict(status='ok'|'raised'|'timeout', result=canon, exc=..., mutated=[...])."""
    quiet()
    arrs, opts = entry['build'](d, variant)
    if readonly:
        for a in arrs.values():
            a.setflags(write=False)
    before_a = {k: snap(v) for k, v in arrs.items()}
    before_o = snap(opts)
    pic_o = copy.deepcopy(opts)
    out = dict(mutated=[])
    try:
        with common.time_limit(limit):
            r = entry['call'](arrs, opts)
        out.update(status='ok', result=canon(r), summary=result_summary(r))
    except common.Timeout:
        out.update(status='timeout', exc='still computing after %d s' % limit)
    except Exception as e:
        out.update(status='raised', exc='%s: %s' % (type(e).__name__, str(e)[:160]), exc_type=type(e).__name__)
    for k, v in arrs.items():
        if snap(v) != before_a[k]:
            out['mutated'].append('array argument %r was modified' % k)
    if snap(opts) != before_o:
        for k in opts:
            if snap(opts[k]) != snap(pic_o[k]):
                out['mutated'].append('option dictionary %r was modified: %s -> %s' % (k, describe(pic_o[k]), describe(opts[k])))
    return out


def container_mismatch_fails(k, n):
    """mismatched lengths with the cycles given as a Cycles CONTAINER or its iterator (not a label vector): the values / phase
    array one sample short must be rejected with an error by get_cycle_stat, phase_align and get_control_points alike.
    returns [(routine, how, message)]"""
    from emd import cycles
    d = Data.get(k, n)
    fails = []
    ip = d['IP'][:, 0].copy()
    for how in ('Cycles object', 'Cycles.iterate()'):
        for routine in ('get_cycle_stat', 'phase_align', 'get_control_points'):
            for delta in (-1, 16):
                C = cycles.Cycles(ip)
                arg = C if how == 'Cycles object' else C.iterate()
                resize = (lambda v: v[:delta].copy()) if delta < 0 else (lambda v: np.r_[v, v[:delta]].copy())
                r_ip, r_f, r_x = resize(ip), resize(d['IF'][:, 0]), resize(d['imf'][:, 0])
                call = {'get_cycle_stat': lambda: cycles.get_cycle_stat(arg, r_f, func=np.mean),
                        'phase_align': lambda: cycles.phase_align(r_ip, r_f, cycles=arg, npoints=12),
                        'get_control_points': lambda: cycles.get_control_points(r_x, arg)}[routine]
                try:
                    with warnings.catch_warnings():
                        warnings.simplefilter('ignore')
                        with common.time_limit(60):
                            call()
                except common.Timeout:
                    continue
                except Exception:                                       # noqa - rejected: what the property asks for
                    continue
                fails.append((routine, how, '%s with the cycles given as a %s over %d samples and a data array of %d samples returned a '
                              'result instead of rejecting the mismatched lengths' % (routine, how, len(ip), len(ip) + delta)))
    return fails


def check_entry(ctx, entry, k, n, report=True):
    """All C19 clauses for one entry point on signal k.  Returns list of (check, variant, message)."""
    fails = []
    d = Data.get(k, n)
    name = entry['name']

    def fail(check, variant, msg, observed=None, expected=None):
        fails.append((check, variant, msg))
        if report:
            ctx.problem('impl-violation', name, msg, input=dict(check=check, entry=name, variant=variant, signal=k, n=n),
                        observed=observed, expected=expected, tags=dict(check=check, variant=variant, group=entry['group']))

    ref = run_entry(entry, d, 'ref')
    ctx.count((name, k, 'ref'), True, '%s:reference' % entry['group'])
    if ref['mutated']:
        fail('mutation', 'ref', '; '.join(ref['mutated']))
    if ref['status'] != 'ok':
        # the documented reference layout itself does not run: not a C19 matter (other properties own it); nothing to compare
        ctx.discarded += 1
        ctx.notes.append('%s: reference call %s (%s) - layout/readonly/determinism comparisons skipped' % (name, ref['status'], ref.get('exc')))
        return fails
    # (d) determinism
    if entry['deterministic']:
        again = run_entry(entry, d, 'ref')
        ctx.count((name, k, 'again'), True, '%s:repeat' % entry['group'])
        ctx.exact_cmp += 1
        if again['status'] != 'ok' or again['result'] != ref['result']:
            fail('determinism', 'ref', 'the same call repeated gives a different result (%s)' % again.get('exc', 'values differ'))
        if again['mutated'] and not ref['mutated']:
            fail('mutation', 'ref', '; '.join(again['mutated']))
    # (c) read-only inputs
    ro = run_entry(entry, d, 'ref', readonly=True)
    ctx.count((name, k, 'ro'), True, '%s:read-only' % entry['group'])
    ctx.exact_cmp += 1
    if ro['status'] != 'ok':
        fail('readonly', 'ref', 'fails on read-only input arrays (%s) although it succeeds on writeable ones' % ro.get('exc'))
    elif ro['result'] != ref['result']:
        fail('readonly', 'ref', 'read-only input arrays give a different result')
    # (a) layouts the contract accepts
    for v in entry['layouts']:
        r = run_entry(entry, d, v)
        ctx.count((name, k, v), True, '%s:layout' % entry['group'])
        ctx.exact_cmp += 1
        if r['mutated']:
            fail('mutation', v, '; '.join(r['mutated']))
        if r['status'] != 'ok':
            fail('layout', v, 'layout %r is not accepted (%s) although the vector form is' % (v, r.get('exc')))
        elif r['result'] != ref['result']:
            fail('layout', v, 'layout %r gives a different result from the vector form: %s vs %s' % (v, r['summary'], ref['summary']),
                 observed=r['summary'], expected=ref['summary'])
    # (b) layouts / lengths that must be rejected
    for v in tuple(entry['rejects']) + tuple(entry['mism']):
        r = run_entry(entry, d, v, limit=30)
        ctx.count((name, k, v), True, '%s:%s' % (entry['group'], 'reject' if v in entry['rejects'] else 'mismatch'))
        ctx.exact_cmp += 1
        if r['mutated']:
            fail('mutation', v, '; '.join(r['mutated']))
        if r['status'] != 'raised':
            what = 'multi-column input' if v in entry['rejects'] else 'arrays of different lengths'
            fail('reject', v, '%s (%r) processed instead of rejected: %s' % (what, v, r.get('summary', r.get('exc'))),
                 observed=r.get('summary', r.get('exc')), expected='an exception')
    return fails


# ---- option dictionaries / configs reused across calls
def check_option_reuse(ctx, k, n, report=True):
    from emd import sift
    quiet()
    d = Data.get(k, n)
    fails = []

    def fail(site, check, msg, **kw):
        fails.append((site, check, msg))
        if report:
            ctx.problem('impl-violation', site, msg, input=dict(check=check, entry=site, signal=k, n=n), tags=dict(check=check), **kw)

    # 1. one options dictionary reused across calls: second call sees the same dictionary and gives the same result
    opts = sift_opts()
    pic = snap(opts)
    with common.time_limit(60):
        r1 = canon(sift.sift(d['x'], max_imfs=3, **opts))
        r2 = canon(sift.sift(d['x'], max_imfs=3, **opts))
        r3 = canon(sift.mask_sift(d['x'], max_imfs=2, **opts))
        r4 = canon(sift.mask_sift(d['x'], max_imfs=2, **opts))
    ctx.count(('reuse', k), True, 'options:reused')
    ctx.exact_cmp += 2
    if snap(opts) != pic:
        fail('sift', 'options-reuse', 'option dictionaries changed by sift/mask_sift: %s' % describe(opts))
    if r1 != r2 or r3 != r4:
        fail('sift', 'options-reuse', 'second call with the same option dictionaries gives a different result')
    # 2. get_config object passed as **config
    for nm in ('sift', 'mask_sift'):
        conf = sift.get_config(nm)
        conf['max_imfs'] = 2
        pic = snap(conf)
        with common.time_limit(60):
            getattr(sift, nm)(d['x'], **conf)
        ctx.count(('config', nm, k), True, 'options:config')
        ctx.exact_cmp += 1
        if snap(conf) != pic:
            fail(nm, 'options-config', 'the SiftConfig passed as **config was modified by the call')
    # 3. second-layer sifts: sift_args
    IA = d['IA']
    for site, fn in (('mask_sift_second_layer', lambda a: sift.mask_sift_second_layer(IA.copy(), np.array([.1, .05, .025]), sift_args=a)),
                     ('sift_second_layer', lambda a: sift.sift_second_layer(IA.copy(), sift_args=a))):
        for args in ({'mask_amp': 1.0} if site.startswith('mask') else {'sift_thresh': 1e-8}, {'max_imfs': 2}):
            if site == 'mask_sift_second_layer' and 'max_imfs' in args:
                args = {'max_imfs': 2, 'nphases': 4}
            pic, shown = snap(args), describe(args)
            try:
                with common.time_limit(60):
                    ra = canon(fn(args))
            except Exception as e:
                ctx.discarded += 1
                msg = '%s(sift_args=%s) raised %s - owned by C03, not compared here' % (site, shown, type(e).__name__)
                if msg not in ctx.notes:
                    ctx.notes.append(msg)
                ra = None
            ctx.count((site, k, shown), True, 'options:second-layer')
            ctx.exact_cmp += 1
            if snap(args) != pic:
                fail(site, 'options-second-layer', "the caller's sift_args dictionary was modified: %s -> %s" % (shown, describe(args)),
                     observed=describe(args), expected=shown)
            elif ra is not None:
                try:
                    with common.time_limit(60):
                        rb = canon(fn(args))
                    if rb != ra:
                        fail(site, 'options-second-layer', 'second call with the same sift_args gives a different result')
                except Exception as e:
                    fail(site, 'options-second-layer', 'second call with the same sift_args raised %s' % type(e).__name__)
    # 4. persisting a config must not change it
    for how in ('text', 'file'):
        conf = sift.get_config('sift')
        conf['imf_opts/rilling_thresh'] = (0.05, 0.5, 0.05)
        conf['mask_probe'] = (1, 2)
        pic, shown = snap(conf), describe(conf.store['imf_opts'])
        if how == 'text':
            conf.to_yaml_text()
        else:
            fd, p = tempfile.mkstemp(suffix='.yml')
            os.close(fd)
            try:
                conf.to_yaml_file(p)
            finally:
                os.unlink(p)
        ctx.count(('yaml', how, k), True, 'options:yaml')
        ctx.exact_cmp += 1
        if snap(conf) != pic:
            fail('SiftConfig.to_yaml_%s' % how, 'options-yaml',
                 'writing the configuration changed it in place: imf_opts %s -> %s' % (shown, describe(conf.store['imf_opts'])),
                 observed=describe(conf.store['imf_opts']), expected=shown)
    return fails



# ------------------------------------------------------------------ layouts x non-default options
def clean_signals(k, n=128):
    """A pure sinusoid plus a small trend: the first IMF takes (nearly) all the energy, so the energy-ratio stop of
    get_next_imf decides the continue flag.  Energy ratios of roughly 75, 40 and 5 dB: both outcomes of the flag occur
    for the thresholds 1, 20, 50."""
    t = np.arange(n, dtype=float)
    per = 12.5 + (k % 7)
    return [('sin+1e-4t', np.sin(2 * np.pi * t / per) + 1e-4 * t),
            ('sin+1e-3t', np.sin(2 * np.pi * t / (per + 3.5)) + 1e-3 * t),
            ('sin+1e-2t', np.sin(2 * np.pi * t / (per + 3.5)) + 1e-2 * t)]


def option_cases(k, quick=True):
    """[(case id, site, signal, layouts, call(X), tag)]: entry points that take options, under non-default option sets,
    on signals for which the option matters.  Every component of the result is compared across the layouts."""
    from emd import sift, spectra
    C = []
    S3 = ('n1', 'n', 'n11')
    S2 = ('n1', 'n')
    clean = clean_signals(k)
    comp = base_signal(k, 128)
    ext_par = {'pad_width': 2, 'parabolic_extrema': True, 'loc_pad_opts': None, 'mag_pad_opts': None}
    stops = [('sd', {}), ('rilling', {}), ('fixed', {'max_iters': 3})]
    # get_next_imf: energy_thresh x stop method on the clean signals; other options on the composite signal
    for sname, x in clean:
        for et in (1, 20, 50):
            for sm, extra in stops:
                kw = dict(energy_thresh=et, stop_method=sm, **extra)
                C.append(('get_next_imf|%s|energy_thresh=%s,stop_method=%s' % (sname, et, sm), 'get_next_imf', x, S3,
                          (lambda kw: lambda X: sift.get_next_imf(X, **kw))(kw), 'energy'))
    for kw in (dict(env_step_size=0.5), dict(sd_thresh=0.02), dict(stop_method='rilling', rilling_thresh=(0.1, 0.6, 0.1)),
               dict(stop_method='fixed', max_iters=5, energy_thresh=20), dict(envelope_opts={'interp_method': 'pchip'}, energy_thresh=10),
               dict(extrema_opts=dict(ext_par), energy_thresh=30), dict(envelope_opts={'interp_method': 'mono_pchip'}, extrema_opts={'pad_width': 4})):
        C.append(('get_next_imf|composite|%s' % describe(kw), 'get_next_imf', comp, S3,
                  (lambda kw: lambda X: sift.get_next_imf(X, **kw))(kw), 'opts'))
    # sift / mask_sift / get_next_imf_mask / ensembles with imf_opts carrying energy_thresh
    for sname, x in clean + [('composite', comp)]:
        for et in (1, 20, 50):
            io = {'energy_thresh': et, 'sd_thresh': .1, 'env_step_size': 1}
            C.append(('sift|%s|imf_opts.energy_thresh=%s' % (sname, et), 'sift', x, S3,
                      (lambda io: lambda X: sift.sift(X, max_imfs=4, imf_opts=dict(io)))(io), 'energy'))
        io = {'energy_thresh': 20, 'stop_method': 'rilling'}
        C.append(('mask_sift|%s|imf_opts.energy_thresh=20,rilling,mask_freqs=0.2,ratio_sig' % sname, 'mask_sift', x, S3,
                  (lambda io: lambda X: sift.mask_sift(X, max_imfs=3, mask_freqs=0.2, mask_amp_mode='ratio_sig', nphases=2,
                                                       ret_mask_freq=True, imf_opts=dict(io)))(io), 'energy'))
        C.append(('mask_sift|%s|imf_opts.energy_thresh=50,zc' % sname, 'mask_sift', x, S3,
                  lambda X: sift.mask_sift(X, max_imfs=3, imf_opts={'energy_thresh': 50}), 'energy'))
        C.append(('get_next_imf_mask|%s|imf_opts.energy_thresh=20,nphases=3' % sname, 'get_next_imf_mask', x, S3,
                  lambda X: sift.get_next_imf_mask(X, 0.11, 0.5, nphases=3, imf_opts={'energy_thresh': 20}), 'energy'))
    for sname, x in [clean[0], clean[1], ('composite', comp)] if not quick else [clean[1], ('composite', comp)]:
        C.append(('ensemble_sift|%s|imf_opts.energy_thresh=20,flip' % sname, 'ensemble_sift', x, S3,
                  seeded(lambda X: sift.ensemble_sift(X, nensembles=2, max_imfs=2, nprocesses=1, noise_mode='flip', ensemble_noise=1e-3,
                                                      imf_opts={'energy_thresh': 20})), 'energy'))
        C.append(('complete_ensemble_sift|%s|imf_opts.energy_thresh=20' % sname, 'complete_ensemble_sift', x, S3,
                  seeded(lambda X: sift.complete_ensemble_sift(X, nensembles=2, max_imfs=2, nprocesses=1, ensemble_noise=1e-3,
                                                               imf_opts={'energy_thresh': 20})), 'energy'))
    for sname, x in [('composite', comp)]:
        C.append(('sift|composite|sift_thresh=1e-2,pchip,parabolic', 'sift', x, S3,
                  lambda X: sift.sift(X, sift_thresh=1e-2, envelope_opts={'interp_method': 'pchip'}, extrema_opts=dict(ext_par),
                                      imf_opts={'stop_method': 'fixed', 'max_iters': 4, 'energy_thresh': 40}), 'opts'))
        for mode in ('zc', 'if', 0.2):
            C.append(('get_mask_freqs|composite|%s,energy_thresh=20' % mode, 'get_mask_freqs', x, S2,
                      (lambda mode: lambda X: sift.get_mask_freqs(X, mode, imf_opts={'energy_thresh': 20}))(mode), 'opts'))
        # envelopes / extrema: pad_width and parabolic_extrema
        for mode in ('upper', 'lower', 'combined'):
            for meth in ('splrep', 'pchip', 'mono_pchip'):
                for eo in ({'pad_width': 1}, {'pad_width': 4, 'parabolic_extrema': True}, dict(ext_par)):
                    C.append(('interp_envelope|composite|%s,%s,%s' % (mode, meth, describe(eo)), 'interp_envelope', x, S2,
                              (lambda mode, meth, eo: lambda X: sift.interp_envelope(X, mode=mode, interp_method=meth, extrema_opts=dict(eo),
                                                                                    ret_extrema=True))(mode, meth, eo), 'opts'))
        for mode in ('peaks', 'troughs', 'abs_peaks'):
            for pw in (0, 1, 4):
                for par in (False, True):
                    C.append(('get_padded_extrema|composite|%s,pad_width=%d,parabolic=%s' % (mode, pw, par), 'get_padded_extrema', x, S2,
                              (lambda mode, pw, par: lambda X: sift.get_padded_extrema(X, pad_width=pw, mode=mode, parabolic_extrema=par,
                                                                                      mag_pad_opts={'mode': 'edge'}))(mode, pw, par), 'opts'))
        for meth in ('hilbert', 'nht', 'quad'):
            for sp in (3, 9):
                C.append(('frequency_transform|composite|%s,smooth_phase=%d,sample_rate=250' % (meth, sp), 'frequency_transform', x, S2,
                          (lambda meth, sp: lambda X: spectra.frequency_transform(X, 250, meth, smooth_phase=sp))(meth, sp), 'opts'))
    return C


def components(r, path='result'):
    """Flatten a result into [(path, canonical value, short text)] so the differing component can be named."""
    if isinstance(r, (tuple, list)):
        out = []
        for i, v in enumerate(r):
            out += components(v, '%s[%d]' % (path, i))
        return out or [(path, ('empty',), '()')]
    return [(path, canon(r), result_summary(r) if hasattr(r, 'shape') and getattr(r, 'ndim', 0) > 0 else repr(r))]


def run_option_case(case):
    """-> {layout: ('ok', components) | ('raised', text) | ('timeout', text)}"""
    quiet()
    cid, site, x, layouts, call, tag = case
    res = {}
    for v in layouts:
        X = lay(x, v)
        try:
            with common.time_limit(30):
                r = call(X)
            res[v] = ('ok', components(r))
        except common.Timeout:
            res[v] = ('timeout', 'still computing after 30 s')
        except Exception as e:
            res[v] = ('raised', '%s: %s' % (type(e).__name__, str(e)[:120]))
    return res


def option_case_failure(case, res):
    """None, or the first difference between the documented layout (n,1) and another accepted layout."""
    cid, site, x, layouts, call, tag = case
    ref_v = layouts[0]
    ref = res[ref_v]
    for v in layouts[1:]:
        r = res[v]
        if ref[0] != 'ok' or r[0] != 'ok':
            if ref[0] == r[0] == 'raised' and ref[1].split(':')[0] == r[1].split(':')[0]:
                continue                                  # same refusal in both layouts: nothing layout-dependent
            return v, 'layout %r: %s, layout %r: %s' % (ref_v, ref[1] if ref[0] != 'ok' else 'returns', v, r[1] if r[0] != 'ok' else 'returns')
        if len(ref[1]) != len(r[1]):
            return v, 'layout %r returns %d components, layout %r returns %d' % (ref_v, len(ref[1]), v, len(r[1]))
        for (pa, ca, ta), (pb, cb, tb) in zip(ref[1], r[1]):
            if pa != pb or ca != cb:
                return v, '%s differs between layouts: %r gives %s, %r gives %s' % (pa, ref_v, ta, v, tb)
    return None


def check_option_layouts(ctx, k, report=True, only=None):
    fails = []
    flags = {True: 0, False: 0}
    for case in option_cases(k, ctx_quick(ctx)):
        cid, site, x, layouts, call, tag = case
        if only is not None and cid != only:
            continue
        res = run_option_case(case)
        ref = res[layouts[0]]
        # non-vacuity of the energy cases: the continue flag of the (n,1) layout
        if site == 'get_next_imf' and tag == 'energy' and ref[0] == 'ok':
            flags[ref[1][1][2] in ('True', 'np.True_')] += 1
        for v in layouts:
            ctx.count(('optlayout', k, cid, v), True, 'option-layout:%s:%s' % (site, tag))
        ctx.exact_cmp += len(layouts) - 1
        f = option_case_failure(case, res)
        if f:
            fails.append((cid, f[0], f[1]))
            if report:
                ctx.problem('impl-violation', site, 'with options [%s]: %s' % (cid.split('|', 1)[1], f[1]),
                            input=dict(check='option-layout', case=cid, signal=k, layout=f[0]),
                            observed=f[1], expected='identical results (every component) for (n,), (n,1), (n,1,1)',
                            tags=dict(check='option-layout', site=site))
    if only is None and report:
        ctx.extra.setdefault('energy_flag_cases', []).append(dict(signal=k, flag_False=flags[False], flag_True=flags[True]))
        if flags[False] == 0 or flags[True] == 0:
            ctx.notes.append('signal family %d: the energy-ratio cases of get_next_imf did not produce both flag values in the (n,1) layout '
                             '(False %d, True %d) - those cases are vacuous for the flag' % (k, flags[False], flags[True]))
    return fails


def ctx_quick(ctx):
    return ctx.quick() if hasattr(ctx, 'quick') else False      # replay: the larger case list


# ------------------------------------------------------------------ check
def run(ctx):
    quiet()
    n = 128
    sigs = [(0, 128)] if ctx.quick() else [(0, 128), (1, 128), (2, 192), (3, 96), (4, 256), (5, 128), (6, 64), (7, 160)]
    sigs = [(k + 8 * (ctx.seed % 50), nk) for k, nk in sigs]          # VERIF_SEED selects another family of signals
    ctx.rule = ('PROVED (Coq, all shapes of any rank): the normalisers and ensure_equal_dims of emd/support.py.  CORRESPONDENCE: every shape of '
                'rank <= 3 over {1,2,3,5} + rank 0/4 + zero-length axes through ensure_vector / ensure_1d_with_singleton / ensure_2d singly '
                'and in pairs (result shapes, error class, data order, exact), ensure_equal_dims on all pairs/triples x dim None,0..3, and the '
                'entry-point validation of hilberthuang/phase_align/bin_by_phase/get_cycle_vector(mask) (returns iff the model accepts).  '
                'ORACLE, NOT PROVED (Python heap / floating point of the real routines): for each public numeric entry point of emd.sift, '
                'emd.spectra, emd.cycles, emd.utils on %d signal(s) of 64..256 samples (quick: %d): identical bytes across the layouts its contract accepts, '
                'an exception for (n,2), (1,n), (n,2,3) input to the six single-signal sift routines and for mismatched lengths in multi-array '
                'routines, arrays and option dictionaries byte-identical (type-sensitive: tuple != list) after every call, read-only arrays '
                'accepted with the same result, repeated call byte-identical (ensemble variants: np.random seeded identically, nprocesses=1); '
                'layouts (n,), (n,1), (n,1,1) also compared component by component (arrays, flags, tuples) under non-default options: get_next_imf '
                'energy_thresh {1,20,50} x stop method {sd,rilling,fixed} on sinusoid+trend signals where the energy stop decides the flag (both '
                'outcomes occur), sift/mask_sift/get_next_imf_mask/ensembles with imf_opts.energy_thresh, interp_envelope/get_padded_extrema with '
                'pad_width/parabolic_extrema/pad modes, frequency_transform methods x smooth_phase.  '
                'non-trivial = rank >= 2 shape / unequal shapes / any entry-point call' % (len(sigs), n))
    ctx.notes.append('non-mutation, read-only tolerance and determinism are ORACLE-ONLY clauses: observed on the inputs of this run, not proved')
    ctx.notes.append('energy_stop/_energy_difference read uninitialised memory when an energy is exactly zero (np.log10(where=) without out); the '
                     'stale value is reproducible call-to-call, so the determinism clause cannot exhibit it; see notes/fixes/C19-energy-difference-uninitialised')
    ctx.proof(extra=['props/Prop_Tie_Support.v', 'props/Prop_Tie_Wave.v'])  # translation tie: program regenerated from the source + refinement theorems
    # ---- correspondence
    bad = run_ensure_correspondence(ctx)
    bad2 = run_validate_correspondence(ctx)
    ctx.exhaustive = True
    # ---- oracle on the entry points
    ents = [e for e in entries() if e['tier'] == 'quick' or not ctx.quick()]
    for k, nk in sigs:
        for e in ents:
            check_entry(ctx, e, k, nk)
        check_option_reuse(ctx, k, nk)
        for routine, how, msg in container_mismatch_fails(k, nk)[:1]:
            ctx.problem('impl-violation', routine, msg, input=dict(check='container-mismatch', signal=k, n=nk, routine=routine, how=how),
                        tags=dict(entry=routine, clause='mismatch'))
        ctx.count(('container-mismatch', k, nk), True, 'container-mismatch')
    for k in sorted(set(k for k, _ in sigs))[:1 if ctx.quick() else 4]:
        check_option_layouts(ctx, k)
    ctx.sample(dict(entry='get_next_imf', signal='sin + 1e-3 t (128 samples)', options=dict(energy_thresh=20, stop_method='rilling'),
                    layouts=['(128,1)', '(128,)', '(128,1,1)'], compared='IMF bytes and continue flag'))
    ctx.sample(dict(entry='sift', layouts=['(128,)', '(128,1)', '(128,1,1)', '(128,1,1,1)'], rejected=['(128,2)', '(1,128)', '(128,2,3)'], signal=0))
    ctx.sample(dict(entry='hilberthuang', layouts=['vector', 'column', 'mixed'], mismatched=['inam one sample short', '2-d infr three samples short']))
    have = any(p['kind'] == 'impl-violation' for p in ctx.problems)
    for b in (bad, bad2):
        if b is not None and not have:
            ctx.problem('correspondence-break', b[0], 'model and implementation differ', input=b[1], observed=b[2], expected=b[3],
                        theorem='Shapes vs emd.support.%s' % b[0])


def replay(rec):
    quiet()
    i = rec['input']

    class Dummy:
        discarded = 0
        exact_cmp = 0
        notes = []

        def count(self, *a):
            pass

        def problem(self, *a, **k):
            pass
    ctx = Dummy()
    if i['check'] == 'container-mismatch':
        f = container_mismatch_fails(i['signal'], i['n'])
        print(f[:2])
        return bool(f)
    if i['check'] == 'ensure':
        out, note = impl_ensure(i['which'], i['shapes'])
        print(ENSURE_NAMES[i['which']], i['shapes'], '->', out, note)
        if rec.get('kind') == 'correspondence-break':
            return out == rec.get('observed')       # the implementation still behaves as recorded
        return bool(oracle_ensure(i['which'], i['shapes'], out, note))
    if i['check'] == 'equal_dims':
        out = impl_equal_dims(i['dim'], i['shapes'])
        print('ensure_equal_dims', i, '->', out)
        return out == rec.get('observed')
    if i['check'] == 'validate':
        out = impl_validate(i['which'], i['a'], i['b'])
        print('validate', i, '->', out)
        return out[0] > 0 if i['a'][0] != i['b'][0] else out == rec.get('observed')
    if i['check'] == 'option-layout':
        f = check_option_layouts(ctx, i['signal'], report=False, only=i['case'])
        print(f)
        return bool(f)
    if i['check'].startswith('options'):
        f = check_option_reuse(ctx, i['signal'], i['n'], report=False)
        hit = [x for x in f if x[0] == i['entry'] and x[1] == i['check']]
        print(hit)
        return bool(hit)
    ent = [e for e in entries() if e['name'] == i['entry']]
    if not ent:
        return False
    f = check_entry(ctx, ent[0], i['signal'], i['n'], report=False)
    hit = [x for x in f if x[0] == i['check'] and x[1] == i['variant']]
    print(hit)
    return bool(hit)
