"""C15 - the cycle container keeps metrics, subsets and chains coherent.

PROOF          coq/props/Prop_C15.v  (model: coq/model/CyclesObj.v, lemmas: coq/proofs/CyclesObjFacts.v)
CORRESPONDENCE random operation histories (length <= 12) over Cycles containers built from integer-coded phases
               (code/8, see cyclevec.py), cache on and off; after the constructor and after EVERY operation the whole
               state (cycle vector, every metric in order with every value, subset vector, chain vector, stored
               conditions, result / error / exported table of the operation) is compared exactly with
               CyclesObj.run_trace under vm_compute.  Minimised cases of corpus/C15/*.json run first.
ORACLE         the property itself on the implementation, no model: see oracle_history().

Operation encoding (JSON):  ['compute', name, f, mode, vals] f in FUNCS, mode 0 cycle / 1 augmented
                            ['add', name, vals]   vals: ints or None (nan)
                            ['timings'] ['pick', [cond, ..]] (+ optional 1: a single condition passed as a bare string)
                            ['chain'] ['export', which, [cond, ..]]
                            which: 0 all, 1 subset=True, 2 conditions=, 3 both (must be rejected)
"""
import glob
import json
import math
import multiprocessing as mp
import os
import re
from fractions import Fraction

import numpy as np

import common
from common import zlist, zlit
from props import cyclevec

IMPORTS = 'From EmdV Require Import lib.NpLite model.CycleMaps model.CycleVec model.CycleStat model.CyclesObj.'
UNIT = cyclevec.UNIT
TROUGH = 1.5 * np.pi
FUNCS = ['sum', 'max', 'len', 'first', 'last', 'lam']
PYF = {'sum': np.sum, 'max': np.max, 'len': len, 'first': lambda v: v[0], 'last': lambda v: v[-1],
       'lam': lambda v: 3 * np.sum(v) - len(v)}
CORPUS = os.path.join(common.VERIF, 'corpus', 'C15')
CFGS = [(1.5 * np.pi, np.pi / 12), (np.pi, np.pi / 4), (1.5 * np.pi, np.pi / 2)]


# second phase coding ("grid": "pi4" in a case): code k stands for the float k*(np.pi/4), so that code 6 IS the float
# 1.5*np.pi the augmented-cycle code compares against (strictly); thresholds of the model are derived from the truth
# tables of the very float comparisons the implementation makes (asserted to be functions of the integer codes)
PI4 = np.pi / 4
PI4_VALUES = [k * PI4 for k in range(9)]
PI4_CFGS = [(1.3 * np.pi, np.pi / 12), (1.3 * np.pi, 0.3 * np.pi), (1.1 * np.pi, np.pi / 12)]


def grid_cfg_codes(step, edge):
    g = PI4_VALUES
    assert g[6] == 1.5 * np.pi and g[8] == 2 * np.pi and all(g[k] < g[k + 1] for k in range(8))
    tab = {}
    for a in range(9):
        for b in range(9):
            tab.setdefault(abs(a - b), set()).add(bool(abs(g[a] - g[b]) > step))
    assert all(len(v) == 1 for v in tab.values()), 'wrap test is not a function of the code difference'
    S = max(d for d, v in tab.items() if v == {False})
    assert all((d > S) == (v == {True}) for d, v in tab.items())
    lo = [k for k in range(9) if 0 <= g[k] <= edge]
    assert lo == list(range(len(lo)))
    hi = [k for k in range(9) if g[k] >= 2 * np.pi - edge]
    assert hi == list(range(9 - len(hi), 9)) and hi
    tp = [k for k in range(9) if g[k] <= 2 * np.pi]
    assert tp == list(range(9))
    above = [k for k in range(9) if g[k] > TROUGH]
    assert above == [7, 8]
    return [S, len(lo) - 1, hi[0], 8, 6]


def cfg_of(case):
    return (PI4_CFGS if case.get('grid') == 'pi4' else CFGS)[case.get('cfg', 0)]


def phase_list(case):
    """the float phases of a case, exactly as the implementation receives them"""
    if case.get('grid') == 'pi4':
        return [float(x) for x in np.array(case['codes'], dtype=float) * PI4]
    return [float(x) for x in np.array(case['codes'], dtype=float) / UNIT]


def trough_code():
    fr = Fraction(float(TROUGH)) * UNIT
    assert fr.denominator != 1
    return math.floor(fr)          # phase > 1.5pi  <=>  code > trough_code


# ------------------------------------------------------------------ implementation driver
def _num(x):
    """numpy scalar -> int | None (nan) | ('frac', repr) when not integral (never expected)."""
    x = float(x)
    if math.isnan(x):
        return None
    if x != int(x):
        return ('nonint', repr(x))
    return int(x)


def _vec(a):
    return None if a is None else [_num(x) for x in np.asarray(a).reshape(-1)]


def snapshot(C):
    conds = C.mask_conditions
    if isinstance(conds, str):
        conds = [conds]
    return dict(metrics=[[k, _vec(v)] for k, v in C.metrics.items()],
                subset=_vec(C.subset_vect), chain=_vec(C.chain_vect),
                conds=None if conds is None else list(conds))


def build(case):
    from emd import cycles
    ph = np.array(phase_list(case), dtype=float)
    step, edge = cfg_of(case)
    return cycles.Cycles(ph, phase_step=step, phase_edge=edge, use_cache=bool(case['cache']))


def table(df):
    cols = [c for c in df.columns]
    has_index = 'index' in cols
    names = [c for c in cols if c != 'index']
    rows = []
    for r in range(len(df)):
        idx = int(df['index'].values[r]) if has_index else r
        rows.append([idx, [_num(df[n].values[r]) for n in names]])
    return dict(index_col=has_index, names=names, rows=rows)


def apply_op(C, op):
    """Returns the op's outcome: ['ok'] | ['returned', code] | ['raised', code] | ['table', {...}]"""
    kind = op[0]
    try:
        with common.time_limit(20):
            if kind == 'compute':
                _, name, f, mode, vals = op
                C.compute_cycle_metric(name, np.array(vals, dtype=float), PYF[f], mode='augmented' if mode else 'cycle')
                return ['ok']
            if kind == 'add':
                _, name, vals = op
                r = C.add_cycle_metric(name, np.array([np.nan if v is None else v for v in vals], dtype=float))
                if isinstance(r, BaseException):
                    return ['returned', common.exc_code(r)]
                return ['ok']
            if kind == 'timings':
                C.compute_cycle_timings()
                return ['ok']
            if kind == 'pick':
                # a single condition may be given as a bare string (op[2] = 1)
                C.pick_cycle_subset(op[1][0] if len(op) > 2 and op[2] and len(op[1]) == 1 else list(op[1]))
                return ['ok']
            if kind == 'chain':
                C.compute_chain_timings()
                return ['ok']
            if kind == 'export':
                _, which, conds = op
                if which == 0:
                    df = C.get_metric_dataframe()
                elif which == 1:
                    df = C.get_metric_dataframe(subset=True)
                elif which == 2:
                    df = C.get_metric_dataframe(conditions=list(conds))
                else:
                    df = C.get_metric_dataframe(subset=True, conditions=list(conds))
                return ['table', table(df)]
    except Exception as e:                                              # noqa
        return ['raised', common.exc_code(e)]
    raise ValueError('unknown op %r' % (op,))


def run_impl(case):
    """Trace of the implementation: constructor outcome, then (outcome, state) after every operation."""
    try:
        with common.time_limit(20):
            C = build(case)
    except Exception as e:                                              # noqa
        return dict(init=['raised', common.exc_code(e)], steps=[])
    tr = dict(init=['ok'], cv=_vec(C.cycle_vect), ncycles=int(C.ncycles), state0=snapshot(C), steps=[])
    for op in case['ops']:
        out = apply_op(C, op)
        tr['steps'].append(dict(out=out, state=snapshot(C)))
    return tr


# ------------------------------------------------------------------ rendering (twin of CyclesObj.render_*)
def rl(l):
    return [len(l)] + list(l)


def _rv(v):
    if isinstance(v, tuple):                       # non-integral value: can never equal a model value
        return 10 ** 15 + (hash(v[1]) & 0xffff)
    return v


def render_ovals(l):
    out = [len(l)]
    for v in l:
        out += [0] if v is None else [1, _rv(v)]
    return out


def render_str(s):
    return rl([ord(c) for c in s])


def render_state(cv, snap):
    out = rl(cv) + [len(snap['metrics'])]
    for name, vals in snap['metrics']:
        out += render_str(name) + render_ovals(vals)
    for key in ('subset', 'chain'):
        out += [0] if snap[key] is None else [1] + rl(snap[key])
    if snap['conds'] is None:
        out += [0]
    else:
        out += [1, len(snap['conds'])]
        for c in snap['conds']:
            out += render_str(c)
    return out


def render_out(o):
    if o[0] == 'ok':
        return [0]
    if o[0] == 'returned':
        return [1, o[1]]
    if o[0] == 'raised':
        return [2, o[1]]
    t = o[1]
    out = [3, 1 if t['index_col'] else 0, len(t['names'])]
    for n in t['names']:
        out += render_str(n)
    out += [len(t['rows'])]
    for k, vals in t['rows']:
        out += [k] + render_ovals(vals)
    return out


def render_trace(tr):
    if tr['init'][0] != 'ok':
        return [-2]
    out = [0] + render_state(tr['cv'], tr['state0'])
    for s in tr['steps']:
        out += render_out(s['out']) + render_state(tr['cv'], s['state'])
    return out


# ------------------------------------------------------------------ Coq literals
def cstr(s):
    assert '"' not in s
    return '"%s"%%string' % s


def cstrs(l):
    return '[' + '; '.join(cstr(s) for s in l) + ']'


def op_lit(op):
    k = op[0]
    if k == 'compute':
        return '(ComputeMetric %s (fn %d) %s %s)' % (cstr(op[1]), FUNCS.index(op[2]), 'MAug' if op[3] else 'MCycle', zlist(op[4]))
    if k == 'add':
        return '(AddMetric %s [%s])' % (cstr(op[1]), '; '.join('None' if v is None else 'Some %s' % zlit(v) for v in op[2]))
    if k == 'timings':
        return 'Timings'
    if k == 'pick':
        return '(Pick %s)' % cstrs(op[1])
    if k == 'chain':
        return 'ChainTimings'
    if k == 'export':
        return ['(Export ExAll)', '(Export ExSubset)', '(Export (ExConds %s))' % cstrs(op[2]),
                '(Export (ExBoth %s))' % cstrs(op[2])][op[1]]
    raise ValueError(op)


def cfg_codes(case):
    step, edge = cfg_of(case)
    if case.get('grid') == 'pi4':
        return grid_cfg_codes(step, edge)
    return cyclevec.code_cfg(step, edge) + [trough_code()]


def case_lit(case):
    return '(%s, %s, %s, [%s])' % (zlist(cfg_codes(case)), 'true' if case['cache'] else 'false', zlist(case['codes']),
                                   '; '.join(op_lit(o) for o in case['ops']))


MODEL_EXPR = "fun c => let '(cfg, cache, ph, ops) := c in run_trace cfg cache ph ops"


# ------------------------------------------------------------------ generators
LITERALS = ['0', '1', '2', '3', '5', '-1', '-2', '+2', '2.5', '-0.5', '0.5', '.5', '3.', '-1.5', '1e1', '2.5e0', '-5e-1',
            '15e-1', '0.3e1', '1E0', '-2.0e0', '25e-1', '1.0e+1', '4', '7', '12', '-1.0', '1e0', '0.0', '-0.25e1']
CMPS = ['==', '!=', '<=', '>=', '<', '>']
NAMES = ['a', 'b', 'm1', 'amp']
BUILTIN = ['is_good', 'start_sample', 'stop_sample', 'duration', 'chain_ind', 'chain_start', 'chain_end',
           'chain_len_samples', 'chain_len_cycles', 'chain_position']


def gen_codes(rng):
    kind = rng.random()
    n = rng.randint(6, 40)
    if kind < 0.07:                                    # alphabet walk, may have no wrap at all
        return [rng.choice(cyclevec.ALPHABET) for _ in range(rng.randint(2, 10))]
    codes, cur = [], rng.randint(0, 50)
    for _ in range(n):
        codes.append(cur)
        stepv = rng.choice([3, 5, 8, 10, 13, 13, 17])
        if rng.random() < (0.15 if kind < 0.5 else 0.03):
            stepv = -rng.choice([1, 3, 6, 12])      # phase reversal: non-monotonic cycles
        cur += stepv
        if cur > 50:
            cur -= 50 + rng.choice([0, 0, 1])
        if cur < 0:
            cur += 50
        cur = max(0, min(50, cur))
    return codes


def gen_codes_pi4(rng):
    """phases k*pi/4: rising cycles that contain samples exactly equal to 1.5*pi (k = 6), with plateaus on it, dips back
    below it, cycles that end on it, and cycles that jump over it"""
    codes, cur = [], rng.choice([0, 0, 1, 3, 5, 6])
    for _ in range(rng.randint(8, 36)):
        codes.append(cur)
        r = rng.random()
        if cur == 6 and r < 0.35:
            nxt = 6                                  # plateau on the trough value
        elif cur == 6 and r < 0.5:
            nxt = rng.choice([4, 5])                 # dip back below it
        elif cur == 6 and r < 0.62:
            nxt = rng.choice([0, 0, 1])              # the cycle ends on it (wrap 6 -> 0)
        elif cur == 7 and r < 0.25:
            nxt = 6                                  # back onto it after having passed it
        elif r < 0.7:
            nxt = cur + 1
        elif r < 0.85:
            nxt = cur + 2
        elif r < 0.92:
            nxt = cur
        else:
            nxt = cur - 1
        if nxt > 7:
            nxt = rng.choice([0, 0, 0, 1]) if rng.random() < 0.9 else 8
        if cur == 8:
            nxt = rng.choice([0, 1])
        cur = max(0, min(8, nxt))
    return codes


def n_cycles(case):
    step, _ = cfg_of(case)
    ph = phase_list(case)
    return len(cyclevec.segments_of(ph, step))


def spell(rng, fr):
    """A random spelling (sign / decimal point / exponent) of a multiple of 1/2 that float() and the model both read as fr."""
    fr = Fraction(fr)
    assert fr.denominator in (1, 2)
    neg = fr < 0
    a = abs(fr)
    if a.denominator == 1:
        n = int(a)
        forms = ['%d' % n, '%d.' % n, '%d.0' % n, '%de0' % n, '%d.0e0' % n, '%d0e-1' % n, '%dE+0' % n, '0.%de1' % n if n < 10 else '%d' % n,
                 '%d.00' % n, '0%d' % n]
    else:
        n = int(a - Fraction(1, 2))
        forms = ['%d.5' % n, '%d5e-1' % n, '%d.50' % n, '0.%d5e1' % n if n < 10 else '%d.5' % n, '%d.5e0' % n, '%d.5E0' % n]
        if n == 0:
            forms.append('.5')
    t = rng.choice(forms)
    t = ('-' + t) if neg else (('+' + t) if rng.random() < 0.15 else t)
    assert Fraction(t) == fr, (t, fr)
    return t


def gen_cond(rng, table):
    """table: name -> column known to the generator's own bookkeeping"""
    names = list(table)
    if rng.random() > 0.95:
        return rng.choice(['nosuch', 'zz']) + rng.choice(CMPS) + rng.choice(LITERALS)
    name = rng.choice(names)
    col = [v for v in table[name] if v is not None]
    r = rng.random()
    if col and r < 0.8:
        v = Fraction(rng.choice(col)) + rng.choice([0, 0, 0, Fraction(1, 2), -Fraction(1, 2), 1, -1])
        lit = spell(rng, v)
    else:
        lit = rng.choice(LITERALS)
    return name + rng.choice(CMPS) + lit


def sim_table_compute(case, cv, K, f, mode, vals):
    return [None if v == ('undef',) else v for v in brute_cycle(case, cv, f, mode, vals, K)]


def gen_ops(rng, case, maxlen=12):
    """Random history; the generator keeps its own metric table (brute force) only to choose names and literals that make
    selections succeed or fail in interesting ways - nothing of it is used as an expectation."""
    N = len(case['codes'])
    ph = phase_list(case)
    step, edge = cfg_of(case)
    segs = cyclevec.segments_of(ph, step)
    K = len(segs)
    cv = [-1] * N
    for k, (a, b) in enumerate(segs):
        cv[a:b] = [k] * (b - a)
    table = {'is_good': [int(cyclevec.criteria(ph, a, b, edge, None)) for a, b in segs]}
    subset = chain = None
    ops = []
    for _ in range(rng.randint(1, maxlen)):
        r = rng.random()
        pool = NAMES if rng.random() < 0.9 else BUILTIN
        if r < 0.20:
            name, f, mode = rng.choice(pool), rng.choice(FUNCS), int(rng.random() < 0.45)
            vals = [rng.randint(-9, 20) for _ in range(N)]
            ops.append(['compute', name, f, mode, vals])
            table[name] = sim_table_compute(case, cv, K, f, mode, vals)
        elif r < 0.33:
            name = rng.choice(pool)
            ln = K if rng.random() < 0.85 else max(0, K + rng.choice([-1, 1, 2]))
            vals = [None if rng.random() < 0.12 else rng.randint(-3, 8) for _ in range(ln)]
            ops.append(['add', name, vals])
            if ln == K:
                table[name] = vals
        elif r < 0.42:
            ops.append(['timings'])
            table['start_sample'] = [a for a, b in segs]
            table['stop_sample'] = [b - 1 for a, b in segs]
            table['duration'] = [b - a for a, b in segs]
        elif r < 0.68 or (r < 0.80 and subset is None and rng.random() < 0.7):
            conds = [gen_cond(rng, table) for _ in range(rng.choice([1, 1, 1, 2, 2, 3]))]
            ops.append(['pick', conds, 1] if len(conds) == 1 and rng.random() < 0.2 else ['pick', conds])
            sel = satisfying(list(table.items()), conds)
            if sel is not None and any(sel):
                subset = numbering(sel)
                chain = runs(subset)
                table['chain_ind'] = chain_expect(cv, subset, chain, K)['chain_ind']
        elif r < 0.80:
            ops.append(['chain'])
            if subset is not None:
                e = chain_expect(cv, subset, chain, K)
                for nm in BUILTIN[5:]:
                    table[nm] = e[nm]
        else:
            w = rng.choice([0, 1, 1, 2, 2, 2, 3])
            ops.append(['export', w, [gen_cond(rng, table) for _ in range(rng.randint(1, 3))] if w >= 2 else []])
    return ops


def gen_case(rng):
    case = dict(codes=gen_codes(rng), cfg=rng.choice([0, 0, 0, 1, 2]), cache=1)
    case['ops'] = gen_ops(rng, case)
    return case


def gen_case_pi4(rng):
    case = dict(codes=gen_codes_pi4(rng), cfg=rng.choice([0, 0, 1, 2]), cache=1, grid='pi4')
    ops = gen_ops(rng, case, maxlen=8)
    # make sure augmented-mode metrics are computed: that is what this family is for
    N = len(case['codes'])
    for f in rng.sample(FUNCS, 2):
        ops.insert(rng.randint(0, len(ops)), ['compute', rng.choice(NAMES), f, 1, [rng.randint(-9, 20) for _ in range(N)]])
    case['ops'] = ops[:12]
    return case


# ------------------------------------------------------------------ the property oracle (no model)
COND_RE = re.compile(r'^([^=<>!]*)(==|!=|<=|>=|<|>)([^=<>!]+)$')
PYCMP = {'==': lambda a, b: a == b, '!=': lambda a, b: a != b, '<=': lambda a, b: a <= b,
         '>=': lambda a, b: a >= b, '<': lambda a, b: a < b, '>': lambda a, b: a > b}


def fval(v):
    return float('nan') if v is None else float(v[1]) if isinstance(v, tuple) else float(v)


def satisfying(metrics, conds):
    """Cycles satisfying all condition strings under the given metric values; None if a condition cannot be evaluated."""
    md = dict(metrics)
    cols = []
    for c in conds:
        m = COND_RE.match(c)
        if not m or m.group(1) not in md:
            return None
        try:
            lit = float(m.group(3))
        except ValueError:
            return None
        cols.append([PYCMP[m.group(2)](fval(v), lit) for v in md[m.group(1)]])
    n = len(md.get('is_good', cols[0] if cols else []))
    return [all(col[k] for col in cols) for k in range(n)]


def cond_names(conds):
    out = []
    for c in conds or []:
        m = COND_RE.match(c)
        out.append(m.group(1) if m else None)
    return out


def numbering(sel):
    out, c = [], 0
    for s in sel:
        out.append(c if s else -1)
        c += 1 if s else 0
    return out


def runs(subset):
    """chain index of each selected cycle: maximal runs of consecutive selected cycles"""
    idx = [k for k, s in enumerate(subset) if s >= 0]
    out, c = [], 0
    for j, k in enumerate(idx):
        if j and k != idx[j - 1] + 1:
            c += 1
        out.append(c)
    return out


def brute_cycle(case, cv, f, mode, vals, K):
    """f applied to each cycle's samples, straight from the cycle vector; ('undef',) where augmentation does not exist"""
    fn = PYF[f]
    ph = phase_list(case)
    tc = TROUGH                      # documented: first sample of the previous cycle with phase > 1.5*pi (strictly)
    out = []
    for k in range(K):
        own = [i for i in range(len(cv)) if cv[i] == k]
        if not mode:
            out.append(int(fn(np.array([vals[i] for i in own], dtype=float))))
            continue
        prev = [i for i in range(len(cv)) if cv[i] == k - 1] if k > 0 else []
        tr = [i for i in prev if ph[i] > tc]
        if not tr:
            out.append(('undef',))
        else:
            out.append(int(fn(np.array(vals[tr[0]:own[-1] + 1], dtype=float))))
    return out


def chain_expect(cv, subset, chain, K):
    """expected chain_ind / chain timing metrics from the cycle, subset and chain vectors, by brute force"""
    sel = [k for k in range(K) if subset[k] >= 0]
    exp = {n: [-1] * K for n in BUILTIN[4:]}
    for c in set(chain):
        cyc = [sel[j] for j in range(len(sel)) if chain[j] == c]
        samp = [i for i in range(len(cv)) if cv[i] in cyc]
        for pos, k in enumerate(cyc):
            exp['chain_ind'][k] = c
            exp['chain_start'][k] = samp[0]
            exp['chain_end'][k] = samp[-1]
            exp['chain_len_samples'][k] = len(samp)
            exp['chain_len_cycles'][k] = len(cyc)
            exp['chain_position'][k] = pos
    return exp


def oracle_trace(case, tr):
    """The property on one implementation trace.  Returns [(site, detail)]."""
    fails = []
    if tr['init'][0] != 'ok':
        return [('Cycles.__init__', 'constructor raised (code %s)' % tr['init'][1])]
    cv, K = tr['cv'], tr['ncycles']
    ph = phase_list(case)
    step, edge = cfg_of(case)
    segs = cyclevec.segments_of(ph, step)
    expcv = [-1] * len(ph)
    for k, (a, b) in enumerate(segs):
        expcv[a:b] = [k] * (b - a)
    if cv != expcv or K != len(segs):
        return [('Cycles.__init__', 'cycle vector %s / ncycles %s, expected %s / %d' % (cv, K, expcv, len(segs)))]
    prov = {'is_good': ('good',)}          # name -> how the current value came about (oracle's own bookkeeping)
    stamp = {'is_good': 0}
    clock, pick_clock = 0, -1
    prev = tr['state0']

    def check_metrics(state, where):
        for name, vals in state['metrics']:
            if len(vals) != K:
                fails.append(('metric-length', '%s: metric %r has %d entries for %d cycles' % (where, name, len(vals), K)))
                continue
            p = prov.get(name)
            if p is None:
                continue
            if p[0] == 'good':
                exp = [int(cyclevec.criteria(ph, a, b, edge, None)) for a, b in segs]
                if vals != exp:
                    fails.append(('compute_cycle_metric', "%s: 'is_good' is %s, the criteria give %s" % (where, vals, exp)))
            elif p[0] == 'computed':
                exp = brute_cycle(case, cv, p[1], p[2], p[3], K)
                bad = [k for k in range(K) if exp[k] != ('undef',) and vals[k] != exp[k]]
                if bad:
                    fails.append(('compute_cycle_metric(%s)' % ('augmented' if p[2] else 'cycle'),
                                  '%s: metric %r (%s) cycle %d is %s, the function applied to that cycle\'s samples gives %s'
                                  % (where, name, p[1], bad[0], vals[bad[0]], exp[bad[0]])))
            elif p[0] == 'added':
                if vals != p[1]:
                    fails.append(('add_cycle_metric', '%s: metric %r is %s, the values added were %s' % (where, name, vals, p[1])))
            elif p[0] == 'chain' and state['subset'] is not None and stamp[name] > pick_clock:
                exp = chain_expect(cv, state['subset'], state['chain'], K)[p[1]]
                if vals != exp:
                    fails.append(('chain-metrics', '%s: chain metric %r is %s, the chains give %s' % (where, name, vals, exp)))

    check_metrics(prev, 'after construction')
    for n, (op, s) in enumerate(zip(case['ops'], tr['steps'])):
        where = 'step %d %s' % (n, op[0])
        out, st = s['out'], s['state']
        before = dict(prev['metrics'])
        changed_sel = (st['conds'] != prev['conds']) or (st['subset'] != prev['subset']) or (st['chain'] != prev['chain'])
        # bookkeeping of what each metric should now be
        after = dict(st['metrics'])
        if op[0] == 'compute' and out == ['ok']:
            clock += 1
            prov[op[1]], stamp[op[1]] = ('computed', op[2], op[3], op[4]), clock
        elif op[0] == 'add' and out == ['ok']:
            clock += 1
            prov[op[1]], stamp[op[1]] = ('added', list(op[2])), clock
        elif op[0] == 'add':
            if after != before:
                fails.append(('add_cycle_metric', '%s: rejected values changed the metrics' % where))
        elif op[0] == 'timings' and out == ['ok']:
            clock += 1
            N = len(cv)
            prov['start_sample'] = ('computed', 'first', 0, list(range(N)))
            prov['stop_sample'] = ('computed', 'last', 0, list(range(N)))
            prov['duration'] = ('computed', 'len', 0, list(cv))
            stamp.update(start_sample=clock, stop_sample=clock, duration=clock)
        elif op[0] == 'chain' and out == ['ok']:
            clock += 1
            for nm in BUILTIN[5:]:
                prov[nm], stamp[nm] = ('chain', nm), clock
        if op[0] == 'pick' and out == ['ok']:
            clock += 1
            pick_clock = clock
            clock += 1
            prov['chain_ind'], stamp['chain_ind'] = ('chain', 'chain_ind'), clock
        if op[0] == 'export' and changed_sel:
            fails.append(('get_metric_dataframe', '%s: an export changed the stored selection' % where))
        # metrics not written by this op must not have moved
        written = {'compute': [op[1]] if op[0] == 'compute' else [], 'add': [op[1]] if op[0] == 'add' else [],
                   'timings': ['start_sample', 'stop_sample', 'duration'], 'pick': ['chain_ind'],
                   'chain': BUILTIN[5:], 'export': []}[op[0]]
        for name, vals in prev['metrics']:
            if name not in written and after.get(name) != vals:
                fails.append(('metrics', '%s: metric %r changed although the operation does not write it' % (where, name)))
        # the selection: whenever it is (re)stored it must be the numbering of the cycles satisfying ALL stored conditions
        if changed_sel:
            if op[0] not in ('pick',):
                fails.append(('selection', '%s: the stored selection changed outside pick_cycle_subset' % where))
            if st['conds'] is None or st['subset'] is None or st['chain'] is None:
                fails.append(('pick_cycle_subset', '%s: selection only partly stored: conditions %s subset %s chains %s'
                              % (where, st['conds'], st['subset'], st['chain'])))
            else:
                sel = satisfying(prev['metrics'], st['conds'])
                if sel is None:
                    fails.append(('pick_cycle_subset', '%s: stored conditions %s cannot be evaluated, yet they are stored next to subset %s'
                                  % (where, st['conds'], st['subset'])))
                elif st['subset'] != numbering(sel):
                    fails.append(('pick_cycle_subset', '%s: conditions %s select cycles %s but subset_vect is %s'
                                  % (where, st['conds'], [k for k in range(K) if sel[k]], st['subset'])))
                if out != ['ok'] and 'chain_ind' in after and st['subset'] is not None and st['chain'] is not None \
                        and len(after['chain_ind']) == K and len(st['subset']) == K:
                    # a failing pick that nevertheless stored a new selection: the chain index metric must follow it
                    exp = chain_expect(cv, st['subset'], st['chain'], K)['chain_ind']
                    if prov.get('chain_ind', ('x',))[0] == 'chain' and after['chain_ind'] != exp:
                        fails.append(('pick_cycle_subset', '%s: the operation raised but stored subset %s / chains %s while metric '
                                      "'chain_ind' still says %s" % (where, st['subset'], st['chain'], after['chain_ind'])))
        if op[0] == 'pick' and out == ['ok']:
            sel = satisfying(prev['metrics'], op[1])
            if st['conds'] != list(op[1]):
                fails.append(('pick_cycle_subset', '%s: stored conditions %s, given %s' % (where, st['conds'], op[1])))
            if sel is not None and st['subset'] != numbering(sel):
                fails.append(('pick_cycle_subset', '%s: conditions %s select cycles %s but subset_vect is %s'
                              % (where, op[1], [k for k in range(K) if sel[k]], st['subset'])))
        if st['subset'] is not None and st['chain'] is not None:
            if len(st['subset']) != K:
                fails.append(('subset_vect', '%s: subset vector has %d entries for %d cycles' % (where, len(st['subset']), K)))
            elif st['chain'] != runs(st['subset']):
                fails.append(('get_chain_vector', '%s: chains %s are not the maximal runs of consecutive selected cycles of %s (%s)'
                              % (where, st['chain'], st['subset'], runs(st['subset']))))
        if op[0] == 'pick' and out[0] == 'raised' and satisfying(prev['metrics'], op[1]) is not None \
                and any(satisfying(prev['metrics'], op[1])):
            fails.append(('pick_cycle_subset', '%s: raised although cycles satisfy %s' % (where, op[1])))
        check_metrics(st, where)
        # exports
        if op[0] == 'export' and op[1] in (0, 1, 2) and not (op[1] == 1 and st['conds'] is None):
            conds = None if op[1] == 0 else (st['conds'] if op[1] == 1 else op[2])
            sel = [True] * K if conds is None else satisfying(st['metrics'], conds)
            if sel is not None:
                if out[0] != 'table':
                    fails.append(('get_metric_dataframe', '%s: raised (code %s) although every condition can be evaluated' % (where, out[1])))
                else:
                    t = out[1]
                    exp_rows = [[k, [dict(st['metrics'])[nm][k] for nm in t['names']]] for k in range(K) if sel[k]]
                    if t['names'] != [nm for nm, _ in st['metrics']]:
                        fails.append(('get_metric_dataframe', '%s: columns %s, metrics %s' % (where, t['names'], [nm for nm, _ in st['metrics']])))
                    elif t['rows'] != exp_rows:
                        fails.append(('get_metric_dataframe', '%s: exported rows %s, expected %s (conditions %s)'
                                      % (where, t['rows'][:4], exp_rows[:4], conds)))
                    if op[1] == 1 and conds is not None and st['subset'] is not None \
                            and all(nm in stamp and stamp[nm] < pick_clock for nm in cond_names(conds)):
                        if [r[0] for r in t['rows']] != [k for k in range(K) if st['subset'][k] >= 0]:
                            fails.append(('get_metric_dataframe', '%s: subset export lists cycles %s, subset_vect selects %s'
                                          % (where, [r[0] for r in t['rows']], [k for k in range(K) if st['subset'][k] >= 0])))
        prev = st
    return fails


def oracle_case(case):
    """Both cache settings + their agreement.  Returns (fails, traces)."""
    trs = {}
    fails = []
    for cache in (1, 0):
        c = dict(case, cache=cache)
        trs[cache] = run_impl(c)
        for site, d in oracle_trace(c, trs[cache]):
            fails.append((site, 'use_cache=%s: %s' % (bool(cache), d)))
    if trs[1] != trs[0]:
        d = 'constructor'
        if trs[1].get('state0') != trs[0].get('state0'):
            d = 'after construction: cache on %s, cache off %s' % (trs[1].get('state0'), trs[0].get('state0'))
        else:
            for n, (a, b) in enumerate(zip(trs[1]['steps'], trs[0]['steps'])):
                if a != b:
                    key = 'out' if a['out'] != b['out'] else 'state'
                    da, db = a[key], b[key]
                    if key == 'state':
                        for (na, va), (nb, vb) in zip(da['metrics'], db['metrics']):
                            if (na, va) != (nb, vb):
                                da, db = {na: va}, {nb: vb}
                                break
                    d = 'step %d %s: cache on gives %s, cache off gives %s' % (n, case['ops'][n][:4], da, db)
                    break
        fails.append(('slice-cache', d))
    return fails, trs


def site_tags(case, site, detail):
    tags = dict(site=site)
    if site == 'slice-cache':
        tags['zero_cycles'] = n_cycles(case) == 0
    return tags


# ------------------------------------------------------------------ shrinking
def resize_case(case, N):
    """the same history over the first N samples"""
    c = dict(case, codes=case['codes'][:N])
    K = n_cycles(c)
    ops = []
    for op in case['ops']:
        if op[0] == 'compute':
            ops.append(op[:4] + [op[4][:N]])
        elif op[0] == 'add':
            K0 = n_cycles(case)
            v = list(op[2])
            ops.append(['add', op[1], (v + [0] * K)[:K] if len(v) == K0 else (v + [0] * (K + 1))[:K + 1]])
        else:
            ops.append(op)
    c['ops'] = ops
    return c


def shrink(case, failing, budget=150):
    """greedy: drop operations, drop conditions, shorten the recording, zero the values; `failing(case)` must stay true"""
    cur = case
    improved = True
    while improved and budget > 0:
        improved = False
        for i in range(len(cur['ops'])):
            cand = dict(cur, ops=cur['ops'][:i] + cur['ops'][i + 1:])
            budget -= 1
            if failing(cand):
                cur, improved = cand, True
                break
        if improved:
            continue
        for i, op in enumerate(cur['ops']):
            conds = op[1] if op[0] == 'pick' else op[2] if op[0] == 'export' else []
            if len(conds) > 1:
                for j in range(len(conds)):
                    nc = conds[:j] + conds[j + 1:]
                    nop = ['pick', nc] + op[2:] if op[0] == 'pick' else ['export', op[1], nc]
                    cand = dict(cur, ops=cur['ops'][:i] + [nop] + cur['ops'][i + 1:])
                    budget -= 1
                    if failing(cand):
                        cur, improved = cand, True
                        break
            if improved:
                break
        if improved:
            continue
        for N in range(2, len(cur['codes'])):
            cand = resize_case(cur, N)
            budget -= 1
            if failing(cand):
                cur, improved = cand, True
                break
            if budget <= 0:
                break
    return cur


# ------------------------------------------------------------------ check
PROBE_FUNCS = {'mean': np.mean, 'std': np.std, 'half-sum': lambda v: np.sum(v) / 2}


def oracle_value_dtypes(case):
    """'every stored metric equals the function applied to that cycle's samples' and 'cache on or off changes no result' for
    sample arrays of integer / boolean / single-precision dtype and functions whose value is not an integer.  oracle only
    (the model's metric values are integers).  returns [(site, detail, probe)]"""
    fails = []
    try:
        Cs = [build(dict(case, cache=c)) for c in (1, 0)]
    except Exception:                                                   # noqa - the constructor is the trace comparison's business
        return fails
    cv = np.asarray(Cs[0].cycle_vect).reshape(-1)
    if cv.size == 0 or cv.max() < 0:
        return fails
    K = int(cv.max()) + 1
    h = common.hashL(list(case['codes']))
    base = np.array([((h >> (2 * (i % 30))) + 5 * i) % 11 - 4 for i in range(len(cv))])
    for dt in ('int64', 'bool', 'float32', 'int16'):
        vals = (base > 0) if dt == 'bool' else base.astype(dt)
        for fname, fn in PROBE_FUNCS.items():
            for mode in ('cycle', 'augmented'):
                got = []
                for C in Cs:
                    try:
                        C.compute_cycle_metric('probe', vals, fn, mode=mode)
                        got.append(np.asarray(C.metrics['probe'], dtype=float).reshape(-1))
                    except Exception as e:                              # noqa
                        got.append('raised %s: %s' % (type(e).__name__, e))
                probe = dict(dtype=dt, func=fname, mode=mode)
                if isinstance(got[0], str) or isinstance(got[1], str):
                    if isinstance(got[0], str) != isinstance(got[1], str):
                        fails.append(('compute_cycle_metric', 'values of dtype %s, func %s, mode %s: cache on %s, cache off %s'
                                      % (dt, fname, mode, got[0] if isinstance(got[0], str) else 'returned', got[1] if isinstance(got[1], str) else 'returned'), probe))
                    continue
                if got[0].shape != (K,) or not np.allclose(got[0], got[1], rtol=1e-6, atol=1e-9, equal_nan=True):
                    fails.append(('compute_cycle_metric', 'values of dtype %s, func %s, mode %s: use_cache=True stores %s, use_cache=False stores %s'
                                  % (dt, fname, mode, got[0].tolist(), got[1].tolist()), probe))
                elif mode == 'cycle':
                    exp = np.array([float(fn(vals[cv == k])) for k in range(K)])
                    if not np.allclose(got[0], exp, rtol=1e-6, atol=1e-9, equal_nan=True):
                        fails.append(('compute_cycle_metric', 'values of dtype %s, func %s: stored %s, the function applied to each cycle\'s samples gives %s'
                                      % (dt, fname, got[0].tolist(), exp.tolist()), probe))
                if fails:
                    return fails
    return fails


def case_input(case, with_cache=False):
    inp = dict(codes=case['codes'], cfg=case.get('cfg', 0), ops=case['ops'])
    if case.get('grid'):
        inp['grid'] = case['grid']
    if with_cache:
        inp['cache'] = case['cache']
    return inp


def load_corpus():
    out = []
    for p in sorted(glob.glob(os.path.join(CORPUS, '*.json'))):
        try:
            rec = json.load(open(p))
            out.append((os.path.basename(p), rec['input'] if 'input' in rec else rec))
        except Exception:                                               # noqa
            continue
    return out


def save_corpus(case, site, detail):
    os.makedirs(CORPUS, exist_ok=True)
    if len(glob.glob(os.path.join(CORPUS, '*.json'))) >= 40:
        return
    blob = dict(input=case_input(case), site=site, what=detail)
    path = os.path.join(CORPUS, 'auto-%s.json' % common.sha(blob['input']))
    if not os.path.exists(path):
        with open(path, 'w') as f:
            json.dump(blob, f, indent=1, sort_keys=True)


def _impl_job(case):
    tr = run_impl(case)
    return render_trace(tr), tr


def _oracle_job(case):
    fails, trs = oracle_case(case)
    return fails


def classify(case, tr):
    if tr['init'][0] != 'ok':
        return False, 'init-raised'
    K = tr['ncycles']
    picked = any(op[0] == 'pick' and s['out'] == ['ok'] for op, s in zip(case['ops'], tr['steps']))
    aug = any(op[0] == 'compute' and op[3] for op in case['ops'])
    path = 'K%s%s%s' % ('0' if K == 0 else '1' if K == 1 else '2+', '-pick' if picked else '', '-aug' if aug else '')
    if case.get('grid') == 'pi4':
        # does a strict and a non-strict trough test pick different samples somewhere?
        ph, cv = phase_list(case), tr['cv']
        tie = False
        for k in range(1, K):
            prev = [i for i in range(len(cv)) if cv[i] == k - 1]
            ge = [i for i in prev if ph[i] >= TROUGH]
            gt = [i for i in prev if ph[i] > TROUGH]
            tie = tie or (ge[:1] != gt[:1])
        path = 'pi4-' + path + ('-tie' if tie and aug else '')
    return (K >= 2 and (picked or aug)), path


def report_violation(ctx, case, fails, shrink_it=True):
    site, detail = fails[0]
    small = case
    if shrink_it:
        def failing(c):
            try:
                f, _ = oracle_case(c)
            except Exception:                                           # noqa
                return False
            return any(s == site for s, _ in f)
        try:
            small = shrink(case, failing)
            f2, _ = oracle_case(small)
            f2 = [x for x in f2 if x[0] == site] or f2
            if f2:
                site, detail = f2[0]
            else:
                small = case
        except Exception:                                               # noqa
            small = case
    inp = case_input(small)
    ctx.problem('impl-violation', site, detail, input=inp, tags=site_tags(small, site, detail))
    if common.REPO == '/repo':
        save_corpus(small, site, detail)


def run(ctx):
    nrand = 150 if ctx.quick() else 5000
    ctx.rule = ('random operation histories (1..12 operations out of compute metric in cycle / augmented mode with 6 integer-valued '
                'functions, add metric (right and wrong length, with nan), compute timings, pick subset with 1-3 condition strings over '
                'all six comparators and 30 literal spellings (negative, decimal, exponent, leading +, bare point), compute chain '
                'timings, export all / subset / conditions / both) on containers built from 2..40 integer-coded phases (code/8: '
                'sawtooth with random increments, reversals, short and wrap-free recordings) with 3 (phase_step, phase_edge) '
                'settings, each run with use_cache=True and False; after the constructor and after EVERY operation the full state '
                'and the operation\'s result are compared exactly with the model; corpus/C15 first.  A second family has its '
                'phases on the pi/4 grid (k*np.pi/4, so k = 6 IS the float 1.5*np.pi of the augmented-cycle trough test), with plateaus '
                'on that value, dips below it, cycles ending on it: there the model\'s thresholds are derived from the truth tables of '
                'the implementation\'s own float comparisons over the 9 grid values (asserted to depend on the integer codes only), '
                'so the correspondence is exact and sound for that family too (code 6 is "not above the trough"), and the oracle '
                'applies the documented STRICT test phase > 1.5*pi.  Value dtypes (oracle only): on the first containers of the run a metric is computed from int64 / bool / float32 / int16 '
                'sample arrays with mean / std / half-sum in both modes: cache on must equal cache off and, in cycle mode, the function of each cycle\'s samples.  '
                'non-trivial = container with >= 2 cycles and a successful selection or an augmented-mode metric')
    ctx.notes += [
        "augmented mode: 'that cycle's samples' is read as the container's own get_inds_of_cycle(ii, mode='augmented') "
        '(= map_cycle_to_samples_augmented): from the first sample of the previous cycle whose phase exceeds 1.5pi to the end of the '
        'cycle.  Where no such sample exists (first cycle, previous cycle never passes 1.5pi) the documentation is silent: the model '
        'says nan (what get_slice_stat_from_samples codes), the oracle demands only that cache on and off agree there.',
        'selection coherence is read at selection time: subset_vect must be the numbering of the cycles satisfying ALL stored condition '
        'strings on the metric values of the moment pick_cycle_subset ran; the subset export must list subset_vect\'s cycles as long as '
        'no metric named by the conditions has been rewritten since; chain timing metrics must describe the current chains until the '
        'next selection (chain_ind always, because every selection rewrites it).  Staleness after overwriting a metric or re-selecting '
        'is inherent in the container design and is not reported.',
        'add_cycle_metric with a wrong length RETURNS a ValueError object instead of raising it: the store stays coherent, so this is '
        'modelled (out = returned) and not reported.',
        'literals are spelled so that float() of the text equals the exact rational the model reads (multiples of 1/2 and short decimals): '
        'no comparison depends on decimal-to-binary rounding.']
    ctx.proof(extra=['props/Prop_Tie_Cyclesobj.v', 'props/Prop_Tie_Cyclesobj2.v', 'props/Prop_Tie_Cyclestat.v', 'props/Prop_Tie_Misc.v', 'props/Prop_Tie_Wave.v', 'props/Prop_Tie_Cyciter.v', 'props/Prop_Tie_Cycgen.v'])  # translation tie: program regenerated from the source + refinement theorems
    corpus = load_corpus()
    ngrid = 70 if ctx.quick() else 1500
    cases = ([dict(c, cache=1) for _, c in corpus] + [gen_case(ctx.rng) for _ in range(nrand)]
             + [gen_case_pi4(ctx.rng) for _ in range(ngrid)])
    both = []
    for c in cases:
        both += [dict(c, cache=1), dict(c, cache=0)]
    with mp.Pool(14) as pool:
        impl = pool.map(_impl_job, both, chunksize=8)
    model = ctx.model_outputs(IMPORTS, [case_lit(c) for c in both], MODEL_EXPR, shard=60)
    mism = []
    for c, (r, tr), m in zip(both, impl, model):
        nt, path = classify(c, tr)
        ctx.count((c.get('grid'), c['codes'], c['cfg'], c['cache'], c['ops']), nt, path + ('-cache' if c['cache'] else '-nocache'))
        for op, s in zip(c['ops'], tr.get('steps', [])):
            ctx.hist['op-%s-%s' % (op[0], s['out'][0])] += 1
        ctx.exact_cmp += 1
        if r != m:
            mism.append((c, r, m))
    ctx.extra['corpus_cases'] = len(corpus)
    ctx.sample(dict(codes=cases[len(corpus)]['codes'], cfg=cases[len(corpus)]['cfg'], ops=cases[len(corpus)]['ops']))
    ctx.sample(dict(grid='pi4', codes=cases[-1]['codes'], cfg=cases[-1]['cfg'], ops=cases[-1]['ops'][:3]))
    ctx.extra['pi4_grid_cases'] = ngrid
    if corpus:
        ctx.sample(dict(corpus=corpus[0][0], case=corpus[0][1]))
    # oracle: first on every case where model and implementation differ, then on everything
    reported = set()
    for c, r, m in mism[:6]:
        fails, _ = oracle_case(c)
        if fails and fails[0][0] not in reported:
            reported.add(fails[0][0])
            report_violation(ctx, c, fails)
    with mp.Pool(14) as pool:
        ofails = pool.map(_oracle_job, cases, chunksize=8)
    ctx.extra['oracle_cases'] = len(cases)
    for c, fails in zip(cases, ofails):
        for site, detail in fails:
            if site not in reported and len(reported) < 6:
                reported.add(site)
                report_violation(ctx, c, [(site, detail)] + [f for f in fails if f[0] != site])
    # value dtypes: integer / boolean / single-precision sample arrays with non-integer-valued functions (oracle only)
    nprobe = 0
    for c in cases[len(corpus):len(corpus) + (40 if ctx.quick() else 1000)]:
        nprobe += 1
        for site, detail, probe in oracle_value_dtypes(c)[:1]:
            if 'dtype-probe' not in reported:
                reported.add('dtype-probe')
                ctx.problem('impl-violation', site, detail, input=dict(case_input(c), ops=[], dtype_probe=probe), tags=dict(mode='dtype-probe'))
    ctx.extra['value_dtype_probes'] = nprobe
    ctx.hist['value-dtype-probe-containers'] += nprobe
    if mism and not reported:
        c, r, m = mism[0]

        def differs(cc):
            try:
                rr = render_trace(run_impl(cc))
                mm = ctx.model_outputs(IMPORTS, [case_lit(cc)], MODEL_EXPR)[0]
            except Exception:                                           # noqa
                return False
            return rr != mm
        try:
            small = shrink(c, differs, budget=40)
        except Exception:                                               # noqa
            small = c
        r2 = render_trace(run_impl(small))
        m2 = ctx.model_outputs(IMPORTS, [case_lit(small)], MODEL_EXPR)[0]
        k = next((i for i in range(min(len(r2), len(m2))) if r2[i] != m2[i]), min(len(r2), len(m2)))
        ctx.problem('correspondence-break', 'run_trace', 'model and implementation traces differ at position %d' % k,
                    input=case_input(small, with_cache=True),
                    observed=r2[max(0, k - 10):k + 10], expected=m2[max(0, k - 10):k + 10],
                    theorem='CyclesObj.run_trace vs emd.cycles.Cycles')


def replay(rec):
    case = rec['input']
    if rec.get('kind') == 'correspondence-break':
        ctx = common.Ctx('C15', 'quick', rec.get('seed', 0))
        try:
            c = dict(case, cache=case.get('cache', 1))
            r = render_trace(run_impl(c))
            m = ctx.model_outputs(IMPORTS, [case_lit(c)], MODEL_EXPR)[0]
        finally:
            import shutil
            shutil.rmtree(ctx.work, ignore_errors=True)
        k = next((i for i in range(min(len(r), len(m))) if r[i] != m[i]), None)
        print('implementation and model traces %s' % ('agree' if r == m else 'differ at position %s' % k))
        return r != m
    if 'dtype_probe' in case:
        f = oracle_value_dtypes(case)
        print(f[:1])
        return bool(f)
    fails, _ = oracle_case(dict(case, cache=1))
    for f in fails[:5]:
        print(f)
    site = rec.get('site')
    return any(s == site for s, _ in fails) if site else bool(fails)
