"""C12 - cycle detection partitions the phase series at its phase wraps.

PROOF          coq/props/Prop_C12.v  (model: coq/model/CycleVec.v)
CORRESPONDENCE run_cv over every sequence of length <= L over a 5-value phase alphabet (enumerated inside Coq,
               block hashes), x 3 phase_step values x {all, good} ; long synthetic phases ; multi-column input
ORACLE         partition properties recomputed from the wrap positions, on the implementation's output
"""
import numpy as np

import common
from common import zlist
from props import cyclevec as cvx

CFGS = [(1.5 * np.pi, np.pi / 12), (2.55, np.pi / 12), (1.45, np.pi / 12)]


def report(ctx, fails, pid_site_prefix=''):
    for codes, fl in fails:
        for site, detail in fl[:1]:
            ctx.problem('impl-violation', site, detail,
                        input=dict(phase_codes=codes, phase=[c / cvx.UNIT for c in codes]),
                        tags=dict(last_is_wrap=bool(len(codes) > 1 and abs(codes[-1] - codes[-2]) > 11)))


def run(ctx):
    lengths = range(2, 7) if ctx.quick() else range(2, 9)
    ctx.rule = ('every phase sequence of length %d..%d over the alphabet {0.25,1.5,3,4.5,6.25} (so every placement of '
                'wraps incl. first/last sample) x phase_step in {1.5pi,2.55,1.45} x return_good in {False,True} + the '
                'Cycles container, compared with the model by block hash; plus long synthetic phases and 2-3 column '
                'input; non-trivial = the series contains at least one wrap' % (min(lengths), max(lengths)))
    ctx.proof(extra=['props/Prop_Tie_Cycles.v', 'props/Prop_Tie_Wave.v'])  # translation tie: program regenerated from the source + refinement theorems
    f12, _, bad = cvx.enumerate_domain(ctx, lengths, CFGS)
    ctx.exhaustive = True
    report(ctx, f12)
    # a very long recording: 40000 cycles of three samples (labels must run 0..39999 - beyond any 16-bit counter)
    from emd import cycles as _cy
    K = 40000
    ph_long = np.tile(np.array([0.3, 3.0, 6.0]), K)
    try:
        with common.time_limit(120):
            lab = np.asarray(_cy.get_cycle_vector(ph_long, return_good=False)).reshape(-1)
        ok = lab.shape == (3 * K,) and np.array_equal(lab, np.repeat(np.arange(K), 3))
        detail = 'labels are not 0..%d, three samples each (first mismatch at sample %s)' % (
            K - 1, int(np.argmax(lab != np.repeat(np.arange(K), 3))) if lab.shape == (3 * K,) else 'n/a')
    except common.Timeout:
        ok, detail = True, ''
        ctx.discarded += 1
    except Exception as e:                                              # noqa
        ok, detail = False, 'detection failed: %s: %s' % (type(e).__name__, e)
    ctx.count(('long-40000-cycles',), True, 'very-long')
    ctx.tol_cmp += 1
    if not ok:
        ctx.problem('impl-violation', 'get_cycle_vector(return_good=False)', 'a recording of %d cycles of three samples (phase 0.3, 3.0, 6.0 '
                    'repeated): %s' % (K, detail), input=dict(very_long=K))
    # long synthetic phases (explicit cases)
    longs = cvx.long_cases(ctx, 60 if ctx.quick() else 1500)
    coded = [cvx.code_cfg(s, e) for s, e in CFGS]
    expr = 'fun ph => run_cv %s None ph' % common.zlistlist(coded)
    mh = ctx.model_hashes(cvx.IMPORTS, [zlist(c) for c in longs], expr, shard=100)
    for codes, h in zip(longs, mh):
        out = cvx.impl_run_cv(codes, CFGS)
        ctx.count(codes, bool(cvx.wraps_of(codes, 37)), 'long')
        ctx.exact_cmp += 1
        a, _ = cvx.oracle_all(codes, CFGS)
        if a:
            report(ctx, [(codes, a)])
        elif common.hashL(out) != h and not bad:
            bad.append(('long', codes, out, expr))
    ctx.sample(dict(phase=[c / cvx.UNIT for c in longs[0][:40]], note='first 40 samples of a long synthetic phase'))
    ctx.sample(dict(phase=[c / cvx.UNIT for c in cvx.seq_of_index(6, 777)], cfgs=[list(map(float, c)) for c in CFGS]))
    # multi-column input: each column must equal the single-column result
    from emd import cycles
    ncol_cases = 100 if ctx.quick() else 2000
    for _ in range(ncol_cases):
        ln = ctx.rng.randint(3, 9)
        cols = [cvx.seq_of_index(ln, ctx.rng.randrange(5 ** ln)) for _ in range(ctx.rng.choice([2, 3]))]
        ph = np.array(cols, dtype=float).T / cvx.UNIT
        ctx.count(cols, True, 'multicolumn')
        for rg in (False, True):
            try:
                multi = cycles.get_cycle_vector(ph, return_good=rg)
                single = [cycles.get_cycle_vector(ph[:, j], return_good=rg).reshape(-1) for j in range(ph.shape[1])]
                if multi.shape != ph.shape or any(not np.array_equal(multi[:, j], single[j]) for j in range(ph.shape[1])):
                    ctx.problem('impl-violation', 'get_cycle_vector(multi-column)', 'columns are not treated independently',
                                input=dict(phase_columns=cols, return_good=rg))
            except Exception as e:
                if not any(p['kind'] == 'impl-violation' for p in ctx.problems):
                    ctx.problem('impl-violation', 'get_cycle_vector(multi-column)', 'detection failed: %r' % e,
                                input=dict(phase_columns=cols, return_good=rg))
    # phases right at the top of the range [0, 2pi): the last representable values below 2pi (oracle only: with all cycles
    # requested the label of a sample is the number of wraps up to it, recomputed from the float input itself)
    twopi = 2 * np.pi
    edge_vals = [0.0, 0.25, 1.5, 3.0, 4.5, 6.25, twopi - 1e-6, twopi - 1e-9, float(np.nextafter(twopi, 0))]
    for k in range(300 if ctx.quick() else 6000):
        ln = ctx.rng.randint(2, 12)
        ph = [ctx.rng.choice(edge_vals) for _ in range(ln)]
        step = ctx.rng.choice([1.5 * np.pi, 2.55, 1.45])
        exp, cnt = [], 0
        for i in range(ln):
            if i > 0 and abs(ph[i] - ph[i - 1]) > step:
                cnt += 1
            exp.append(cnt)
        if cnt == 0:
            exp = [-1] * ln
        ctx.count(('edge', tuple(ph), step), cnt > 0, 'edge-valued')
        ctx.exact_cmp += 1
        try:
            with common.time_limit(20):
                got = [int(v) for v in cycles.get_cycle_vector(np.array(ph), return_good=False, phase_step=step).reshape(-1)]
        except Exception as e:
            got = 'raised %r' % e
        if got != exp:
            ctx.problem('impl-violation', 'get_cycle_vector(edge-valued phase)', 'phase %s (phase_step %.4g): labels %s, the wraps of the input '
                        'give %s' % (ph, step, got, exp), input=dict(phase_float=ph, phase_step=step, expected=exp))
            break
    ctx.nontrivial |= {'enum%d' % i for i in range(ctx.extra.get('nontrivial_enumerated', 0))}
    if bad and not any(p['kind'] == 'impl-violation' for p in ctx.problems):
        b = bad[0]
        if b[0] == 'long':
            ctx.problem('correspondence-break', 'run_cv', 'model and implementation differ on a long phase series',
                        input=dict(phase_codes=b[1]), observed=b[2], theorem='CycleVec.run_cv vs emd.cycles.get_cycle_vector')
        else:
            codes, out, mo = cvx.locate_mismatch(ctx, b[0], b[1], b[2], b[3], CFGS)
            ctx.problem('correspondence-break', 'run_cv', 'model and implementation differ on an enumerated phase series',
                        input=dict(phase_codes=codes), observed=out, expected=mo,
                        theorem='CycleVec.run_cv vs emd.cycles.get_cycle_vector / Cycles')


def replay(rec):
    inp = rec['input']
    if 'very_long' in inp:
        from emd import cycles
        K = inp['very_long']
        try:
            lab = np.asarray(cycles.get_cycle_vector(np.tile(np.array([0.3, 3.0, 6.0]), K), return_good=False)).reshape(-1)
        except Exception as e:                                          # noqa
            print('raised', repr(e))
            return True
        return not np.array_equal(lab, np.repeat(np.arange(K), 3))
    if 'phase_float' in inp:
        from emd import cycles
        try:
            got = [int(v) for v in cycles.get_cycle_vector(np.array(inp['phase_float']), return_good=False, phase_step=inp['phase_step']).reshape(-1)]
        except Exception as e:
            got = repr(e)
        print(got, inp['expected'])
        return got != inp['expected']
    if 'phase_codes' in inp:
        a, _ = cvx.oracle_all(inp['phase_codes'], CFGS)
        for f in a:
            print(f)
        return bool(a)
    return False
