"""C07 - masked sift applies the documented masks, removes them, and is schedule independent.

PROOF          coq/props/Prop_C07.v  (model: coq/model/MaskSift.v; outer loop SiftCore.peel_loop; pool = its contract)
CORRESPONDENCE (a) toy mode, bit exact: the real get_next_imf_mask / mask_sift with emd.sift.interp_envelope replaced by an
               integer toy envelope acting on the integer part of a fixed-point signal and emd.sift's `np` reference replaced
               (inside a context manager only) by a proxy whose cos is rounded to multiples of 1/16; integer amplitudes,
               frequencies that are multiples of 1/512, nphases in {1,2,4,8}; frequency sources zero-crossing / explicit
               float / explicit list, scalar / array absolute amplitudes, step factors 2 and 4, nprocesses 1..3 (1..8);
               the model's pool evaluated under random valid schedules;  the cosine table itself, exhaustively (512 steps)
               (b)-(d) are decided against the executable specification below (they need libm's cosine and ndarray.std)
ORACLE         an executable specification of the masking rule in plain numpy on random real signals:
               masked IMF == mean_j(get_next_imf(X + m_j) - m_j), m_j = amp cos(2 pi (z t + j/n)), nphases 1..8 (1e-9);
               zero amplitude == plain get_next_imf (exact for nphases a power of two, 1e-12 otherwise);
               mask_sift(ret_mask_freq=True) for sources {zc, if, float, list} x modes {abs, ratio_sig, ratio_imf} x
               scalar/array amplitudes x step factors: returned frequencies == the z handed to each get_next_imf_mask call
               (traced by a harness-side wrapper), ladder == first / step**i, first frequency recomputed from the first plain
               IMF, amplitudes recomputed from the returned columns, every column == the specification on the traced residual;
               byte equality of get_next_imf_mask and mask_sift results across nprocesses
Only imf_opts are passed (never envelope_opts / extrema_opts): forwarding of those is C06's subject.
FINDING        C07-numpy-scalar-amplitude (notes/fixes/C07-numpy-scalar-amplitude.diff): a scalar amplitude given as a numpy scalar other
               than np.float64 (np.float32, np.int64, 0-d array) was indexed like an array -> IndexError; model keeps amp_of_v0 /
               mask_sift_v0 and Prop_C07.mask_sift_numpy_scalar_v0_refuted.  Problems of this kind carry tags defect=numpy-scalar-amplitude.
"""
import contextlib
import types
import warnings
from fractions import Fraction

import numpy as np

import common
import toys
from common import zlist, zlit
from props import siftcore

IMPORTS = ('From EmdV Require Import lib.NpLite model.Extrema model.SiftCore model.Toys model.Variants model.MaskSift.')
FXU = 65536
COSQ = 16          # the proxy cosine is a multiple of 1/16
TURN = 512         # table steps per turn


# ----------------------------------------------------------------------------- patches (toy mode)
def qcos(x):
    return np.round(np.cos(x) * COSQ) / COSQ


class NpProxy(types.ModuleType):
    """stands in for the name `np` inside emd.sift only: cos is quantised, everything else is numpy's"""

    def __init__(self, real):
        super().__init__('numpy_proxy_c07')
        self.__dict__['_real'] = real

    def __getattr__(self, k):
        return getattr(self.__dict__['_real'], k)

    def cos(self, x):
        return qcos(x)


class FxEnvelope:
    """integer toy envelope (toys.toy_mean / toy_amp) of the INTEGER PART of a signal living on the 2^-16 grid;
    twin of MaskSift.fx_envs"""
    LIMIT = 2.0 ** 11

    def __init__(self, rule):
        self.rule = rule

    def __call__(self, X, mode='upper', interp_method='splrep', extrema_opts=None, ret_extrema=False):
        xs = np.asarray(X, dtype=float).reshape(-1)
        sc = xs * FXU
        if not np.all(np.isfinite(xs)) or np.abs(xs).max(initial=0) > self.LIMIT or not np.all(sc == np.round(sc)):
            raise toys.ToyDomainError('fixed-point toy envelope fed an off-grid / overflowing signal')
        x = [int(v) for v in np.floor(xs)]
        nmax = len(toys.strict_maxima(x))
        nmin = len(toys.strict_maxima([-v for v in x]))
        if mode == 'upper' and nmax < 2:
            return None
        if mode == 'lower' and nmin < 2:
            return None
        if nmax < 2 or nmin < 2:
            return np.zeros(len(x))
        m = np.array(toys.toy_mean(self.rule, x), dtype=float)
        d = float(toys.toy_amp(x))
        return m + d if mode == 'upper' else m - d


@contextlib.contextmanager
def toy_patched(rule):
    from emd import sift
    real_env, real_np = sift.interp_envelope, sift.np
    sift.interp_envelope = FxEnvelope(rule)
    sift.np = NpProxy(real_np)
    try:
        yield
    finally:
        sift.interp_envelope, sift.np = real_env, real_np


@contextlib.contextmanager
def traced_masks():
    """records every get_next_imf_mask call mask_sift makes (arguments and result)"""
    from emd import sift
    real = sift.get_next_imf_mask
    log = []

    def wrapper(X, z, amp, nphases=4, nprocesses=1, imf_opts=None, envelope_opts=None, extrema_opts=None):
        out = real(X, z, amp, nphases=nphases, nprocesses=nprocesses, imf_opts=imf_opts,
                   envelope_opts=envelope_opts, extrema_opts=extrema_opts)
        log.append(dict(z=z, amp=amp, nphases=nphases, X=np.array(X, dtype=float).reshape(-1),
                        imf=np.array(out[0], dtype=float).reshape(-1), flag=bool(out[1])))
        return out
    sift.get_next_imf_mask = wrapper
    try:
        yield log
    finally:
        sift.get_next_imf_mask = real


def _run(fn, timeout=20):
    """('ok', value) | ('converge'|'timeout'|'nonint', None) | ('raised', exc)"""
    with warnings.catch_warnings():
        warnings.simplefilter('ignore')
        try:
            with common.time_limit(timeout):
                return 'ok', fn()
        except common.Timeout:
            return 'timeout', None
        except toys.ToyDomainError:
            return 'nonint', None
        except Exception as e:
            if type(e).__name__ == 'EMDSiftCovergeError':
                return 'converge', e
            return 'raised', e


# ----------------------------------------------------------------------------- the executable specification
def spec_masks(N, z, amp, n, cosf, variant):
    """m_j = amp cos(2 pi z t + 2 pi j / n), j < n.  variant 0: the documented grid linspace(0, 2pi, n+1)[:n];
    variant 1: the same angles computed as 2 pi (z t + j/n) (used only to detect ill-conditioned cases)"""
    t = np.arange(N)
    if variant == 0:
        ph = np.linspace(0, 2 * np.pi, n + 1)[:n]
        return [amp * cosf(z * 2 * np.pi * t + ph[j]) for j in range(n)]
    return [amp * cosf(2 * np.pi * (z * t + j / n)) for j in range(n)]


def spec_gni_mask(x, z, amp, n, imf_opts, cosf=np.cos, variant=0):
    """mean over the n phases of (single-IMF extraction of signal + mask) - that same mask; flag = any"""
    from emd import sift
    x = np.asarray(x, dtype=float).reshape(-1)
    outs, flags = [], []
    for m in spec_masks(len(x), z, amp, n, cosf, variant):
        imf, fl = sift.get_next_imf(x + m, **imf_opts)
        outs.append(imf[:, 0] - m)
        flags.append(bool(fl))
    return np.mean(outs, axis=0), any(flags)


def same_float(a, b):
    """equal as floats, nan equal to nan (the 'if' estimate can be nan on plateau signals: that value is then both used and returned)"""
    a, b = float(a), float(b)
    return a == b or (a != a and b != b)


AMP_TYPES = {'float': float, 'int': int, 'float64': np.float64, 'float32': np.float32, 'int64': np.int64, 'int32': np.int32,
             'ndarray0': lambda v: np.array(float(v)), 'list': list, 'tuple': tuple, 'ndarray': np.array}


def amp_type_name(a):
    if isinstance(a, np.ndarray):
        return 'ndarray0' if a.ndim == 0 else 'ndarray'
    return type(a).__name__


def amp_plain(a):
    """JSON-able value of an amplitude argument"""
    if isinstance(a, np.ndarray):
        return a.tolist()
    if isinstance(a, (list, tuple)):
        return [float(v) for v in a]
    return a.item() if isinstance(a, np.generic) else a


def is_numpy_scalar(a):
    return np.ndim(a) == 0 and not isinstance(a, (int, float))


def close(a, b, scale, tol=1e-9):
    return a.shape == b.shape and bool(np.all(np.abs(a - b) <= tol * scale))


def check_against_spec(got, flag, x, z, amp, n, imf_opts, cosf=np.cos, exact=False):
    """returns (verdict, detail): 'ok' | 'bad' | 'illcond' | 'spec-raised'"""
    st0, s0 = _run(lambda: spec_gni_mask(x, z, amp, n, imf_opts, cosf, 0))
    if st0 != 'ok':
        return 'spec-raised', None
    scale = max(1.0, float(np.abs(x).max(initial=0)), abs(float(amp)))
    if exact:
        ok = np.array_equal(got, s0[0]) and bool(flag) == s0[1]
        return ('ok' if ok else 'bad'), (None if ok else 'max deviation %.3g, flag %s vs %s' % (float(np.abs(got - s0[0]).max()), flag, s0[1]))
    if close(got, s0[0], scale) and bool(flag) == s0[1]:
        return 'ok', None
    st1, s1 = _run(lambda: spec_gni_mask(x, z, amp, n, imf_opts, cosf, 1))
    if st1 != 'ok':
        return 'illcond', None
    if close(got, s1[0], scale) and bool(flag) == s1[1]:
        return 'ok', None
    if not (close(s0[0], s1[0], scale) and s0[1] == s1[1]):
        return 'illcond', None          # the specification itself is not stable under 1-ulp changes of the mask
    return 'bad', 'max deviation %.3g (scale %.3g), flag %s vs %s' % (float(np.abs(got - s0[0]).max()), scale, flag, s0[1])


# ----------------------------------------------------------------------------- oracle: get_next_imf_mask on real numerics
def oracle_gni(x, z, amp, n, imf_opts, procs, dtype=None):
    """the property on one call; returns (fails, path).  dtype: the implementation receives the signal as integer counts /
    single precision (x holds the float64 values those elements denote: the specification is about them)"""
    from emd import sift
    xv = np.asarray(x, dtype=float)
    x = xv.astype(dtype) if dtype else xv
    assert np.array_equal(x.astype(float), xv)
    fails = []
    st, r = _run(lambda: sift.get_next_imf_mask(x, z, amp, nphases=n, nprocesses=procs[0], imf_opts=imf_opts))
    if st == 'timeout':
        return [], 'timeout'
    if st != 'ok':
        st0, _ = _run(lambda: spec_gni_mask(x, z, amp, n, imf_opts))
        if st0 == 'ok':
            return ['get_next_imf_mask raised %r although each of the %d single extractions of signal+mask succeeds' % (r, n)], 'raised'
        return [], 'converge'
    got, flag = np.asarray(r[0])[:, 0], bool(r[1])
    if np.asarray(r[0]).shape != (len(x), 1):
        fails.append('result shape %s, expected (%d, 1)' % (np.asarray(r[0]).shape, len(x)))
        return fails, 'shape'
    verdict, detail = check_against_spec(got, flag, x, z, amp, n, imf_opts)
    if verdict == 'bad':
        fails.append('masked IMF is not the average over %d equally spaced phases of extraction(signal + mask) - mask '
                     '(z=%r, amp=%r): %s' % (n, z, amp, detail))
    # zero amplitude (the masked path always extracts from the float array signal + 0: compared with plain extraction of the float values)
    st, r0 = _run(lambda: sift.get_next_imf_mask(x, z, 0, nphases=n, nprocesses=procs[0], imf_opts=imf_opts))
    st1, p = _run(lambda: sift.get_next_imf(xv, **imf_opts))
    if st == 'ok' and st1 == 'ok':
        a, b = np.asarray(r0[0])[:, 0], np.asarray(p[0])[:, 0]
        pow2 = n in (1, 2, 4, 8)
        same = np.array_equal(a, b) if pow2 else close(a, b, max(1.0, float(np.abs(b).max(initial=0))), 1e-12)
        if not same or bool(r0[1]) != bool(p[1]):
            fails.append('zero-amplitude mask (nphases=%d) differs from plain get_next_imf: max deviation %.3g, flags %s vs %s'
                         % (n, float(np.abs(a - b).max()), r0[1], p[1]))
    elif (st == 'ok') != (st1 == 'ok') and 'timeout' not in (st, st1):
        fails.append('zero-amplitude mask: masked call %s, plain get_next_imf %s' % (st, st1))
    # any number of worker processes
    for k in procs[1:]:
        st, rk = _run(lambda: sift.get_next_imf_mask(x, z, amp, nphases=n, nprocesses=k, imf_opts=imf_opts))
        if st == 'timeout':
            continue
        if st != 'ok' or np.asarray(rk[0]).tobytes() != np.asarray(r[0]).tobytes() or bool(rk[1]) != flag:
            fails.append('result with nprocesses=%d differs from nprocesses=%d (%s)' % (k, procs[0], st))
            break
    return fails, verdict


# ----------------------------------------------------------------------------- oracle: mask_sift on real numerics
def first_freq_spec(x, src, imf_opts):
    from emd import sift, spectra
    if isinstance(src, float):
        return src, 0.0
    imf1 = sift.get_next_imf(x, **imf_opts)[0]
    if src == 'zc':
        c = int((np.diff(np.sign(imf1[:, 0])) != 0).sum())
        return c / imf1.shape[0] / 4, 1e-12
    _, IF, IA = spectra.frequency_transform(imf1[:, 0, None], 1, 'nht', smooth_phase=3)
    return float(np.average(IF, weights=IA)), 1e-9


def oracle_mask_sift(x, src, mode, mask_amp, step, max_imfs, n, imf_opts, procs):
    """returns (fails, path, ndiscarded)"""
    from emd import sift
    x = np.asarray(x, dtype=float)
    fails, disc = [], 0
    kw = dict(mask_amp=mask_amp, mask_amp_mode=mode, mask_freqs=src, mask_step_factor=step, max_imfs=max_imfs, nphases=n,
              imf_opts=imf_opts, ret_mask_freq=True)

    def call(k):
        return sift.mask_sift(x, nprocesses=k, **kw)
    with traced_masks() as log:
        st, r = _run(lambda: call(procs[0]), timeout=60)
    if st == 'raised' and is_numpy_scalar(mask_amp):
        st2, _ = _run(lambda: sift.mask_sift(x, nprocesses=procs[0], **dict(kw, mask_amp=amp_plain(mask_amp))), timeout=60)
        if st2 == 'ok':
            return ['mask_sift raised %r for the scalar amplitude %r of type %s although the equal Python number is accepted: no '
                    'masked IMF is produced and the amplitude rule is not applied' % (r, mask_amp, amp_type_name(mask_amp))], 'raised-npscalar', 0
    if st != 'ok':
        return [], st, 0
    imf, freqs = r
    freqs_a = np.asarray(freqs, dtype=float)
    K = imf.shape[1]
    if len(log) != K:
        fails.append('%d columns returned but get_next_imf_mask was called %d times' % (K, len(log)))
        return fails, 'calls', 0
    explicit = isinstance(src, (list, tuple, np.ndarray))
    # returned frequencies are the ones used
    for k in range(K):
        if k >= len(freqs_a) or not same_float(freqs_a[k], log[k]['z']):
            fails.append('layer %d was extracted with mask frequency %r but the returned list says %r'
                         % (k, log[k]['z'], freqs_a[k] if k < len(freqs_a) else None))
            break
        if log[k]['nphases'] != n:
            fails.append('layer %d used %r phases, %d requested' % (k, log[k]['nphases'], n))
            break
    # ... and follow the documented rule
    if explicit:
        if not np.array_equal(freqs_a, np.asarray(src, dtype=float), equal_nan=True):
            fails.append('returned frequencies %s are not the user\'s list %s' % (freqs_a.tolist(), list(src)))
    else:
        if len(freqs_a) != max_imfs:
            fails.append('%d frequencies generated for max_imfs=%d' % (len(freqs_a), max_imfs))
        lad = np.array([freqs_a[0] / step ** i for i in range(len(freqs_a))])
        if np.isfinite(freqs_a[0]) and not np.all(np.abs(freqs_a - lad) <= 1e-12 * np.abs(lad)):
            fails.append('mask frequencies %s are not the first one divided by successive powers of the step factor %r (%s)'
                         % (freqs_a.tolist(), step, lad.tolist()))
        st, zf = _run(lambda: first_freq_spec(x, src, imf_opts))
        if st == 'ok' and not same_float(freqs_a[0], zf[0]) and not abs(freqs_a[0] - zf[0]) <= zf[1] * max(abs(zf[0]), 1e-300):
            fails.append('first mask frequency %r, but source %r gives %r' % (freqs_a[0], src, zf[0]))
    # amplitudes follow the mode
    sdx = float(x.std())
    for k in range(K):
        a = float(mask_amp) if np.ndim(mask_amp) == 0 else float(mask_amp[k])
        if mode == 'abs':
            want = a * 1.0
        elif mode == 'ratio_sig' or k == 0:
            want = a * sdx
        else:
            want = a * float(imf[:, k - 1].std())
        if not same_float(log[k]['amp'], want) and not abs(log[k]['amp'] - want) <= 1e-12 * max(abs(want), 1e-300):
            fails.append('layer %d: mask amplitude %r, mode %r prescribes %r' % (k, log[k]['amp'], mode, want))
            break
    # every column is the masked extraction of the residual it was given
    verdicts = []
    for k in range(K):
        if not np.array_equal(log[k]['imf'], imf[:, k], equal_nan=True):
            fails.append('column %d is not what get_next_imf_mask returned for layer %d' % (k, k))
            break
        verdict, detail = check_against_spec(imf[:, k], log[k]['flag'], log[k]['X'], log[k]['z'], log[k]['amp'], n, imf_opts)
        verdicts.append(verdict)
        if verdict == 'bad':
            fails.append('column %d is not the average over %d phases of extraction(residual + mask) - mask (z=%r, amp=%r): %s'
                         % (k, n, log[k]['z'], log[k]['amp'], detail))
            break
        if verdict != 'ok':
            disc += 1
    # identical for any number of worker processes
    for p in procs[1:]:
        st, rp = _run(lambda: call(p), timeout=60)
        if st == 'timeout':
            continue
        if st != 'ok' or rp[0].tobytes() != imf.tobytes() or not np.array_equal(np.asarray(rp[1], dtype=float), freqs_a, equal_nan=True):
            fails.append('mask_sift with nprocesses=%d differs from nprocesses=%d (%s)' % (p, procs[0], st))
            break
    return fails, 'cols%d' % min(K, 6), disc


# ----------------------------------------------------------------------------- toy mode (exact)
def render_q(v):
    f = Fraction(float(v))
    return [f.numerator, f.denominator]


def on_grid(a):
    a = np.asarray(a, dtype=float)
    return bool(np.all(np.isfinite(a)) and np.all(a * FXU == np.round(a * FXU)))


def impl_toy_gni(case, nproc):
    """Toys.render_gni format: [0; flag; 0] ++ values in 2^-16 units | [5; 0] raised"""
    from emd import sift
    cfg, x, (zn, zd), amp, n = case
    X = np.array(x, dtype=float)
    with toy_patched(cfg[0]):
        st, r = _run(lambda: sift.get_next_imf_mask(X, zn / zd, amp, nphases=n, nprocesses=nproc, imf_opts=toys.imf_opts(cfg)))
    if st in ('timeout', 'nonint'):
        return st, None
    if st == 'converge':
        return 'ok', [5, 0]
    if st == 'raised':
        return 'ok', [-common.exc_code(r)]
    if not on_grid(r[0]):
        return 'nonint', None
    return 'ok', [0, int(bool(r[1])), 0] + [int(v) for v in np.round(np.asarray(r[0])[:, 0] * FXU)]


def toy_oracle_gni(case, nproc):
    """the property in toy mode (exact): impl == mean_j(get_next_imf(X + m_j) - m_j) with the same patches"""
    from emd import sift
    cfg, x, (zn, zd), amp, n = case
    X = np.array(x, dtype=float)
    with toy_patched(cfg[0]):
        st, r = _run(lambda: sift.get_next_imf_mask(X, zn / zd, amp, nphases=n, nprocesses=nproc, imf_opts=toys.imf_opts(cfg)))
        if st != 'ok':
            return None
        v, d = check_against_spec(np.asarray(r[0])[:, 0], bool(r[1]), X, zn / zd, amp, n, toys.imf_opts(cfg), cosf=qcos, exact=True)
    return d if v == 'bad' else None


def impl_toy_mask_sift(case, nproc):
    """run_fx_mask_sift format"""
    from emd import sift
    cfg, x, src, (sn, sd), max_imfs, is_arr, amps, n = case
    X = np.array(x, dtype=float)
    if src[0] == 0:
        mf = 'zc'
    elif src[0] == 2:
        mf = src[1] / src[2]
    else:
        mf = [src[i] / src[i + 1] for i in range(1, len(src), 2)]
    step = sn // sd if sn % sd == 0 else sn / sd
    amp = list(amps) if is_arr == 1 else (np.int64(amps[0]) if is_arr == 2 else amps[0])
    with toy_patched(cfg[0]), traced_masks() as log:
        st, r = _run(lambda: sift.mask_sift(X, mask_amp=amp, mask_amp_mode='abs', mask_freqs=mf, mask_step_factor=step,
                                            max_imfs=max_imfs, sift_thresh=cfg[14] / 2, nphases=n, nprocesses=nproc,
                                            ret_mask_freq=True, imf_opts=toys.imf_opts(cfg)), timeout=40)
    if st in ('timeout', 'nonint'):
        return st, None, log
    if any(e['z'] * TURN != np.round(e['z'] * TURN) for e in log):
        return 'nonint', None, log                   # a mask frequency off the cosine table
    if st in ('converge', 'raised'):
        return 'ok', [-1], log
    imf, freqs = r
    if not on_grid(imf):
        return 'nonint', None, log
    out = [0]
    for k in range(imf.shape[1]):
        out += [int(v) for v in np.round(imf[:, k] * FXU)] + [-99999]
    out += [-99998]
    for f in np.asarray(freqs, dtype=float):
        out += render_q(f)
    return 'ok', out, log


def toy_oracle_mask_sift(case, nproc):
    """the property in toy mode: returned == used, every column == the exact specification on its traced residual"""
    cfg = case[0]
    n = case[7]
    st, out, log = impl_toy_mask_sift(case, nproc)
    if st == 'ok' and out == [-1] and case[5] == 2:
        st2, out2, _ = impl_toy_mask_sift(case[:5] + (0,) + case[6:], nproc)
        if st2 == 'ok' and out2 != [-1]:
            return ('mask_sift raised for the scalar amplitude np.int64(%d) although the equal Python number is accepted: no masked IMF is '
                    'produced and the amplitude rule is not applied' % case[6][0])
    if st != 'ok' or out == [-1]:
        return None
    nfreq = out[out.index(-99998) + 1:]
    freqs = [Fraction(nfreq[i], nfreq[i + 1]) for i in range(0, len(nfreq), 2)]
    with toy_patched(cfg[0]):
        for k, e in enumerate(log):
            if k >= len(freqs) or Fraction(float(e['z'])) != freqs[k]:
                return 'layer %d used frequency %r, returned list says %s' % (k, e['z'], freqs[k] if k < len(freqs) else None)
            v, d = check_against_spec(e['imf'], e['flag'], e['X'], e['z'], e['amp'], n, toys.imf_opts(cfg), cosf=qcos, exact=True)
            if v == 'bad':
                return 'column %d: %s' % (k, d)
    return None


def gen_toy_signal(rng, N):
    x = toys.gen_signal(rng, N)
    m = max(abs(v) for v in x) or 1
    if m > 400:
        x = [4 * ((v * 400 // m) // 4) for v in x]
    if rng.random() < 0.3:
        x = [v + rng.randint(-3, 3) for v in x]       # off the multiples of 4
    return x


def gen_toy_cfg(rng):
    cfg = toys.gen_cfg(rng)
    cfg[5] = 0
    cfg[15] = 0
    cfg[16] = 0
    if cfg[0] == 1 and cfg[2] > 8:
        cfg[2] = 8                  # toy rule 1 grows under long iteration
    return cfg


def gen_toy_gni_case(rng):
    cfg = gen_toy_cfg(rng)
    x = gen_toy_signal(rng, rng.choice([8, 12, 16, 20, 24, 32]))
    zn, zd = rng.choice([(rng.randint(1, 31), 64), (rng.randint(1, 31), 64), (rng.randint(1, 255), 512), (1, 4), (1, 2), (0, 1), (1, 8), (3, 16)])
    amp = rng.choice([0, 1, 3, 8, 16, 20, 37, 64, -5, -16, rng.randint(1, 64)])
    n = rng.choice([1, 2, 4, 4, 8])
    return (cfg, x, (zn, zd), amp, n)


def gen_toy_ms_case(rng):
    cfg = gen_toy_cfg(rng)
    if cfg[1] != 2 and rng.random() < 0.8:
        cfg[2] = rng.choice([8, 20, 20]) if cfg[0] != 1 else 8       # fewer convergence errors: more layers reached
    if rng.random() < 0.6:
        cfg[14] = 1
    N = rng.choice([16, 32, 32])
    x = gen_toy_signal(rng, N)
    kind = rng.choice(['zc', 'zc', 'zc', 'zc', 'float', 'float', 'float', 'float', 'list', 'list', 'list', 'list', 'badfloat'])
    sn = rng.choice([2, 2, 4])
    n = rng.choice([1, 2, 4, 4, 8])
    if kind == 'zc':
        src = [0]
        max_imfs = max(rng.randint(1, 3 if sn == 2 else 2), rng.randint(1, 3 if sn == 2 else 2))
    elif kind == 'float':
        zn, zd = rng.choice([(1, 4), (3, 16), (1, 8), (5, 32), (3, 8), (7, 16), (7, 32)])
        src = [2, zn, zd]
        max_imfs = max(rng.randint(1, 4 if sn == 2 else 2), rng.randint(1, 4 if sn == 2 else 2))
    elif kind == 'badfloat':
        zn, zd = rng.choice([(1, 2), (3, 4), (-1, 4), (0, 1)])
        src = [2, zn, zd]
        max_imfs = rng.randint(1, 3)
    else:
        k = max(rng.randint(1, 4), rng.randint(1, 4))
        src = [3]
        for _ in range(k):
            src += list(rng.choice([(1, 4), (3, 16), (1, 8), (5, 64), (1, 16), (3, 32), (1, 32), (9, 128), (0, 1), (1, 2)]))
        max_imfs = max(rng.randint(1, 5), rng.randint(1, 5))
    if n == 8:
        max_imfs = min(max_imfs, 3)
    is_arr = rng.choice([0, 0, 1, 1, 1, 2])          # Python scalar / array / numpy scalar (np.int64)
    if is_arr == 1:
        amps = [rng.choice([0, 2, 5, 8, 16, 24, 40, -8]) for _ in range(rng.choice([max_imfs, max_imfs, 5, 5, 5, max(1, max_imfs - 1)]))]
    else:
        amps = [rng.choice([0, 1, 4, 8, 16, 20, 33, 64])]
    return (cfg, x, src, (sn, 1), max_imfs, int(is_arr), amps, n)


def lit_gni(case):
    cfg, x, (zn, zd), amp, n = case
    return '((%s, %s), ((%s, %d), (%s, %d)))' % (zlist(cfg), zlist(x), zlit(zn), zd, zlit(amp), n)


EXPR_GNI = 'fun c => run_fx_gni_mask (fst (fst c)) (snd (fst c)) (fst (snd c)) (fst (snd (snd c))) (snd (snd (snd c)))'


def lit_ms(case):
    cfg, x, src, (sn, sd), max_imfs, is_arr, amps, n = case
    return '((%s, %s), (%s, (%d, %d)), ((%d, %d), (%s, %d)))' % (zlist(cfg), zlist(x), zlist(src), sn, sd, max_imfs, is_arr, zlist(amps), n)


EXPR_MS = ('fun c => match c with ((cfg, X), (src, s), ((mi, ia), (amps, n))) => run_fx_mask_sift cfg X src s mi ia amps n end')


def random_schedule(rng, n, w):
    order = list(range(n))
    rng.shuffle(order)
    return [(t, rng.randrange(w)) for t in order]


# ----------------------------------------------------------------------------- run
def run(ctx):
    quick = ctx.quick()
    ctx.rule = ('toy mode (bit exact; real code, integer toy envelope on a 2^-16 fixed-point grid, cosine quantised to 1/16): '
                'get_next_imf_mask over random toy configurations x integer signals of 8..32 samples x frequencies k/64, k/512, 0, 1/2 x '
                'integer amplitudes incl. 0 and negative x nphases {1,2,4,8} x nprocesses 1..3 (thorough 1..8); mask_sift x sources '
                '{zc, explicit float incl. invalid ones, explicit list} x step {2,4} x max_imfs 1..5 x scalar/array absolute amplitudes '
                '(incl. arrays that are too short); the model\'s pool under random valid schedules; the 512-step cosine table exhaustively.  '
                'real numerics (tolerance 1e-9 against the plain-numpy specification): get_next_imf_mask nphases 1..8, zero amplitude, '
                'nprocesses; mask_sift x 4 sources x 3 amplitude modes x scalar/array x step factors {2, 3, 1.5, 4}.  '
                'non-trivial = non-zero amplitude and at least one sifting iteration path (an IMF was returned), or >= 2 layers')
    ctx.proof(extra=['props/Prop_Tie_Mask.v'])  # translation tie: program regenerated from the source + refinement theorems
    procs_all = [1, 2, 3] if quick else [1, 2, 3, 4, 5, 6, 7, 8]
    bad = []

    # ---- (a0) the cosine table, exhaustive
    ks = list(range(-3, TURN + 3))
    mo = ctx.model_outputs(IMPORTS, [zlit(k) for k in ks], 'fun k => run_cos16 k', shard=600)
    proxy = NpProxy(np)
    for k, exp in zip(ks, mo):
        want = int(np.round(np.cos(2 * np.pi * k / TURN) * COSQ))
        got = int(proxy.cos(2 * np.pi * k / TURN) * COSQ)
        ctx.exact_cmp += 1
        ctx.hist['cos-table'] += 1
        if exp != [want] or got != want:
            bad.append(('cos16', dict(kind='cos', k=k), [got], exp))
    ctx.notes.append('the 512-step quantised cosine table of the model was compared with numpy over its whole index range')

    # ---- (a1) get_next_imf_mask, toy mode
    ngni = 100 if quick else 1200
    cases = [gen_toy_gni_case(ctx.rng) for _ in range(ngni)]
    mo = ctx.model_outputs(IMPORTS, [lit_gni(c) for c in cases], EXPR_GNI, shard=60 if quick else 150)
    pool_cases = []
    for i, (case, exp) in enumerate(zip(cases, mo)):
        nproc = ctx.rng.choice(procs_all)
        st, got = impl_toy_gni(case, nproc)
        if st != 'ok':
            ctx.discarded += 1
            continue
        inp = dict(kind='toy-gni', case=list(case), nprocesses=nproc)
        ctx.count(('toy-gni',) + tuple(map(repr, case)), case[3] != 0 and exp[0] == 0,
                  'toy-gni-%s-n%d-%s' % ('imf' if exp[0] == 0 else 'raised', case[4], 'amp0' if case[3] == 0 else 'amp'))
        ctx.exact_cmp += 1
        ctx.sample(dict(kind='toy-gni', cfg=case[0], signal=case[1], z='%d/%d' % case[2], amp=case[3], nphases=case[4]))
        if got != exp:
            d = toy_oracle_gni(case, nproc)
            if d is not None:
                ctx.problem('impl-violation', 'get_next_imf_mask', 'toy mode: masked IMF is not the average of extraction(signal+mask) - mask: ' + d,
                            input=inp, observed=got[:80], expected=exp[:80], tags=dict(mode='toy'))
            elif len(bad) < 8:
                bad.append(('get_next_imf_mask', inp, got, exp))
        elif len(pool_cases) < (12 if quick else 120) and exp[0] == 0:
            pool_cases.append((case, exp))
    # the model's pool under random valid schedules equals the model's sequential evaluation (and hence the implementation)
    lits = []
    for case, exp in pool_cases:
        w = ctx.rng.randint(1, 8)
        sch = random_schedule(ctx.rng, case[4], w)
        lits.append('(%s, (%d, [%s]))' % (lit_gni(case), w, '; '.join('(%d, %d)' % p for p in sch)))
    if lits:
        mo = ctx.model_outputs(IMPORTS, lits, 'fun cs => match cs with (c, (w, s)) => run_fx_gni_mask_pool (fst (fst c)) (snd (fst c)) (fst (snd c)) '
                               '(fst (snd (snd c))) (snd (snd (snd c))) w s end', shard=60)
        for (case, exp), got in zip(pool_cases, mo):
            ctx.exact_cmp += 1
            ctx.hist['model-pool-schedule'] += 1
            if got != exp and len(bad) < 8:
                bad.append(('model pool', dict(kind='toy-gni', case=list(case), nprocesses=1), exp, got))

    # ---- (a2) mask_sift, toy mode
    nms = 80 if quick else 800
    cases = [gen_toy_ms_case(ctx.rng) for _ in range(nms)]
    mo = ctx.model_outputs(IMPORTS, [lit_ms(c) for c in cases], EXPR_MS, shard=50 if quick else 120)
    for case, exp in zip(cases, mo):
        nproc = ctx.rng.choice(procs_all)
        st, got, log = impl_toy_mask_sift(case, nproc)
        if st != 'ok' or exp == [-6]:
            ctx.discarded += 1
            continue
        inp = dict(kind='toy-masksift', case=list(case), nprocesses=nproc)
        ncols = exp.count(-99999)
        srck = {0: 'zc', 2: 'float', 3: 'list'}[case[2][0]]
        ctx.count(('toy-ms',) + tuple(map(repr, case)), ncols >= 2, 'toy-masksift-%s-%s-%s' % (srck, ['scalar', 'array', 'npscalar'][case[5]],
                                                                                               'raised' if exp == [-1] else 'cols%d' % ncols))
        ctx.exact_cmp += 1
        if len(ctx.samples) < 3:
            ctx.sample(dict(kind='toy-masksift', cfg=case[0], signal=case[1], src=case[2], step=case[3][0], max_imfs=case[4], amps=case[6], nphases=case[7]))
        if got != exp:
            d = toy_oracle_mask_sift(case, nproc)
            if d is not None:
                ctx.problem('impl-violation', 'mask_sift', 'toy mode: ' + d, input=inp, observed=got[:80], expected=exp[:80],
                            tags=dict(mode='toy', defect=('numpy-scalar-amplitude' if got == [-1] and case[5] == 2 else 'masking-rule')))
            elif len(bad) < 8:
                bad.append(('mask_sift', inp, got, exp))

    # ---- (b), (d) and the oracle: get_next_imf_mask on real numerics
    nreal = 40 if quick else 400
    sigs = siftcore.real_signals(ctx.seed + 7, nreal, 32, 160)
    for i, (fam, x) in enumerate(sigs):
        imf_opts = siftcore.real_opts(ctx.rng)[0]
        n = 1 + i % 8
        z = ctx.rng.choice([ctx.rng.uniform(0.01, 0.49), ctx.rng.uniform(0.01, 0.49), 0.25, 0.125, 0.3, 0.05])
        dt = [None, None, 'int64', None, 'float32', 'int16'][i % 6]
        if dt:
            x = siftcore.as_dtype(x, dt)[1]         # the float64 values of the integer counts / single-precision samples
            ctx.hist['real-gni-dtype-' + dt] += 1
        amp = ctx.rng.choice([ctx.rng.uniform(0.1, 3.0), 1.0, 0.5, -1.5, 2]) * max(1e-3, float(np.std(x)) or 1.0)
        procs = [ctx.rng.choice(procs_all)]
        procs += [p for p in (ctx.rng.sample(procs_all, 2) if quick else procs_all) if p != procs[0]]
        fails, path = oracle_gni(x, z, amp, n, imf_opts, procs, dtype=dt)
        if path in ('timeout', 'illcond', 'spec-raised'):
            ctx.discarded += 1
            continue
        ctx.count(('real-gni', fam, len(x), z, amp, n, repr(imf_opts)), path == 'ok', 'real-gni-n%d-%s' % (n, path))
        ctx.tol_cmp += 1
        for f in fails[:1]:
            ctx.problem('impl-violation', 'get_next_imf_mask', f,
                        input=dict(kind='real-gni', signal=[float(v) for v in x], z=z, amp=amp, nphases=n, imf_opts=imf_opts, procs=procs, dtype=dt),
                        tags=dict(mode='real', family=fam))

    # ---- (c), (d) and the oracle: mask_sift on real numerics
    combos = [(s, m, arr) for s in ('zc', 'if', 'float', 'list') for m in ('abs', 'ratio_sig', 'ratio_imf') for arr in (False, True)]
    reps = 1 if quick else 5
    sigs = siftcore.real_signals(ctx.seed + 11, len(combos) * reps + 8, 48, 200)
    sigs = [s for s in sigs if s[0] not in ('const-ramp',)][:len(combos) * reps]
    for i, (fam, x) in enumerate(sigs):
        srck, mode, arr = combos[i % len(combos)]
        imf_opts = siftcore.real_opts(ctx.rng)[0]
        if imf_opts.get('max_iters', 1000) < 50 and imf_opts['stop_method'] != 'fixed':
            imf_opts['max_iters'] = 1000
        step = ctx.rng.choice([2, 2, 3, 1.5, 4])
        max_imfs = ctx.rng.randint(2, 5)
        n = ctx.rng.choice([1, 2, 3, 4, 4, 5, 8])
        if srck == 'float':
            src = ctx.rng.choice([0.4, 0.25, 0.3, ctx.rng.uniform(0.05, 0.49)])
        elif srck == 'list':
            src = [ctx.rng.uniform(0.02, 0.45) for _ in range(ctx.rng.randint(1, 5))]
            src = ctx.rng.choice([src, tuple(src), np.array(src)])
        else:
            src = srck
        base = ctx.rng.choice([0.5, 1, 1.0, 2.0])
        if mode == 'abs':
            base = base * max(1e-3, float(np.std(x)) or 1.0)
        if arr:
            mask_amp = AMP_TYPES[ctx.rng.choice(['list', 'tuple', 'ndarray'])]([base * ctx.rng.choice([0.5, 1, 1.5]) for _ in range(6)])
        else:
            tn = ctx.rng.choice(['float', 'float64', 'float32', 'ndarray0'] + (['int', 'int64', 'int32'] if float(base).is_integer() else []))
            mask_amp = AMP_TYPES[tn](base)
        procs = [ctx.rng.choice(procs_all)] + [p for p in (ctx.rng.sample(procs_all, 2) if quick else procs_all)]
        procs = [procs[0]] + [p for p in procs[1:] if p != procs[0]]
        fails, path, disc = oracle_mask_sift(x, src, mode, mask_amp, step, max_imfs, n, imf_opts, procs)
        ctx.discarded += disc
        if path in ('timeout', 'converge', 'raised', 'nonint') and not fails:
            if path == 'raised' and srck != 'if':
                ctx.notes.append('mask_sift raised on a real-mode case (%s, %s)' % (srck, mode))
            ctx.discarded += 1
            continue
        ctx.count(('real-ms', fam, len(x), repr(src), mode, repr(mask_amp), step, max_imfs, n, repr(imf_opts)), path not in ('cols0', 'cols1'),
                  'real-masksift-%s-%s-%s-%s' % (srck, mode, 'array' if arr else 'scalar', path))
        ctx.tol_cmp += 1
        for f in fails[:1]:
            ctx.problem('impl-violation', 'mask_sift', f,
                        input=dict(kind='real-masksift', signal=[float(v) for v in x], src=(src.tolist() if isinstance(src, np.ndarray) else src),
                                   src_type=type(src).__name__, mode=mode,
                                   mask_amp=amp_plain(mask_amp), amp_type=amp_type_name(mask_amp), step=step, max_imfs=max_imfs, nphases=n, imf_opts=imf_opts, procs=procs),
                        tags=dict(mode='real', family=fam, source=srck, amp_mode=mode,
                                  defect=('numpy-scalar-amplitude' if path == 'raised-npscalar' else 'masking-rule')))
    ctx.notes.append('the pool contract (every task once, results keyed by task index, tasks pure) is the modelled part; the real multiprocessing '
                     'module and the OS scheduler are trusted and exercised with nprocesses in %s' % procs_all)
    if bad and not any(p['kind'] == 'impl-violation' for p in ctx.problems):
        site, inp, got, exp = bad[0]
        ctx.problem('correspondence-break', site, 'model and implementation differ (%d disagreeing cases)' % len(bad), input=inp,
                    observed=got[:120], expected=exp[:120], theorem='MaskSift.%s vs emd.sift.%s (toy mode)' % ('fx_' + site.replace(' ', '_'), site))


# ----------------------------------------------------------------------------- replay

def replay(rec):
    i = rec['input']
    k = i['kind']
    if k == 'real-gni':
        o = dict(i['imf_opts'])
        if 'rilling_thresh' in o:
            o['rilling_thresh'] = tuple(o['rilling_thresh'])
        f, _ = oracle_gni(np.array(i['signal']), i['z'], i['amp'], i['nphases'], o, i['procs'], dtype=i.get('dtype'))
        for x in f:
            print(x)
        return bool(f)
    if k == 'real-masksift':
        o = dict(i['imf_opts'])
        if 'rilling_thresh' in o:
            o['rilling_thresh'] = tuple(o['rilling_thresh'])
        src = i['src']
        if i['src_type'] == 'ndarray':
            src = np.array(src)
        elif i['src_type'] == 'tuple':
            src = tuple(src)
        amp = AMP_TYPES[i['amp_type']](i['mask_amp'])
        f, _, _ = oracle_mask_sift(np.array(i['signal']), src, i['mode'], amp, i['step'], i['max_imfs'], i['nphases'], o, i['procs'])
        for x in f:
            print(x)
        return bool(f)
    if k == 'toy-gni':
        c = i['case']
        case = (c[0], c[1], tuple(c[2]), c[3], c[4])
        d = toy_oracle_gni(case, i['nprocesses'])
        st, got = impl_toy_gni(case, i['nprocesses'])
        print(d, st, str(got)[:200])
        return d is not None or (rec.get('expected') is not None and st == 'ok' and got[:len(rec['expected'])] != rec['expected'])
    if k == 'toy-masksift':
        c = i['case']
        case = (c[0], c[1], c[2], tuple(c[3]), c[4], c[5], c[6], c[7])
        d = toy_oracle_mask_sift(case, i['nprocesses'])
        st, got, _ = impl_toy_mask_sift(case, i['nprocesses'])
        print(d, st, str(got)[:200])
        return d is not None or (rec.get('expected') is not None and st == 'ok' and got[:len(rec['expected'])] != rec['expected'])
    if k == 'cos':
        return int(NpProxy(np).cos(2 * np.pi * i['k'] / TURN) * COSQ) != int(np.round(np.cos(2 * np.pi * i['k'] / TURN) * COSQ))
    return False
