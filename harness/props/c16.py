"""C16 - sample / cycle / subset / chain index maps are mutually consistent.

PROOF          coq/props/Prop_C16.v  (model: coq/model/CycleMaps.v)
CORRESPONDENCE run_maps (all 12 maps + 6 projections on every index of a structure)
               model under vm_compute  vs  emd._cycles_support / emd.cycles on the same structure
ORACLE         set-theoretic definitions evaluated directly on the implementation
"""
import itertools

import numpy as np

import common
from common import zlist, blist

IMPORTS = 'From EmdV Require Import lib.NpLite model.CycleMaps.'


# ------------------------------------------------------------------ generators
def build_cv(lens, gaps):
    """cycle k has lens[k] samples, preceded by gaps[k] unlabelled ones; gaps[-1] trails."""
    cv = []
    for k, ln in enumerate(lens):
        cv += [-1] * gaps[k] + [k] * ln
    cv += [-1] * gaps[len(lens)]
    return cv


def gen_cases(ctx):
    cases = []
    nmax = 8 if ctx.quick() else 12
    # (a) every boolean selection vector of length <= nmax, with a cycle/gap layout derived from it
    for n in range(1, nmax + 1):
        for bits in itertools.product([False, True], repeat=n):
            h = common.hashL([n] + [int(b) for b in bits])
            lens = [1 + (h >> (2 * k)) % 3 for k in range(n)]
            gaps = [((h >> (3 * k + 1)) % 4 == 0) * (1 + (h >> k) % 2) for k in range(n + 1)]
            cases.append((build_cv(lens, gaps), list(bits)))
    # (b) every composition of short recordings: n <= 3 cycles, lens in 1..3, gaps in 0..1, all selections
    nsmall = 3 if ctx.quick() else 4
    for n in range(1, nsmall + 1):
        for lens in itertools.product([1, 2, 3] if n < 4 else [1, 2], repeat=n):
            for gaps in itertools.product([0, 1], repeat=n + 1):
                for bits in itertools.product([False, True], repeat=n):
                    cases.append((build_cv(list(lens), list(gaps)), list(bits)))
    # (c) random larger instances
    nrand = 150 if ctx.quick() else 3000
    for _ in range(nrand):
        n = ctx.rng.randint(5, 30)
        lens = [ctx.rng.randint(1, 6) for _ in range(n)]
        gaps = [ctx.rng.choice([0, 0, 0, 1, 3]) for _ in range(n + 1)]
        p = ctx.rng.choice([0.2, 0.5, 0.8])
        cases.append((build_cv(lens, gaps), [ctx.rng.random() < p for _ in range(n)]))
    # distinct
    seen, out = set(), []
    for c in cases:
        k = (tuple(c[0]), tuple(c[1]))
        if k not in seen:
            seen.add(k)
            out.append(c)
    return out


# ------------------------------------------------------------------ implementation driver
def _fwd(f):
    try:
        v = f()
    except Exception:
        return [-2]
    if v is None:
        return [-1]
    return [0, int(np.asarray(v).reshape(-1)[0])]


def _nats(f, opt=False):
    try:
        v = f()
        v = [int(x) for x in np.asarray(v).reshape(-1)]
    except Exception:
        return [-2]
    return ([0] if opt else []) + v


def _proj(f):
    try:
        v = np.asarray(f(), dtype=float).reshape(-1)
    except Exception:
        return [-2]
    out = []
    for x in v:
        out += [0] if np.isnan(x) else [1, int(x)]
    return out


_BUF = {}         # one label buffer per recording length, RE-LABELLED IN PLACE from case to case when reuse is asked for
_PREV = {}


def impl_structs(cv, valids, col, reuse=False):
    from emd import cycles
    if reuse:
        buf = _BUF.get(len(cv))
        if buf is None:
            buf = _BUF[len(cv)] = np.full(len(cv), -1, dtype=int)
        _PREV[len(cv)] = buf.tolist()
        buf[:] = cv
        cvA = buf
    else:
        cvA = np.array(cv, dtype=int)
    if col:
        cvA = cvA[:, None]
    sv = cycles.get_subset_vector(np.array(valids, dtype=bool))
    chv = cycles.get_chain_vector(sv)
    return cvA, sv, chv


def impl_run_maps(cv, valids, col=False):
    from emd import _cycles_support as S
    cvA, sv, chv = impl_structs(cv, valids, col)
    ncyc, nsub = len(valids), len(chv)
    nch = int(chv.max()) + 1 if len(chv) else 0
    vals = lambda n: 10.0 + np.arange(n)  # noqa: E731
    out = [int(x) for x in sv] + [-7] + [int(x) for x in chv] + [-7]
    for i in range(len(cv)):
        out += _fwd(lambda: S.map_sample_to_cycle(cvA, i))
    out += [-7]
    for i in range(len(cv)):
        out += _fwd(lambda: S.map_sample_to_subset(sv, cvA, i))
    out += [-7]
    for i in range(len(cv)):
        out += _fwd(lambda: S.map_sample_to_chain(chv, sv, cvA, i))
    out += [-7]
    for k in range(ncyc):
        out += _fwd(lambda: S.map_cycle_to_subset(sv, k))
    out += [-7]
    for k in range(ncyc):
        out += _fwd(lambda: S.map_cycle_to_chain(chv, sv, k))
    out += [-7]
    for j in range(nsub):
        out += _fwd(lambda: S.map_subset_to_chain(chv, j))
    out += [-7]
    for k in range(ncyc):
        out += _nats(lambda: S.map_cycle_to_samples(cvA, k)) + [-8]
    out += [-7]
    for j in range(nsub):
        out += _nats(lambda: S.map_subset_to_cycle(sv, j)) + [-8]
    out += [-7]
    for j in range(nsub):
        out += _nats(lambda: S.map_subset_to_sample(sv, cvA, j), opt=True) + [-8]
    out += [-7]
    for c in range(nch):
        out += _nats(lambda: S.map_chain_to_subset(chv, c)) + [-8]
    out += [-7]
    for c in range(nch):
        out += _nats(lambda: S.map_chain_to_cycle(chv, sv, c)) + [-8]
    out += [-7]
    for c in range(nch):
        out += _nats(lambda: S.map_chain_to_samples(chv, sv, cvA, c), opt=True) + [-8]
    out += [-7]
    out += _proj(lambda: S.project_cycles_to_samples(vals(ncyc), cvA)) + [-7]
    out += _proj(lambda: S.project_subset_to_cycles(vals(nsub), sv)) + [-7]
    out += _proj(lambda: S.project_subset_to_samples(vals(nsub), sv, cvA)) + [-7]
    out += _proj(lambda: S.project_chain_to_subset(vals(nch), chv)) + [-7]
    out += _proj(lambda: S.project_chain_to_cycles(vals(nch), chv, sv)) + [-7]
    out += _proj(lambda: S.project_chain_to_samples(vals(nch), chv, sv, cvA))
    return out


# ------------------------------------------------------------------ property oracle (no model involved)
def oracle(cv, valids, col=False, reuse=False):
    """Return a list of (site, detail) failures of the property itself.  reuse: the cycle vector is ONE array object per recording
    length whose labels are rewritten in place between cases (a caller's buffer): the maps are functions of its current content"""
    from emd import _cycles_support as S
    fails = []
    sel = [k for k, b in enumerate(valids) if b]
    sub_of = {k: j for j, k in enumerate(sel)}
    chain_of_sub, c = [], -1
    for j, k in enumerate(sel):
        if j == 0 or k != sel[j - 1] + 1:
            c += 1
        chain_of_sub.append(c)
    nch = c + 1
    try:
        cvA, sv, chv = impl_structs(cv, valids, col, reuse)
    except Exception as e:
        return [('get_subset_vector/get_chain_vector', 'raised %r' % e)]
    exp_sv = [sub_of.get(k, -1) for k in range(len(valids))]
    if [int(x) for x in sv] != exp_sv:
        fails.append(('get_subset_vector', 'got %s expected %s' % (list(sv), exp_sv)))
        return fails
    if [int(x) for x in chv] != chain_of_sub:
        fails.append(('get_chain_vector', 'got %s expected maximal runs %s' % (list(chv), chain_of_sub)))
        return fails

    def call(site, f, *a):
        try:
            return True, f(*a)
        except Exception as e:
            fails.append((site, 'not defined on existing index %s: raised %s' % (a[-1], type(e).__name__)))
            return False, None

    def scalar(v):
        return None if v is None else int(np.asarray(v).reshape(-1)[0])
    for i, lab in enumerate(cv):
        ok, v = call('map_sample_to_cycle', S.map_sample_to_cycle, cvA, i)
        if ok and scalar(v) != lab:
            fails.append(('map_sample_to_cycle', 'sample %d -> %s, label is %d' % (i, v, lab)))
        exp = sub_of.get(lab) if lab >= 0 else None
        ok, v = call('map_sample_to_subset', S.map_sample_to_subset, sv, cvA, i)
        if ok:
            if scalar(v) != exp:
                fails.append(('map_sample_to_subset', 'sample %d (cycle %d) -> %s, expected %s' % (i, lab, scalar(v), exp)))
            elif exp is not None:
                ok2, back = call('map_subset_to_sample', S.map_subset_to_sample, sv, cvA, exp)
                if ok2 and i not in list(np.asarray(back).reshape(-1)):
                    fails.append(('map_subset_to_sample', 'sample %d not in samples of its subset cycle %d' % (i, exp)))
        expc = chain_of_sub[exp] if exp is not None else None
        ok, v = call('map_sample_to_chain', S.map_sample_to_chain, chv, sv, cvA, i)
        if ok:
            if scalar(v) != expc:
                fails.append(('map_sample_to_chain', 'sample %d -> %s, expected %s' % (i, scalar(v), expc)))
            elif expc is not None:
                ok2, back = call('map_chain_to_samples', S.map_chain_to_samples, chv, sv, cvA, expc)
                if ok2 and i not in list(np.asarray(back).reshape(-1)):
                    fails.append(('map_chain_to_samples', 'sample %d not in samples of its chain %d' % (i, expc)))
        if lab >= 0:
            ok, back = call('map_cycle_to_samples', S.map_cycle_to_samples, cvA, lab)
            if ok and i not in list(np.asarray(back).reshape(-1)):
                fails.append(('map_cycle_to_samples', 'sample %d not in samples of its cycle %d' % (i, lab)))
    for k in range(len(valids)):
        ok, v = call('map_cycle_to_subset', S.map_cycle_to_subset, sv, k)
        if ok and scalar(v) != sub_of.get(k):
            fails.append(('map_cycle_to_subset', 'cycle %d -> %s expected %s' % (k, scalar(v), sub_of.get(k))))
        expc = chain_of_sub[sub_of[k]] if k in sub_of else None
        ok, v = call('map_cycle_to_chain', S.map_cycle_to_chain, chv, sv, k)
        if ok and scalar(v) != expc:
            fails.append(('map_cycle_to_chain', 'cycle %d -> %s expected %s' % (k, scalar(v), expc)))
        ok, v = call('map_cycle_to_samples', S.map_cycle_to_samples, cvA, k)
        if ok and [int(x) for x in np.asarray(v).reshape(-1)] != [i for i, lab in enumerate(cv) if lab == k]:
            fails.append(('map_cycle_to_samples', 'cycle %d -> %s' % (k, v)))
    for j, k in enumerate(sel):
        ok, v = call('map_subset_to_cycle', S.map_subset_to_cycle, sv, j)
        if ok and [int(x) for x in np.asarray(v).reshape(-1)] != [k]:
            fails.append(('map_subset_to_cycle', 'subset %d -> %s expected [%d]' % (j, v, k)))
        ok, v = call('map_subset_to_chain', S.map_subset_to_chain, chv, j)
        if ok and scalar(v) != chain_of_sub[j]:
            fails.append(('map_subset_to_chain', 'subset %d -> %s expected %d' % (j, v, chain_of_sub[j])))
    for c in range(nch):
        subs = [j for j in range(len(sel)) if chain_of_sub[j] == c]
        ok, v = call('map_chain_to_subset', S.map_chain_to_subset, chv, c)
        if ok and [int(x) for x in np.asarray(v).reshape(-1)] != subs:
            fails.append(('map_chain_to_subset', 'chain %d -> %s expected %s' % (c, v, subs)))
        ok, v = call('map_chain_to_cycle', S.map_chain_to_cycle, chv, sv, c)
        if ok:
            try:
                got = [int(x) for x in np.asarray(v).reshape(-1)]
            except Exception:
                got = None
            if got != [sel[j] for j in subs]:
                fails.append(('map_chain_to_cycle', 'chain %d -> %s expected %s' % (c, v, [sel[j] for j in subs])))
        ok, v = call('map_chain_to_samples', S.map_chain_to_samples, chv, sv, cvA, c)
        exp_s = [i for i, lab in enumerate(cv) if lab >= 0 and sub_of.get(lab) in subs]
        if ok and [int(x) for x in np.asarray(v).reshape(-1)] != exp_s:
            fails.append(('map_chain_to_samples', 'chain %d -> %s expected %s' % (c, v, exp_s)))

    # projections: each value lands exactly on the items that map to it, everything else missing
    cur = {'tag': ''}

    def chk_proj(site, f, expected):
        try:
            got = np.asarray(f(), dtype=float).reshape(-1)
        except Exception as e:
            fails.append((site, cur['tag'] + 'raised %s' % type(e).__name__))
            return
        exp = np.array([np.nan if e is None else e for e in expected], dtype=float)
        if got.shape != exp.shape or not np.array_equal(np.isnan(got), np.isnan(exp)) or \
                not np.array_equal(got[~np.isnan(got)], exp[~np.isnan(exp)]):
            fails.append((site, cur['tag'] + 'got %s expected %s' % (got.tolist(), exp.tolist())))
    # per-item values of any dtype (float, integer, single precision, boolean): a missing item must read as missing (nan) whatever
    # the dtype of the values
    for dt in (float, np.int64, np.float32, bool):
        cur['tag'] = '' if dt is float else '[values of dtype %s] ' % np.dtype(dt).name
        if dt is bool:
            vs, vc, vk = (np.arange(len(sel)) % 2 == 0), (np.arange(nch) % 2 == 0), (np.arange(len(valids)) % 2 == 0)
        else:
            vs, vc, vk = (100 + np.arange(len(sel))).astype(dt), (200 + np.arange(nch)).astype(dt), (300 + np.arange(len(valids))).astype(dt)
        n0 = len(fails)
        chk_proj('project_cycles_to_samples', lambda: S.project_cycles_to_samples(vk, cvA),
                 [vk[lab] if lab >= 0 else None for lab in cv])
        chk_proj('project_subset_to_cycles', lambda: S.project_subset_to_cycles(vs, sv),
                 [vs[sub_of[k]] if k in sub_of else None for k in range(len(valids))])
        chk_proj('project_subset_to_samples', lambda: S.project_subset_to_samples(vs, sv, cvA),
                 [vs[sub_of[lab]] if lab in sub_of else None for lab in cv])
        chk_proj('project_chain_to_subset', lambda: S.project_chain_to_subset(vc, chv),
                 [vc[chain_of_sub[j]] for j in range(len(sel))])
        chk_proj('project_chain_to_cycles', lambda: S.project_chain_to_cycles(vc, chv, sv),
                 [vc[chain_of_sub[sub_of[k]]] if k in sub_of else None for k in range(len(valids))])
        chk_proj('project_chain_to_samples', lambda: S.project_chain_to_samples(vc, chv, sv, cvA),
                 [vc[chain_of_sub[sub_of[lab]]] if lab in sub_of else None for lab in cv])
        if len(fails) > n0:
            break
    return fails


# ------------------------------------------------------------------ check
def nontrivial(cv, valids):
    return any(valids) and not all(valids) or (-1 in cv and any(valids))


def run(ctx):
    ctx.rule = ('cases = (cycle vector, selection vector): every boolean selection of length <= %d with a derived '
                'cycle/gap layout, every composition of <= %d cycles (lens 1-3, gaps 0-1) x every selection, plus random '
                'larger ones; each case evaluates all 12 maps and 6 projections (values of dtype float64, int64, float32, bool) on every index, in the (n,) and (n,1) layouts, half of the cases also on one array object per recording length that is re-labelled in place from case to case; '
                'non-trivial = has both selected and unselected cycles, or unlabelled samples and a selection'
                % ((8, 3) if ctx.quick() else (12, 4)))
    ctx.proof(extra=['props/Prop_Tie_Maps.v', 'props/Prop_Tie_Cyclesobj.v', 'props/Prop_Tie_Cyciter.v'])  # translation tie: program regenerated from the source + refinement theorems
    cases = gen_cases(ctx)
    ctx.exhaustive = True
    lits = ['(%s, %s)' % (zlist(cv), blist(v)) for cv, v in cases]
    mh = ctx.model_hashes(IMPORTS, lits, 'fun c => run_maps (fst c) (snd c)')
    first_bad = None
    for idx, (cv, valids) in enumerate(cases):
        out = impl_run_maps(cv, valids)
        nt = nontrivial(cv, valids)
        ctx.count((cv, valids), nt, 'gaps' if -1 in cv else 'nogaps')
        ctx.exact_cmp += 1
        if idx % 977 == 0:
            ctx.sample(dict(cycle_vect=cv, valids=[int(b) for b in valids], n_outputs=len(out)))
        bad = common.hashL(out) != mh[idx]
        if not bad and idx % 7 == 0:
            # the single-column layout get_cycle_vector really returns
            bad = common.hashL(impl_run_maps(cv, valids, col=True)) != mh[idx]
        fails = oracle(cv, valids)
        if idx % 7 == 0:
            fails += oracle(cv, valids, col=True)
        extra = {}
        for site, detail in fails:
            ctx.problem('impl-violation', site, detail, input=dict(cycle_vect=cv, valids=[int(b) for b in valids], **extra),
                        tags=dict(site=site))
        if bad and first_bad is None and not fails:
            first_bad = idx
    # reused buffer: CONSECUTIVE questions about one array object per recording length whose labels are rewritten in place in between
    # (no other cycle vector is asked about in between, so anything remembered about "the last array" is about this one)
    if not any(p['kind'] == 'impl-violation' for p in ctx.problems):
        for idx, (cv, valids) in enumerate(cases):
            if idx % 2 == 0:
                continue
            fr = oracle(cv, valids, reuse=True)
            ctx.hist['reused-buffer'] += 1
            if fr:
                site, d = fr[0]
                ctx.problem('impl-violation', site, '[the SAME array object had held the labels %s when the maps were last asked; it was '
                            're-labelled in place] %s' % (_PREV.get(len(cv)), d),
                            input=dict(cycle_vect=cv, valids=[int(b) for b in valids], previous_labels_in_same_array=_PREV.get(len(cv))),
                            tags=dict(site=site))
                break
    if first_bad is not None:
        cv, valids = cases[first_bad]
        mo = ctx.model_outputs(IMPORTS, [lits[first_bad]], 'fun c => run_maps (fst c) (snd c)')[0]
        ctx.problem('correspondence-break', 'run_maps', 'model and implementation differ on a structure',
                    input=dict(cycle_vect=cv, valids=[int(b) for b in valids]),
                    observed=impl_run_maps(cv, valids), expected=mo, theorem='CycleMaps.run_maps vs emd._cycles_support')


def replay(rec):
    inp = rec['input']
    if inp.get('previous_labels_in_same_array') is not None:
        prev = inp['previous_labels_in_same_array']
        _BUF.pop(len(prev), None)
        oracle(prev, [True] * (max(prev) + 1) if max(prev) >= 0 else [], reuse=True)       # ask the maps of the buffer with the earlier labels
        fails = oracle(inp['cycle_vect'], [bool(b) for b in inp['valids']], reuse=True)     # then re-label it in place and ask again
        for f in fails:
            print(f)
        return bool(fails)
    fails = oracle(inp['cycle_vect'], [bool(b) for b in inp['valids']]) + \
        oracle(inp['cycle_vect'], [bool(b) for b in inp['valids']], col=True)
    for f in fails:
        print(f)
    return bool(fails)
