"""C17 - feature matching returns a valid one-to-one pairing.

PROOF          coq/props/Prop_C17.v  (model: coq/model/KdtMatch.v)
CORRESPONDENCE kdt_pairs on (D, inds) query tables: (a) injected tables (cKDTree.query wrapped to return them),
               (b) the tables the real cKDTree returns for random/tied feature arrays (distances rank-coded)
ORACLE         equal lengths, both index lists duplicate-free and in range, every pair among the K nearest
               neighbours returned by the query and within the distance bound
"""
import numpy as np

import common
from common import zlistlist, zlit

IMPORTS = 'From EmdV Require Import lib.NpLite model.KdtMatch.'
INF = 10 ** 9


class FakeTree:
    table = None

    def __init__(self, y):
        pass

    def query(self, x, k=1, distance_upper_bound=np.inf):
        D, I = FakeTree.table
        return np.array(D, dtype=float), np.array(I, dtype=int)


def impl_table(D, I, K, ny, bound=np.inf):
    """Run the implementation's assignment loop on an injected query table."""
    import scipy.spatial
    from emd import cycles
    Df = [[np.inf if d >= INF else float(d) for d in row] for row in D]
    FakeTree.table = (Df, I)
    real = scipy.spatial.cKDTree
    scipy.spatial.cKDTree = FakeTree
    try:
        xi, yi = cycles.kdt_match(np.zeros((len(D), 1)), np.zeros((ny, 1)), K=K, distance_upper_bound=bound)
        return [int(v) for v in xi] + [-7] + [int(v) for v in yi]
    except Exception as e:
        return [-2, common.exc_code(e)]
    finally:
        scipy.spatial.cKDTree = real


def real_table(x, y, K, bound):
    import scipy.spatial
    D, I = scipy.spatial.cKDTree(y).query(x, k=K, distance_upper_bound=bound)
    D = np.asarray(D, dtype=float).reshape(x.shape[0], -1)
    I = np.asarray(I, dtype=int).reshape(x.shape[0], -1)
    vals = sorted(set(float(v) for v in D.reshape(-1) if np.isfinite(v)))
    rank = {v: i for i, v in enumerate(vals)}
    Dz = [[INF if not np.isfinite(v) else rank[float(v)] for v in row] for row in D]
    return Dz, [[int(v) for v in row] for row in I], D


def gen_tables(ctx, n):
    out = []
    for _ in range(n):
        nx, ny, K = ctx.rng.randint(1, 9), ctx.rng.randint(1, 9), ctx.rng.randint(1, 5)
        D, I = [], []
        for _r in range(nx):
            m = ctx.rng.randint(0, min(K, ny))
            ys = ctx.rng.sample(range(ny), m)
            ds = sorted(ctx.rng.randint(0, 6) for _ in range(m))
            D.append(ds + [INF] * (K - m))
            I.append(ys + [ny] * (K - m))
        out.append((D, I, K, ny))
    return out


def gen_arrays(ctx, n):
    out = []
    rs = np.random.RandomState(ctx.seed + 17)
    for i in range(n):
        nf = ctx.rng.randint(1, 4)
        nx, ny = ctx.rng.randint(1, 40 if ctx.quick() else 200), ctx.rng.randint(1, 40 if ctx.quick() else 200)
        K = ctx.rng.randint(1, 15)
        x, y = rs.randn(nx, nf), rs.randn(ny, nf)
        if i % 3 == 0:                       # exact ties
            x, y = np.round(x), np.round(y)
        if i % 5 == 0:
            x, y = np.sort(x, axis=0), np.sort(y, axis=0)
        bound = [np.inf, 1.0, 0.3][i % 3 if i % 2 else 0]
        # mixed dtypes: integer-typed candidates with real-valued queries, the reverse, single precision
        if i % 7 == 3:
            x, y = 2 * x + 0.37, np.round(2 * y).astype([np.int64, np.int32, np.uint8][i % 3] if i % 3 != 2 else np.int64)
            if y.dtype == np.uint8:
                y = np.abs(np.round(2 * rs.randn(ny, nf))).astype(np.uint8)
        elif i % 7 == 5:
            x = np.round(2 * x).astype(np.int64)
        elif i % 7 == 6:
            x, y = x.astype(np.float32), y.astype(np.float32)
        out.append((x, y, K, bound))
    # large queries (rows of x times K in the thousands) with a finite bound
    for j in range(3 if ctx.quick() else 30):
        nx, ny, nf, K = int(rs.choice([120, 160, 220])), int(rs.choice([60, 150])), int(rs.randint(1, 4)), int(rs.choice([10, 15]))
        out.append((rs.randn(nx, nf), rs.randn(ny, nf), K, [0.05, 0.3, 1.0][j % 3]))
    return out


def oracle_pairs(xi, yi, nx, ny, I, Dfloat, bound):
    fails = []
    xi, yi = [int(v) for v in xi], [int(v) for v in yi]
    if len(xi) != len(yi):
        fails.append(('kdt_match', 'index lists have different lengths %d / %d' % (len(xi), len(yi))))
        return fails
    if len(set(xi)) != len(xi):
        fails.append(('kdt_match', 'a row of x is matched twice: %s' % xi))
    if len(set(yi)) != len(yi):
        fails.append(('kdt_match', 'a row of y is matched twice: x_inds=%s y_inds=%s' % (xi, yi)))
    if any(not (0 <= v < nx) for v in xi) or any(not (0 <= v < ny) for v in yi):
        fails.append(('kdt_match', 'index out of range: %s %s' % (xi, yi)))
        return fails
    for a, b in zip(xi, yi):
        if b not in list(I[a]):
            fails.append(('kdt_match', 'pair (%d,%d): y is not among the K nearest neighbours of x %s' % (a, b, list(I[a]))))
            break
        c = list(I[a]).index(b)
        if Dfloat is not None and not (Dfloat[a][c] <= bound):
            fails.append(('kdt_match', 'pair (%d,%d) is farther apart (%g) than the bound %g' % (a, b, Dfloat[a][c], bound)))
            break
    return fails


def lit(D, I, K, ny):
    return '(%s, %s, %s, %s)' % (zlistlist(D), zlistlist(I), zlit(K), zlit(ny))


EXPR = "fun c => let '(D, II, K, ny) := c in run_kdt D II K ny"


def run(ctx):
    ctx.rule = ('(a) random K-NN query tables (1-9 rows each side, K 1-5, ties, missing neighbours) injected through a wrapped '
                'cKDTree.query; (b) real feature arrays (1-4 features, 1-%d rows (plus a few queries of 120-220 rows with K 10-15 and a finite bound), K 1-15, bounds inf/1.0/0.3, with exact ties '
                'and sorted variants; integer-typed candidates with real-valued queries, the reverse, and float32; candidate buffers refilled in place between consecutive calls) whose real query table is rank-coded for the model; non-trivial = at least two rows compete '
                'for one candidate in some column' % (40 if ctx.quick() else 200))
    ctx.proof(extra=['props/Prop_Tie_Kdt.v'])  # translation tie: program regenerated from the source + refinement theorems
    from emd import cycles
    tabs = gen_tables(ctx, 600 if ctx.quick() else 15000)
    arrs = gen_arrays(ctx, 150 if ctx.quick() else 3000)
    cases = []
    for D, I, K, ny in tabs:
        cases.append(dict(kind='table', D=D, I=I, K=K, ny=ny))
    for x, y, K, bound in arrs:
        Dz, I, Df = real_table(x, y, K, bound)
        cases.append(dict(kind='real', D=Dz, I=I, K=K, ny=y.shape[0], x=x, y=y, bound=bound, Df=Df))
    mo = ctx.model_outputs(IMPORTS, [lit(c['D'], c['I'], c['K'], c['ny']) for c in cases], EXPR, shard=150)
    bad = None
    for idx, c in enumerate(cases):
        comp = any(len(col) != len(set(col)) for col in zip(*c['I'])) if c['I'] and c['I'][0] else False
        ctx.count((c['D'], c['I'], c['K']), comp, c['kind'] + ('-K1' if c['K'] == 1 else ''))
        ctx.exact_cmp += 1
        if c['kind'] == 'table':
            out = impl_table(c['D'], c['I'], c['K'], c['ny'])
            inp = dict(D=c['D'], inds=c['I'], K=c['K'], ny=c['ny'])
            Df, bound = None, np.inf
        else:
            try:
                xi, yi = cycles.kdt_match(c['x'], c['y'], K=c['K'], distance_upper_bound=c['bound'])
                out = [int(v) for v in xi] + [-7] + [int(v) for v in yi]
            except Exception as e:
                out = [-2, common.exc_code(e)]
            inp = dict(x=c['x'].tolist(), y=c['y'].tolist(), K=c['K'], distance_upper_bound=c['bound'], dtypes=[str(c['x'].dtype), str(c['y'].dtype)])
            ctx.hist['dtypes-%s/%s' % (c['x'].dtype, c['y'].dtype)] += 1
            Df, bound = c['Df'], c['bound']
        if idx % 173 == 0:
            ctx.sample({k: v for k, v in inp.items()} if c['kind'] == 'table' else
                       dict(x_shape=list(c['x'].shape), y_shape=list(c['y'].shape), K=c['K'], bound=c['bound']))
        if out[:1] == [-2]:
            fails = [('kdt_match(K=1)' if c['K'] == 1 else 'kdt_match', 'raised an exception (code %d) for K=%d' % (out[1], c['K']))]
        else:
            k = out.index(-7)
            fails = oracle_pairs(out[:k], out[k + 1:], len(c['I']), c['ny'], c['I'], Df, bound)
        for site, detail in fails[:1]:
            ctx.problem('impl-violation', site, detail, input=inp, tags=dict(K1=c['K'] == 1))
        if out != mo[idx] and bad is None and not fails:
            bad = (inp, out, mo[idx])
    # ---- a caller's candidate buffer refilled IN PLACE between consecutive calls (same object, same shape, new values): every call is
    # about the values the buffer holds now
    rs2 = np.random.RandomState(ctx.seed + 171)
    for ny, nf in ((40, 2), (25, 1), (120, 3)):
        ybuf = np.zeros((ny, nf))
        for rep in range(4 if ctx.quick() else 40):
            ybuf[...] = rs2.randn(ny, nf) * (1 + rep)
            x = rs2.randn(int(rs2.randint(5, 30)), nf) * (1 + rep)
            K, bound = int(rs2.choice([1, 3, 15])), float(rs2.choice([np.inf, 1.0]))
            Dz, I, Df = real_table(x, ybuf.copy(), K, bound)
            ctx.count(('refilled', ny, nf, rep), rep > 0, 'refilled-buffer')
            ctx.exact_cmp += 1
            try:
                xi, yi = cycles.kdt_match(x, ybuf, K=K, distance_upper_bound=bound)
                fails = oracle_pairs(xi, yi, x.shape[0], ny, I, Df, bound)
            except Exception as e:
                fails = [('kdt_match', 'raised %s: %s' % (type(e).__name__, e))]
            for site, detail in fails[:1]:
                ctx.problem('impl-violation', site, '[candidate array refilled in place, call %d on the same object] %s' % (rep + 1, detail),
                            input=dict(refilled=True, seed=ctx.seed, ny=ny, nf=nf, rep=rep), tags=dict(K1=K == 1))
            if fails:
                break
    if bad is not None:
        ctx.problem('correspondence-break', 'run_kdt', 'model and implementation differ', input=bad[0], observed=bad[1],
                    expected=bad[2], theorem='KdtMatch.run_kdt vs emd.cycles.kdt_match')


def replay(rec):
    from emd import cycles
    i = rec['input']
    if i.get('refilled'):
        rs2 = np.random.RandomState(i['seed'] + 171)
        for ny, nf in ((40, 2), (25, 1), (120, 3)):
            ybuf = np.zeros((ny, nf))
            for rep in range(40):
                ybuf[...] = rs2.randn(ny, nf) * (1 + rep)
                x = rs2.randn(int(rs2.randint(5, 30)), nf) * (1 + rep)
                K, bound = int(rs2.choice([1, 3, 15])), float(rs2.choice([np.inf, 1.0]))
                Dz, I, Df = real_table(x, ybuf.copy(), K, bound)
                xi, yi = cycles.kdt_match(x, ybuf, K=K, distance_upper_bound=bound)
                f = oracle_pairs(xi, yi, x.shape[0], ny, I, Df, bound)
                if f:
                    print(ny, nf, rep, f[:1])
                    return True
                if (ny, nf, rep) == (i['ny'], i['nf'], i['rep']):
                    return False
        return False
    try:
        if 'D' in i:
            out = impl_table(i['D'], i['inds'], i['K'], i['ny'])
            if out[:1] == [-2]:
                print('raised', out)
                return True
            k = out.index(-7)
            fails = oracle_pairs(out[:k], out[k + 1:], len(i['inds']), i['ny'], i['inds'], None, np.inf)
        else:
            dts = i.get('dtypes') or [None, None]
            x, y = np.array(i['x'], dtype=dts[0]), np.array(i['y'], dtype=dts[1])
            Dz, I, Df = real_table(x, y, i['K'], i['distance_upper_bound'])
            xi, yi = cycles.kdt_match(x, y, K=i['K'], distance_upper_bound=i['distance_upper_bound'])
            fails = oracle_pairs(xi, yi, x.shape[0], y.shape[0], I, Df, i['distance_upper_bound'])
    except Exception as e:
        print('raised', repr(e))
        return True
    for f in fails:
        print(f)
    return bool(fails)
