"""C14 - per-cycle statistics, projection, phase alignment and phase binning use exactly each cycle's samples.

PROOF          coq/props/Prop_C14.v  (model: coq/model/CycleStat.v)
CORRESPONDENCE (1) run_stats: six reducing functions + sample projection on every label-complete label vector over
               {-1,0,1,2} up to a length (exact integers); (2) run_bins: bin_by_phase with integer edges/phases/values;
               (3) run_align: phase_align per cycle vs exact rational linear interpolation (tolerance 1e-9)
ORACLE         direct per-label computation; linear-in-phase quantities reproduced exactly on the grid for every cycle
               duration; every phase bin containing samples holds their mean (default edges, nbins 2..64)
"""
import itertools
from fractions import Fraction

import numpy as np

import common
from common import zlist, zlistlist

IMPORTS = 'From EmdV Require Import lib.NpLite model.CycleStat.'
FUNCS = [('sum', np.sum), ('len', len), ('max', np.max), ('first', lambda v: v[0]), ('last', lambda v: v[-1]),
         ('lambda', lambda v: 3 * np.sum(v) - len(v))]


# ------------------------------------------------------------------ (1) per-cycle statistics
def label_vectors(maxlen):
    out = []
    for n in range(1, maxlen + 1):
        for v in itertools.product([-1, 0, 1, 2], repeat=n):
            labs = set(x for x in v if x >= 0)
            if labs and labs == set(range(max(labs) + 1)):
                out.append(list(v))
    return out


def values_for(cv, salt=0):
    h = common.hashL(cv + [salt])
    return [((h >> (3 * i)) % 23) - 7 for i in range(len(cv))]


def impl_run_stats(cv, vals):
    from emd import cycles
    c, v = np.array(cv, dtype=int), np.array(vals, dtype=float)
    out = []
    try:
        for _, f in FUNCS:
            out += [int(x) for x in cycles.get_cycle_stat(c, v, func=f)] + [-7]
        proj = cycles.get_cycle_stat(c, v, out='samples', func=np.sum)
        for x in np.asarray(proj).reshape(-1):
            out += [0] if np.isnan(x) else [1, int(x)]
    except Exception as e:
        return [-2, common.exc_code(e)]
    return out


EMPTY_OK = ('sum', 'len', 'lambda')       # reducing functions that are defined on an empty selection


def gapped_label_vectors(maxlen):
    """labellings in which a label below the maximum is ABSENT (a cycle rejected by overwriting its samples with -1 without
    renumbering): every vector over {-1,0,1,2,3} up to maxlen with an incomplete label set"""
    out = []
    for n in range(1, maxlen + 1):
        for v in itertools.product([-1, 0, 1, 2, 3], repeat=n):
            labs = set(x for x in v if x >= 0)
            if labs and labs != set(range(max(labs) + 1)):
                out.append(list(v))
    return out


def oracle_stats(cv, vals, only=None):
    """the property on get_cycle_stat for float, integer and boolean value vectors (any value vector, any function)"""
    from emd import cycles
    fails = []
    c = np.array(cv, dtype=int)
    K = max(cv) + 1
    for dt in (float, np.int64, np.int32, bool):
        v = np.array(vals).astype(dt)
        for name, f in FUNCS + [('mean', np.mean)]:
            if only is not None and name not in only:
                continue
            try:
                got = cycles.get_cycle_stat(c, v, func=f)
                proj = cycles.get_cycle_stat(c, v, out='samples', func=f)
            except Exception as e:
                return [('get_cycle_stat', 'raised %s: %s' % (type(e).__name__, e))]
            exp = [float(f(v[c == k])) for k in range(K)]
            tag = '' if dt is float else ' (values of dtype %s)' % np.dtype(dt).name
            if len(got) != K or not np.allclose(np.asarray(got, dtype=float), exp, rtol=1e-12, atol=1e-12):
                fails.append(('get_cycle_stat', 'func=%s%s: got %s, the function applied to each label\'s samples gives %s'
                              % (name, tag, list(got), exp)))
            expp = [exp[lab] if lab >= 0 else np.nan for lab in cv]
            proj = np.asarray(proj, dtype=float).reshape(-1)
            if proj.shape != (len(cv),) or not np.allclose(proj, expp, rtol=1e-12, atol=1e-12, equal_nan=True):
                fails.append(("get_cycle_stat(out='samples')", 'func=%s%s: projection %s, expected %s' % (name, tag, proj.tolist(), expp)))
        if fails:
            break
    return fails


# ------------------------------------------------------------------ (2) bin_by_phase
def gen_bins(ctx, n):
    out = []
    for _ in range(n):
        nb = ctx.rng.randint(1, 6)
        edges = [2 * k for k in range(nb + 1)]
        m = ctx.rng.randint(1, 14)
        top = edges[-1]
        ip = [ctx.rng.choice([ctx.rng.randint(-1, top + 1), ctx.rng.randint(max(0, top - 2), top + 1), ctx.rng.randint(0, top)])
              for _ in range(m)]
        x = [ctx.rng.randint(-9, 9) for _ in range(m)]
        out.append((edges, ip, x))
    return out


def impl_run_bins(edges, ip, x):
    from emd import cycles
    try:
        avg, var, cen = cycles.bin_by_phase(np.array(ip, dtype=float), np.array(x, dtype=float),
                                            bin_edges=np.array(edges, dtype=float))
    except Exception as e:
        return None, [-2, common.exc_code(e)]
    return avg, None


def cmp_bins(avg, model):
    """model: flat [0] | [1, s, n] per bin."""
    k, b = 0, 0
    while k < len(model):
        if b >= len(avg):
            return 'fewer bins than the model'
        if model[k] == 0:
            if not np.isnan(avg[b]):
                return 'bin %d: %r but the model says empty (nan)' % (b, avg[b])
            k += 1
        else:
            s, n = model[k + 1], model[k + 2]
            if np.isnan(avg[b]) or abs(avg[b] - s / n) > 1e-12 * max(1, abs(s / n)):
                return 'bin %d: %r but the model says mean %d/%d' % (b, avg[b], s, n)
            k += 3
        b += 1
    return None if b == len(avg) else 'more bins than the model'


def oracle_bins_default(ctx, n):
    """Default edges (linspace(0,2pi)), float phases: every bin that contains samples holds their mean."""
    from emd import cycles, spectra
    rs = np.random.RandomState(ctx.seed + 14)
    fails = []
    for i in range(n):
        nb = int(rs.randint(2, 65))
        m = int(rs.randint(5, 400))
        ip = rs.uniform(0, 2 * np.pi, m)
        if i % 3 == 0:
            ip[rs.randint(0, m, 3)] = 2 * np.pi - 1e-3 * rs.rand(3)     # make sure the last bin is populated
        x = rs.randn(m)
        try:
            avg, var, cen = cycles.bin_by_phase(ip, x, nbins=nb)
        except Exception as e:
            return [('bin_by_phase', 'raised %s: %s' % (type(e).__name__, e), dict(nbins=nb, n=m))]
        edges, _ = spectra.define_hist_bins(0, 2 * np.pi, nb)
        ctx.count(('bins-default', i), True, 'bins-default')
        ctx.tol_cmp += 1
        for b in range(nb):
            sel = x[(ip >= edges[b]) & (ip < edges[b + 1])]
            if len(sel) and (np.isnan(avg[b]) or abs(avg[b] - sel.mean()) > 1e-9):
                fails.append(('bin_by_phase', 'nbins=%d: bin %d contains %d samples (mean %.6g) but the output is %r'
                              % (nb, b, len(sel), sel.mean(), avg[b]), dict(nbins=nb, ip=ip.tolist(), x=x.tolist(), bin=b)))
                break
        if fails:
            break
    return fails


# ------------------------------------------------------------------ (3) phase_align
def gen_align(ctx, n, maxlen):
    out = []
    for _ in range(n):
        ncyc = ctx.rng.randint(1, 4)
        ip, cv, xs = [], [], []
        for k in range(ncyc):
            ln = ctx.rng.randint(2, maxlen)
            # strictly increasing dyadic phases in (0, 6.25]: multiples of 1/64
            pts = sorted(ctx.rng.sample(range(1, 401), min(ln, 400)))
            ip += [p / 64.0 for p in pts]
            cv += [k] * len(pts)
            xs += [ctx.rng.randint(-20, 20) for _ in pts]
            if ctx.rng.random() < 0.3:
                ip.append(0.5)
                cv.append(-1)
                xs.append(0)
        out.append((ip, cv, xs, ctx.rng.choice([2, 3, 4, 8, 24, 48, 64])))
    return out


def frac_pair(v):
    fr = Fraction(float(v))
    return [fr.numerator, fr.denominator]


def run_align_cases(ctx, cases):
    from emd import cycles
    lits, meta = [], []
    for ci, (ip, cv, xs, npts) in enumerate(cases):
        try:
            avg, bins = cycles.phase_align(np.array(ip), np.array(xs, dtype=float), cycles=np.array(cv, dtype=int), npoints=npts)
        except Exception as e:
            ctx.problem('impl-violation', 'phase_align', 'raised %s: %s' % (type(e).__name__, e),
                        input=dict(ip=ip, cycles=cv, x=xs, npoints=npts))
            continue
        grid = [frac_pair(b) for b in bins]
        for k in range(max(cv) + 1):
            idx = [i for i in range(len(cv)) if cv[i] == k]
            lits.append('(%s, %s, %s)' % (zlistlist([frac_pair(ip[i]) for i in idx]),
                                          zlistlist([[xs[i], 1] for i in idx]), zlistlist(grid)))
            meta.append((ci, k, avg[:, k], len(idx)))
    mo = ctx.model_outputs(IMPORTS, lits, "fun c => let '(p, x, g) := c in run_align p x g", shard=40)
    bad = None
    for (ci, k, col, ln), m in zip(meta, mo):
        exp = np.array([m[2 * j] / m[2 * j + 1] for j in range(len(m) // 2)])
        ctx.count(('align', ci, k), True, 'align-len%s' % ('<8' if ln < 8 else '>=8'))
        ctx.tol_cmp += 1
        if col.shape != exp.shape or not np.allclose(col, exp, rtol=1e-9, atol=1e-9):
            if bad is None:
                bad = (cases[ci], k, col.tolist(), exp.tolist())
    return bad


def align_linear_check(ip, cv, xs, coef, npts, kind):
    """x = a*phase + b on each cycle -> a*g + b on the phase grid, for every interpolation kind (a linear quantity is reproduced by
    linear, quadratic and cubic interpolation AND extrapolation alike).  returns (site, detail) or None"""
    from emd import cycles
    try:
        avg, bins = cycles.phase_align(np.array(ip), np.array(xs), cycles=np.array(cv, dtype=int), npoints=npts, interp_kind=kind)
    except Exception as e:
        return ('phase_align', 'interp_kind=%s: raised %s: %s' % (kind, type(e).__name__, e))
    if avg.shape != (npts, len(coef)):
        return ('phase_align', 'output shape %s, expected %s' % (avg.shape, (npts, len(coef))))
    tol = 1e-9 if kind in ('linear', 'slinear') else 1e-7
    for k, (a, b) in enumerate(coef):
        if not np.allclose(avg[:, k], a * bins + b, rtol=tol, atol=tol):
            return ('phase_align', 'cycle %d (%d samples, interp_kind=%s): quantity %.2f*phase%+.2f is not reproduced on the phase grid: '
                    'max error %.3g' % (k, list(cv).count(k), kind, a, b, np.abs(avg[:, k] - (a * bins + b)).max()))
    return None


def oracle_align_linear(ctx, n, maxlen):
    """x = a*phase + b on each cycle  ->  aligned value at grid point g is a*g + b, whatever the cycle's duration."""
    fails = []
    for i in range(n):
        kind = ['linear', 'linear', 'slinear', 'quadratic', 'cubic'][i % 5]
        ncyc = ctx.rng.randint(1, 5)
        ip, cv, xs, coef = [], [], [], []
        for k in range(ncyc):
            ln = max(ctx.rng.randint(2, maxlen), {'quadratic': 3, 'cubic': 4}.get(kind, 2))
            pts = sorted(ctx.rng.sample(range(1, 401), min(ln, 400)))
            a, b = ctx.rng.randint(-8, 8) / 4.0, ctx.rng.randint(-8, 8) / 2.0
            coef.append((a, b))
            ip += [p / 64.0 for p in pts]
            cv += [k] * len(pts)
            xs += [a * (p / 64.0) + b for p in pts]
        npts = ctx.rng.choice([2, 5, 24, 48, 64])
        ctx.count(('align-linear', i), True, 'align-linear-' + kind)
        ctx.tol_cmp += 1
        r = align_linear_check(ip, cv, xs, coef, npts, kind)
        if r:
            return [(r[0], r[1], dict(ip=ip, cycles=cv, x=xs, npoints=npts, coef=coef, interp_kind=kind))]
    return fails


# ------------------------------------------------------------------ check

def oracle_align_history(ctx, n):
    """phase_align with a RE-USED cycles iterator: an augmented-mode alignment followed by a default-mode one must give, in the
    second call, the same aligned values as a call with a fresh cycle vector (the alignment of a quantity linear in phase on
    the 0..2pi grid) - the result may not depend on the history of the iterator object."""
    from emd import cycles
    fails = []
    for i in range(n):
        ncyc = ctx.rng.randint(2, 5)
        ip, cv, xs, coef = [], [], [], []
        for k in range(ncyc):
            ln = ctx.rng.randint(6, 30)
            pts = sorted(ctx.rng.sample(range(1, 401), ln))
            a, b = ctx.rng.randint(-8, 8) / 4.0, ctx.rng.randint(-8, 8) / 2.0
            coef.append((a, b))
            ip += [p / 64.0 for p in pts]
            cv += [k] * len(pts)
            xs += [a * (p / 64.0) + b for p in pts]
        IP, X, CV = np.array(ip), np.array(xs), np.array(cv, dtype=int)
        npts = ctx.rng.choice([5, 24, 48])
        inp = dict(ip=ip, cycles=cv, x=xs, npoints=npts, history=['augmented', 'cycle'])
        try:
            with common.time_limit(30):
                it = cycles.IterateCycles(cycle_vect=CV, phase=IP)
                cycles.phase_align(IP, X, cycles=it, npoints=npts, mode='augmented')
                second, bins = cycles.phase_align(IP, X, cycles=it, npoints=npts)
                fresh, _ = cycles.phase_align(IP, X, cycles=CV, npoints=npts)
        except Exception as e:
            return [('phase_align(history)', 'raised %s: %s' % (type(e).__name__, e), inp)]
        ctx.count(('align-history', i), True, 'align-history')
        ctx.tol_cmp += 1
        if second.shape != fresh.shape or not np.allclose(second, fresh, rtol=1e-9, atol=1e-9):
            err = float(np.abs(second - fresh).max()) if second.shape == fresh.shape else -1
            return [('phase_align(history)', 'a default-mode alignment made with a cycles iterator that had been used for an augmented-mode '
                     'alignment differs from the alignment with a fresh cycle vector by %.3g (quantities linear in phase are no longer '
                     'reproduced on the phase grid)' % err, inp)]
    return fails

def run(ctx):
    maxlen = 6 if ctx.quick() else 8
    ctx.rule = ('(1) every label vector over {-1,0,1,2} of length <= %d whose labels are 0..max (gaps, interleaved and unordered labels '
                'included) x 6 reducing functions + sample projection, exact; (1b) labellings with an ABSENT label below the maximum (every vector over {-1..3} up to length %d + random rejected cycles) x {sum, len, lambda}; (1c) the statistics asked of a Cycles container (cache on / off) and of its iterator; (2) bin_by_phase on random integer edges/phases/values '
                '(incl. phases on edges, below, above) and on default edges with nbins 2..64; (3) phase_align on cycles of 2..%d '
                'samples with dyadic increasing phases vs exact rational interpolation, and linear-in-phase quantities under interp_kind linear / slinear / quadratic / cubic; '
                'non-trivial = has a gap or >= 2 cycles / populated last bin / extrapolated grid points'
                % (maxlen, 4 if ctx.quick() else 6, 60 if ctx.quick() else 400))
    ctx.proof(extra=['props/Prop_Tie_Cyclestat.v', 'props/Prop_Tie_Rest.v', 'props/Prop_Tie_Cyciter.v', 'props/Prop_Tie_Cycgen.v', 'props/Prop_Tie_Ctrl.v', 'props/Prop_Tie_Gcp.v'])  # translation tie: program regenerated from the source + refinement theorems
    # (1)
    lvs = label_vectors(maxlen)
    for _ in range(100 if ctx.quick() else 3000):
        K = ctx.rng.randint(1, 6)
        v = []
        for k in range(K):
            v += [-1] * ctx.rng.choice([0, 0, 1, 3]) + [k] * ctx.rng.randint(1, 9)
        lvs.append(v)
    cases = [(cv, values_for(cv)) for cv in lvs]
    ctx.exhaustive = True
    mh = ctx.model_hashes(IMPORTS, ['(%s, %s)' % (zlist(c), zlist(v)) for c, v in cases],
                          'fun c => run_stats (fst c) (snd c)', shard=500)
    bad = None
    for idx, (cv, vals) in enumerate(cases):
        out = impl_run_stats(cv, vals)
        ctx.count(cv, (-1 in cv) or max(cv) >= 1, 'stats')
        ctx.exact_cmp += 1
        fails = oracle_stats(cv, vals) if (idx % 5 == 0 or common.hashL(out) != mh[idx]) else []
        for site, detail in fails[:1]:
            ctx.problem('impl-violation', site, detail, input=dict(cycles=cv, values=vals))
        if common.hashL(out) != mh[idx] and bad is None and not fails:
            bad = ('run_stats', dict(cycles=cv, values=vals), out)
    ctx.sample(dict(cycles=cases[777][0], values=cases[777][1]))
    # (1b) "any labelling": a label below the maximum may be absent; functions defined on an empty selection (oracle only: the
    # model's max of nothing is a sentinel where numpy raises)
    glv = gapped_label_vectors(4 if ctx.quick() else 6)
    for _ in range(60 if ctx.quick() else 2000):
        K = ctx.rng.randint(2, 6)
        drop = ctx.rng.randrange(0, K - 1)
        v = []
        for k in range(K):
            v += [-1] * ctx.rng.choice([0, 0, 1, 3]) + [k if k != drop else -1] * ctx.rng.randint(1, 9)
        glv.append(v)
    for cv in glv:
        vals = values_for(cv, 3)
        ctx.count(('absent-label', tuple(cv)), True, 'stats-absent-label')
        ctx.exact_cmp += 1
        for site, detail in oracle_stats(cv, vals, only=EMPTY_OK)[:1]:
            ctx.problem('impl-violation', site, detail, input=dict(cycles=cv, values=vals, only=list(EMPTY_OK)))
    # (1c) the same statistics asked of a Cycles CONTAINER (slice cache on / off) or of its iterator instead of the label vector: the
    # labelling is the container's cycle vector, the answer must be the function of each label's samples all the same
    from emd import cycles as _cy
    crs = np.random.RandomState(ctx.seed * 37 + 2)
    for i in range(8 if ctx.quick() else 150):
        lens = crs.randint(8, 40, size=crs.randint(2, 7))
        ph = np.concatenate([np.linspace(0, 2 * np.pi, n, endpoint=False) + 1e-3 for n in lens])
        vals = crs.randint(-9, 10, size=len(ph)).astype(float)
        for cache in (True, False):
            try:
                C = _cy.Cycles(ph, use_cache=cache)
                cv = np.asarray(C.cycle_vect).reshape(-1)
            except Exception:                                           # noqa - constructing containers is C15's business
                continue
            K = int(cv.max()) + 1
            ctx.count(('container', i, cache), K >= 2, 'stats-container-%s' % ('cache' if cache else 'nocache'))
            ctx.exact_cmp += 1
            for name, f in FUNCS + [('mean', np.mean)]:
                if name in ('first', 'last'):
                    continue
                exp = [float(f(vals[cv == k])) for k in range(K)]
                for how, arg in (('Cycles object', C), ('C.iterate()', C.iterate())):
                    try:
                        got = np.asarray(_cy.get_cycle_stat(arg, vals, func=f), dtype=float).reshape(-1)
                    except Exception as e:                              # noqa
                        got = 'raised %s: %s' % (type(e).__name__, e)
                    if isinstance(got, str) or got.shape != (K,) or not np.allclose(got, exp, rtol=1e-12, atol=1e-12):
                        ctx.problem('impl-violation', 'get_cycle_stat', 'func=%s asked of a %s (use_cache=%s): got %s, the function applied to each '
                                    'cycle\'s samples gives %s' % (name, how, cache, got if isinstance(got, str) else got.tolist(), exp),
                                    input=dict(container_phase=[float(v) for v in ph], values=[float(v) for v in vals], use_cache=cache, func=name, how=how))
                        break
                else:
                    continue
                break
    # (2)
    bins = gen_bins(ctx, 400 if ctx.quick() else 10000)
    mo = ctx.model_outputs(IMPORTS, ['(%s, %s, %s)' % (zlist(e), zlist(i), zlist(x)) for e, i, x in bins],
                           "fun c => let '(e, i, x) := c in run_bins e i x", shard=400)
    for (edges, ip, x), m in zip(bins, mo):
        avg, err = impl_run_bins(edges, ip, x)
        top = edges[-1]
        ctx.count((edges, ip, x), any(top - 2 <= p < top for p in ip), 'bins-%d' % (len(edges) - 1))
        ctx.exact_cmp += 1
        inp = dict(bin_edges=edges, ip=ip, x=x)
        if err is not None:
            ctx.problem('impl-violation', 'bin_by_phase', 'raised (code %d)' % err[1], input=inp)
            continue
        # property oracle: every bin that contains samples holds their mean
        viol = None
        for b in range(len(edges) - 1):
            sel = [x[i] for i in range(len(ip)) if edges[b] <= ip[i] < edges[b + 1]]
            if sel and (np.isnan(avg[b]) or abs(avg[b] - sum(sel) / len(sel)) > 1e-12 * max(1, abs(sum(sel) / len(sel)))):
                viol = 'bin %d of %d contains samples %s (mean %.6g) but the output is %r' % (b, len(edges) - 1, sel, sum(sel) / len(sel), avg[b])
                break
        if viol:
            ctx.problem('impl-violation', 'bin_by_phase', viol, input=inp, tags=dict(last_bin=b == len(edges) - 2))
        else:
            d = cmp_bins(avg, m)
            if d and bad is None:
                bad = ('run_bins', inp, d)
    ctx.sample(dict(bin_edges=bins[0][0], ip=bins[0][1], x=bins[0][2]))
    for site, detail, inp in oracle_bins_default(ctx, 60 if ctx.quick() else 1500)[:1]:
        ctx.problem('impl-violation', site, detail, input=inp, tags=dict(last_bin=True))
    # (3)
    maxcyc = 60 if ctx.quick() else 400
    ac = gen_align(ctx, 40 if ctx.quick() else 800, maxcyc)
    b3 = run_align_cases(ctx, ac)
    ctx.sample(dict(ip=ac[0][0][:12], cycles=ac[0][1][:12], x=ac[0][2][:12], npoints=ac[0][3], note='first 12 samples'))
    for site, detail, inp in oracle_align_linear(ctx, 60 if ctx.quick() else 2000, maxcyc)[:1]:
        ctx.problem('impl-violation', site, detail, input=inp)
    for site, detail, inp in oracle_align_history(ctx, 25 if ctx.quick() else 600)[:1]:
        ctx.problem('impl-violation', site, detail, input=inp)
    if b3 is not None and bad is None:
        bad = ('run_align', dict(ip=b3[0][0], cycles=b3[0][1], x=b3[0][2], npoints=b3[0][3], cycle=b3[1]), dict(impl=b3[2], model=b3[3]))
    if bad is not None and not any(p['kind'] == 'impl-violation' for p in ctx.problems):
        ctx.problem('correspondence-break', bad[0], 'model and implementation differ', input=bad[1], observed=bad[2],
                    theorem='CycleStat.%s vs emd.cycles' % bad[0])


def replay(rec):
    from emd import cycles
    i = rec['input']
    if 'history' in i:
        IP, X, CV = np.array(i['ip']), np.array(i['x']), np.array(i['cycles'], dtype=int)
        it = cycles.IterateCycles(cycle_vect=CV, phase=IP)
        cycles.phase_align(IP, X, cycles=it, npoints=i['npoints'], mode='augmented')
        second, _ = cycles.phase_align(IP, X, cycles=it, npoints=i['npoints'])
        fresh, _ = cycles.phase_align(IP, X, cycles=CV, npoints=i['npoints'])
        print(float(np.abs(second - fresh).max()))
        return not np.allclose(second, fresh, rtol=1e-9, atol=1e-9)
    if 'container_phase' in i:
        C = cycles.Cycles(np.array(i['container_phase']), use_cache=i['use_cache'])
        cv = np.asarray(C.cycle_vect).reshape(-1)
        f = dict(FUNCS + [('mean', np.mean)])[i['func']]
        vals = np.array(i['values'])
        exp = [float(f(vals[cv == k])) for k in range(int(cv.max()) + 1)]
        got = np.asarray(cycles.get_cycle_stat(C if i['how'] == 'Cycles object' else C.iterate(), vals, func=f), dtype=float).reshape(-1)
        print(got.tolist(), exp)
        return got.shape != (len(exp),) or not np.allclose(got, exp, rtol=1e-12, atol=1e-12)
    if 'values' in i:
        f = oracle_stats(i['cycles'], i['values'], only=i.get('only'))
        print(f)
        return bool(f)
    if 'bin_edges' in i:
        avg, err = impl_run_bins(i['bin_edges'], i['ip'], i['x'])
        if err:
            return True
        e = i['bin_edges']
        for b in range(len(e) - 1):
            sel = [i['x'][k] for k in range(len(i['ip'])) if e[b] <= i['ip'][k] < e[b + 1]]
            if sel and (np.isnan(avg[b]) or abs(avg[b] - sum(sel) / len(sel)) > 1e-9):
                print('bin', b, avg[b], sel)
                return True
        return False
    if 'coef' in i:
        r = align_linear_check(i['ip'], i['cycles'], i['x'], [tuple(c) for c in i['coef']], i['npoints'], i.get('interp_kind', 'linear'))
        print(r)
        return r is not None
    if 'nbins' in i:
        avg, _, _ = cycles.bin_by_phase(np.array(i['ip']), np.array(i['x']), nbins=i['nbins'])
        print(avg[i['bin']])
        return bool(np.isnan(avg[i['bin']]))
    return False
