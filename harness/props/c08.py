"""C08 - ensemble sifts average genuinely independent noise realisations.

PROOF          coq/props/Prop_C08.v  (model: coq/model/Ensemble.v, reusing Variants.ensemble_collect / Variants.ceemd)
CORRESPONDENCE toy mode, bit exact: the real ensemble_sift / complete_ensemble_sift run under the integer toy envelope
               (harness/toys.py) with np.random AS SEEN BY emd.sift replaced by the counter generator that is also written
               in Gallina (Ensemble.gen_n / gen_u) and sift's input rounded to integers; compared with the model: the noise
               every member received (traced), the result (implementation x nensembles (x 2 in flip mode) against the model's
               sums; the complete ensemble against the model's exact quotients), the parent's generator position afterwards.
               The schedule given to the model is the one OBSERVED in the run (pid, start order).
ORACLE         real numerics, nensembles x nprocesses x {single, flip} x noise {0, small, large}: a harness-side wrapper around
               emd.sift.sift / emd.sift._sift_with_noise (installed before any Pool exists, inherited through fork; no hook in
               /repo) records per member call (pid, member, sign, sift input, X) to per-pid files; checked:
               (a) noise digests pairwise distinct across members (non-zero amplitude only), (b) result == mean of the member
               decompositions recomputed from the traced inputs, flip members being the mean of +/- noise, (c) zero amplitude
               == classic sift with the same cap, (d) the same per layer for complete_ensemble_sift.
               Never compared: floats across processes from a seed, timing, log text.  Members with different column counts
               (IndexError, a robustness limit outside this property) are discarded and counted.
"""
import functools
import hashlib
import inspect
import os
import pickle
import time
import warnings

import numpy as np

import common
import toys
from common import zlist

IMPORTS = 'From EmdV Require Import lib.NpLite model.Extrema model.SiftCore model.Toys model.Variants model.Ensemble.'
DEFAULT_TAIL = [0, 1000, 1, 1, 0, 1, 10, 1, 20, 1, 2, 1, 20]      # emd's default imf_opts (as harness/props/c03.py)
LEVELS = {0: 0.0, 1: 0.05, 2: 1.0}                                # noise amplitude: zero, small, large (x std of the signal)

TRACE = dict(dir=None, round=False, cur=None, seq=0)
_REAL = {}


# ----------------------------------------------------------------------------- harness-side tracing (no hook in /repo)
def _emit(rec):
    with open(os.path.join(TRACE['dir'], 'tr-%d.pkl' % os.getpid()), 'ab') as f:
        pickle.dump(rec, f)


def install():
    """wrap emd.sift.sift and emd.sift._sift_with_noise as module attributes (so forked Pool workers inherit the
    wrappers and starmap can pickle them by name).  Inactive unless TRACE['dir'] is set."""
    from emd import sift as S
    if _REAL:
        return
    real_sift, real_swn = S.sift, S._sift_with_noise
    _REAL['sift'], _REAL['swn'] = real_sift, real_swn
    try:
        sig = inspect.signature(real_swn)
    except (TypeError, ValueError):
        sig = None

    @functools.wraps(real_sift)
    def sift(X, *a, **k):
        if TRACE['dir'] is None:
            return real_sift(X, *a, **k)
        Xin = np.asarray(X, dtype=float)
        if TRACE['round']:
            r = np.round(Xin)
            if Xin.size and np.abs(Xin - r).max() > 1e-6:
                raise toys.ToyDomainError('sift fed a non-integer signal in toy mode')
            Xin = r
        cur = TRACE['cur']
        TRACE['seq'] += 1
        rec = dict(pid=os.getpid(), seq=TRACE['seq'], t=time.monotonic_ns(), kind='member' if cur else 'direct',
                   inp=np.array(Xin, copy=True), args=a, kwargs=k, ncols=None, err=None)
        if cur is not None:
            rec.update(member=cur['job'], sign='+' if cur['calls'] == 0 else '-', X=cur['X'], noise_arg=cur['noise'],
                       scaling=cur['scaling'])
            cur['calls'] += 1
        try:
            out = real_sift(Xin, *a, **k)
            rec['ncols'] = int(out.shape[1])
            return out
        except Exception as e:
            rec['err'] = type(e).__name__
            raise
        finally:
            _emit(rec)

    @functools.wraps(real_swn)
    def _sift_with_noise(*a, **k):
        if TRACE['dir'] is None:
            return real_swn(*a, **k)
        job, X, noise, scaling = None, None, None, None
        try:
            b = sig.bind(*a, **k)
            X = np.array(b.arguments['X'], dtype=float, copy=True)
            job = b.arguments.get('job_ind')
            noise = b.arguments.get('noise')
            noise = None if noise is None else np.array(noise, dtype=float, copy=True)
            scaling = b.arguments.get('noise_scaling')
        except Exception:
            pass
        TRACE['cur'] = dict(job=job, X=X, noise=noise, scaling=scaling, calls=0)
        try:
            return real_swn(*a, **k)
        finally:
            TRACE['cur'] = None

    S.sift, S._sift_with_noise = sift, _sift_with_noise


def read_trace(d):
    recs = []
    for fn in sorted(os.listdir(d)):
        if not fn.startswith('tr-'):
            continue
        p = os.path.join(d, fn)
        with open(p, 'rb') as f:
            while True:
                try:
                    recs.append(pickle.load(f))
                except EOFError:
                    break
        os.remove(p)
    recs.sort(key=lambda r: (r['t'], r['pid'], r['seq']))
    return recs


def traced_call(fname, x, kw, tracedir, rounding=False, timeout=120):
    """run emd.sift.<fname>(x, **kw) with the wrappers recording.  -> (status, result | exception, records)"""
    from emd import sift as S
    install()
    os.makedirs(tracedir, exist_ok=True)
    read_trace(tracedir)
    TRACE.update(dir=tracedir, round=rounding, cur=None)
    st, out = 'ok', None
    try:
        with warnings.catch_warnings():
            warnings.simplefilter('ignore')
            with common.time_limit(timeout):
                out = getattr(S, fname)(x, **kw)
    except common.Timeout:
        st = 'timeout'
    except toys.ToyDomainError:
        st = 'nonint'
    except Exception as e:
        st, out = ('converge' if type(e).__name__ == 'EMDSiftCovergeError' else 'raised'), e
    finally:
        TRACE.update(dir=None, round=False, cur=None)
    return st, out, read_trace(tracedir)


def resift(rec, rounding=False):
    """the decomposition of one traced sift call, recomputed in this process from the recorded input and arguments"""
    with warnings.catch_warnings():
        warnings.simplefilter('ignore')
        with common.time_limit(60):
            return _REAL['sift'](rec['inp'], *rec['args'], **rec['kwargs'])


def sha(a):
    return hashlib.sha1(np.ascontiguousarray(a, dtype=float).tobytes()).hexdigest()


# ----------------------------------------------------------------------------- the property on one traced run
def layers_of(recs):
    """member calls grouped by the signal X they were asked to perturb, in order of first use; [(X, {member: {sign: rec}})]"""
    groups, order = {}, []
    for r in recs:
        if r['kind'] != 'member' or r.get('X') is None:
            continue
        key = sha(r['X'])
        if key not in groups:
            groups[key] = (r['X'], {})
            order.append(key)
        groups[key][1].setdefault(r['member'], {})[r['sign']] = r
    return [groups[k] for k in order]


def analyse(kind, x, kw, st, out, recs, rounding=False):
    """-> (fails, discard_reason | None, info).  fails: list of (site, message, observed, expected)"""
    nens, mode, cap = kw['nensembles'], kw['noise_mode'], kw.get('max_imfs')
    amp = kw['ensemble_noise']
    X = np.asarray(x, dtype=float).reshape(-1, 1)
    N = X.shape[0]
    scale = float(np.abs(X).max() + amp * X.std() * 6 + 1e-300)
    tol = 1e-9 * scale
    fails = []
    info = dict(pids=len({r['pid'] for r in recs if r['kind'] == 'member'}), layers=0)
    if st in ('timeout', 'nonint', 'converge'):
        return [], st, info
    lay = layers_of(recs)
    info['layers'] = len(lay)
    signs = ('+', '-') if mode == 'flip' else ('+',)
    if any(r.get('err') for r in recs):
        return [], 'member-raised', info
    if sum(1 for r in recs if r['kind'] == 'member') > len(lay) * nens * len(signs) and st == 'ok' and kind != 'ensemble_sift':
        # MORE member calls than layers x members x signs: two layers perturbing the very same residual were merged by layers_of and
        # cannot be told apart.  (FEWER calls is not this case: a member or a sign is missing, which the per-layer test below reports)
        return [], 'degenerate-layers', info
    nmember = sum(1 for r in recs if r['kind'] == 'member')
    if st == 'ok' and amp != 0 and nmember < nens * len(signs):
        # "every ensemble member is sifted with its own noise realisation": with non-zero noise there must be a member sift per
        # (member, sign) - a run that sifts fewer (e.g. falls back to one plain sift) has no realisations at all
        fails.append((kind, '%s with ensemble_noise=%g (x std = %.3g), nensembles=%d, noise_mode=%s ran %d member sift(s) instead of %d: '
                      'the members did not each get a noise realisation' % (kind, amp, float(X.std()), nens, mode, nmember, nens * len(signs)),
                      dict(member_sifts=nmember), dict(member_sifts=nens * len(signs))))
        return fails, None, info
    # ---- every layer: one call per (member, sign); noise = sift input - X
    for L, (XL, members) in enumerate(lay):
        if sorted(members, key=lambda m: (m is None, m)) != list(range(nens)) or any(sorted(v) != sorted(signs) for v in members.values()):
            if st == 'ok':
                fails.append(('trace', 'layer %d: member calls seen %s, expected one per member 0..%d and sign %s'
                              % (L, {m: sorted(v) for m, v in members.items()}, nens - 1, list(signs)), None, None))
            return fails, (None if fails else 'incomplete-trace'), info
        noises = [members[i]['+']['inp'] - XL for i in range(nens)]
        # distinctness is demanded of the realisations the generator produced (the members' blocks / the columns of the parent's
        # matrix).  The DERIVED noise of later complete-ensemble layers (column minus its own first IMF) may legitimately vanish or
        # coincide (it does under the toy envelopes); that update is tied to the model by ceemd_update_conforms instead.
        if amp != 0 and L == 0:
            dig = [sha(n) for n in noises]
            if len(set(dig)) < nens:
                dup = sorted({d for d in dig if dig.count(d) > 1})
                who = [[i for i in range(nens) if dig[i] == d] for d in dup]
                pid_of = {i: members[i]['+']['pid'] for i in range(nens)}
                fails.append(('noise-shared', '%s%s: members %s were sifted with the SAME noise realisation (%d distinct noise arrays for %d members on %d '
                              'worker processes)' % (kind, '' if kind == 'ensemble_sift' else ' layer %d' % L, who, len(set(dig)), nens, len(set(pid_of.values()))),
                              dict(digests=dig, pids=[pid_of[i] for i in range(nens)]), 'pairwise distinct digests'))
                return fails, None, info
            if any(float(np.abs(n).max()) == 0.0 for n in noises):
                fails.append(('noise-zero', '%s: a member received no noise although ensemble_noise=%g' % (kind, amp), None, None))
        if mode == 'flip':
            for i in range(nens):
                d = (members[i]['+']['inp'] - XL) + (members[i]['-']['inp'] - XL)
                if float(np.abs(d).max()) > tol:
                    fails.append(('flip-noise', '%s: member %d: the second decomposition is not of X - noise (|n+ + n-| = %.3g)'
                                  % (kind, i, float(np.abs(d).max())), None, None))
                    return fails, None, info
    # ---- column counts of the members (IndexError / broadcasting cases are outside the property)
    for XL, members in lay:
        for i in range(nens):
            nc = [members[i][s]['ncols'] for s in signs]
            if len(set(nc)) > 1:
                return fails, 'flip-columns-differ', info
    if kind == 'ensemble_sift':
        if not lay:
            return ([('trace', 'no member call was observed', None, None)] if st == 'ok' else []), 'no-trace', info
        members = lay[0][1]
        ncs = [members[i]['+']['ncols'] for i in range(nens)]
        K = cap if cap is not None else ncs[0]
        if min(ncs) < K:
            return fails, 'members-differ', info           # the code raises IndexError here: known limit
        if st != 'ok':
            fails.append(('raised', 'ensemble_sift raised %r although every member returned at least %d columns' % (out, K), None, None))
            return fails, None, info
        dec = []
        for i in range(nens):
            a = resift(members[i]['+'])
            if mode == 'flip':
                a = (a[:, :K] + resift(members[i]['-'])[:, :K]) / 2
            dec.append(a[:, :K])
        want = np.mean(np.array(dec), axis=0)
        if out.shape != (N, K):
            fails.append(('mean', 'ensemble_sift returned shape %s, expected (%d, %d)' % (out.shape, N, K), list(out.shape), [N, K]))
        elif float(np.abs(out - want).max()) > tol:
            fails.append(('mean', 'ensemble_sift result is not the per-IMF mean over the %d members recomputed from the traced noise%s '
                          '(max deviation %.3g, scale %.3g)' % (nens, ' (each the mean of its +noise and -noise decompositions)' if mode == 'flip' else '',
                                                              float(np.abs(out - want).max()), scale), None, None))
        if amp == 0 and not fails:
            kws = dict(members[0]['+']['kwargs'])
            if 'max_imfs' in kws:
                kws['max_imfs'] = cap                        # the CALLER's cap
            c = _REAL['sift'](np.round(X) if rounding else X, *members[0]['+']['args'], **kws)
            if c.shape[1] >= K and float(np.abs(out - c[:, :K]).max()) > tol:
                fails.append(('zero-noise', 'ensemble_sift with zero noise amplitude differs from the classic sift with the same cap '
                              '(max deviation %.3g)' % float(np.abs(out - c[:, :K]).max()), None, None))
        return fails, None, info
    # ---- complete_ensemble_sift
    if st != 'ok':
        return fails, 'raised', info                       # a member / noise sift raising is not this property's business
    imf = out[0]
    if imf.ndim != 2 or imf.shape[0] != N or imf.shape[1] != len(lay):
        fails.append(('mean', 'complete_ensemble_sift returned %s columns but %d ensemble layers were computed' % (imf.shape, len(lay)), None, None))
        return fails, None, info
    for L, (XL, members) in enumerate(lay):
        res = X - np.ascontiguousarray(imf[:, :L]).sum(axis=1)[:, None] if L else X
        if float(np.abs(res - XL).max()) > tol:
            fails.append(('layer', 'complete_ensemble_sift layer %d was not extracted from the input minus the earlier components' % L, None, None))
            break
        dec = []
        for i in range(nens):
            a = resift(members[i]['+'])[:, :1]
            if mode == 'flip':
                a = (a + resift(members[i]['-'])[:, :1]) / 2
            dec.append(a)
        want = np.mean(np.array(dec), axis=0)
        if float(np.abs(imf[:, L:L + 1] - want).max()) > tol:
            fails.append(('mean', 'complete_ensemble_sift component %d is not the mean over the %d members of their first IMF recomputed from the '
                          'traced noise (max deviation %.3g, scale %.3g)' % (L, nens, float(np.abs(imf[:, L:L + 1] - want).max()), scale), None, None))
            break
    if amp == 0 and not fails and lay:
        r0 = lay[0][1][0]['+']
        kws = dict(r0['kwargs'])
        if 'max_imfs' in kws:
            kws['max_imfs'] = cap
        c = _REAL['sift'](np.round(X) if rounding else X, *r0['args'], **kws)
        m = min(c.shape[1], imf.shape[1])
        if float(np.abs(imf[:, :m] - c[:, :m]).max()) > tol:
            fails.append(('zero-noise', 'complete_ensemble_sift with zero noise amplitude: its first %d components differ from the classic sift '
                          '(max deviation %.3g)' % (m, float(np.abs(imf[:, :m] - c[:, :m]).max())), None, None))
    return fails, None, info


def ceemd_update_conforms(recs, tol):
    """model tie for Ensemble.ce_upd: the noise column of member i in layer L+1 is its column in layer L minus the first
    IMF of the direct sift of that column.  -> None (conforms / not checkable) or a message"""
    lay = layers_of(recs)
    direct = [r for r in recs if r['kind'] == 'direct']

    def find(n0):
        for r in direct:
            if r['inp'].shape == n0.shape and float(np.abs(r['inp'] - n0).max()) <= tol:
                return r
        return None
    for L in range(len(lay) - 1):
        for i, calls in lay[L][1].items():
            n0 = calls['+'].get('noise_arg')
            n1 = lay[L + 1][1].get(i, {}).get('+', {}).get('noise_arg')
            if n0 is None or n1 is None:
                return None
            d = find(n0)
            if d is None:
                return 'layer %d member %d: no direct sift of its noise column was observed' % (L, i)
            f = resift(d)[:, :1]
            if float(np.abs(n1 - (n0 - f)).max()) > tol:
                return 'layer %d member %d: next noise column is not (column - its own first IMF)' % (L, i)
    return None


# ----------------------------------------------------------------------------- real numerics
def real_signal(fam, N, seed):
    rs = np.random.RandomState(seed)
    t = np.arange(N)
    if fam == 'tones':
        return np.sin(2 * np.pi * t / 7.3) + 0.6 * np.sin(2 * np.pi * t / 23.0 + 1) + 0.3 * np.cos(2 * np.pi * t / 3.1) + 0.01 * t
    if fam == 'walk':
        return np.cumsum(rs.randn(N)) + 0.5 * np.sin(2 * np.pi * t / 4.7)
    return (1 + 0.5 * np.sin(2 * np.pi * t / 50)) * np.sin(2 * np.pi * t / 9 + np.sin(2 * np.pi * t / 40)) + 0.4 * rs.randn(N)


def real_case(inp, tracedir):
    """inp: dict(variant, family, N, sigseed, nensembles, nprocesses, noise_mode, level, max_imfs, npseed)"""
    x = real_signal(inp['family'], inp['N'], inp['sigseed'])
    if inp.get('ampscale'):
        x = np.asarray(x, dtype=float) * inp['ampscale']          # recordings in very small units (volts, tesla): noise is RELATIVE to std(x)
    if inp.get('dtype'):
        # coarse integer counts (a few counts of amplitude): the member noise is then a fraction of one count
        x = np.round(np.asarray(x, dtype=float) * 3 / max(1e-12, float(np.std(x)))).astype(inp['dtype'])
    kw = dict(nensembles=inp['nensembles'], ensemble_noise=LEVELS[inp['level']], noise_mode=inp['noise_mode'],
              nprocesses=inp['nprocesses'], max_imfs=inp['max_imfs'])
    np.random.seed(inp['npseed'])
    st, out, recs = traced_call(inp['variant'], x, kw, tracedir)
    fails, disc, info = analyse(inp['variant'], x, kw, st, out, recs)
    brk = None
    if inp['variant'] == 'complete_ensemble_sift' and st == 'ok' and not fails and not disc:
        brk = ceemd_update_conforms(recs, 1e-9 * float(np.abs(x).max() + 1))
    return fails, disc, info, brk


# ----------------------------------------------------------------------------- toy mode
def gen_core(p):
    a = p * p + 1237 * p + 9973
    b = (a * a) % 1000003
    return (b * b + p) % 10007


def gen_n(p):
    return gen_core(p) % 13 - 6


def gen_u(p):
    return gen_core(p) % 8


class ToyRandom:
    """counter generator, twin of Ensemble.toy_draw: the state is the stream position"""

    def __init__(self):
        self.pos = 0

    def _draw(self, g, shape):
        n = int(np.prod(shape)) if len(shape) else 1
        v = np.array([g(self.pos + j) for j in range(n)], dtype=float).reshape(shape)
        self.pos += n
        return v

    def randn(self, *shape):
        return self._draw(gen_n, tuple(shape))

    def random_sample(self, size=None):
        return self._draw(gen_u, tuple(size) if isinstance(size, (tuple, list)) else ((size,) if size else ()))


class NpProxy:
    """numpy as seen by emd.sift, except for .random"""

    def __init__(self, real, rnd):
        self.__dict__['_real'] = real
        self.__dict__['random'] = rnd

    def __getattr__(self, name):
        return getattr(self.__dict__['_real'], name)


class toy_world:
    """toy envelope + counter generator + rounding of sift's input, all as seen by emd.sift (and by forked workers)"""

    def __init__(self, rule):
        self.rule = rule

    def __enter__(self):
        from emd import sift as S
        install()
        self.S = S
        self.real_np, self.real_env = S.np, S.interp_envelope
        self.rnd = ToyRandom()
        S.np = NpProxy(self.real_np, self.rnd)
        S.interp_envelope = toys.ToyEnvelope(self.rule)
        return self

    def __exit__(self, *a):
        self.S.np, self.S.interp_envelope = self.real_np, self.real_env
        return False


def observed_schedule(recs):
    """(worker, task) events in start order from the trace of an ensemble_sift run"""
    pids, sc = {}, []
    for r in recs:
        if r['kind'] == 'member' and r['sign'] == '+':
            sc.append((pids.setdefault(r['pid'], len(pids)), r['member']))
    return sc


def render_cols(a, mult=1):
    out = []
    for k in range(a.shape[1]):
        out += [int(round(float(v) * mult)) for v in a[:, k]] + [-99999]
    return out


def toy_case(inp, tracedir):
    """inp: dict(variant, cfg, signal, nensembles, nprocesses, noise_mode, k).
    -> dict(status, impl render, schedule, fails, discard, brk)"""
    cfg, x = inp['cfg'], inp['signal']
    X = np.array(x, dtype=float)
    nens, flip, k = inp['nensembles'], inp['noise_mode'] == 'flip', inp['k']
    std = float(X.std())
    amp = 0.0 if k == 0 else k / std
    kw = dict(nensembles=nens, ensemble_noise=amp, noise_mode=inp['noise_mode'], nprocesses=inp['nprocesses'],
              sift_thresh=cfg[14] / 2, max_imfs=(cfg[15] or None))
    if inp['variant'] == 'ensemble_sift':
        kw['imf_opts'] = toys.imf_opts(cfg)
    res = dict(status=None, got=None, sched=[], fails=[], discard=None, brk=None, v0_like=None)
    with toy_world(cfg[0]) as w:
        st, out, recs = traced_call(inp['variant'], X, kw, tracedir, rounding=True, timeout=8)
        fails, disc, info = analyse(inp['variant'], X, kw, st, out, recs, rounding=True)
        pos = w.rnd.pos
        if inp['variant'] != 'ensemble_sift' and st == 'ok' and not fails and not disc:
            res['brk'] = ceemd_update_conforms(recs, 1e-6)
    res.update(status=st, fails=fails, discard=disc, info=info)
    if disc or st in ('timeout', 'nonint', 'converge'):
        res['discard'] = disc or st
        return res
    if any((r['ncols'] or 0) >= 58 for r in recs):
        res['discard'] = 'model-fuel'                     # the model's outer loop has fuel for 60 components
        return res
    lay = layers_of(recs)
    if inp['variant'] == 'ensemble_sift':
        res['sched'] = observed_schedule(recs)
        noise = []
        if lay:
            for i in range(nens):
                c = lay[0][1].get(i, {}).get('+')
                noise += ([int(v) for v in (c['inp'] - lay[0][0]).reshape(-1)] if c is not None else [-3]) + [-99999]
        if st == 'ok':
            mult = nens * (2 if flip else 1)
            if not np.all(np.isfinite(out)) or not np.all(out * mult == np.round(out * mult)):
                res['discard'] = 'nonint'
                return res
            body = [0] + render_cols(out, mult)
            res['plain'] = [0] + render_cols(out) if np.all(out == np.round(out)) else None
        else:
            body = [-1]
        res['got'] = noise + [-77777] + body + [-88888, pos]
        # which model explains the traced noise when it is not block i of one stream?
        by_pid = {}
        v0 = []
        for r in recs:
            if r['kind'] == 'member' and r['sign'] == '+':
                rank = by_pid.get(r['pid'], 0)
                by_pid[r['pid']] = rank + 1
                v0.append((r['member'], rank))
        res['v0_ranks'] = v0
    else:
        if st != 'ok':
            res['got'] = [-77777, -1, -88888, pos]
            return res
        imf = out[0]
        if not np.all(np.isfinite(imf)) or not np.all(imf == np.round(imf)):
            res['discard'] = 'nonint'
            return res
        if imf.shape[1] >= 58:
            res['discard'] = 'model-fuel'
            return res
        noise = []
        if lay:
            for i in range(nens):
                c = lay[0][1].get(i, {}).get('+')
                na = None if c is None else c.get('noise_arg')
                noise += ([int(v) for v in np.round(na).reshape(-1)] if na is not None else [-3]) + [-99999]
        res['got'] = noise + [-77777, 0] + render_cols(imf) + [-88888, pos]
    return res


def par_of(inp, exact=False):
    flip = inp['noise_mode'] == 'flip'
    if inp['variant'] == 'ensemble_sift':
        return [int(flip), inp['nensembles'], inp['k'], 2, 1] if exact else [int(flip), inp['nensembles'], inp['k'], 1, 0]
    return [int(flip), inp['nensembles'], inp['k'], 1, 2 if flip else 1]


def sched_lit(sc):
    return '[' + '; '.join('(%d, %d)' % (w, t) for w, t in sc) + ']'


def model_toy(ctx, cases):
    """cases: [(inp, res)] -> expected renders"""
    ens = [(i, r) for i, r in cases if i['variant'] == 'ensemble_sift']
    cee = [(i, r) for i, r in cases if i['variant'] != 'ensemble_sift']
    exp = {}
    if ens:
        lits = ['(((%s, %s), %s), %s)' % (zlist(i['cfg']), zlist(par_of(i)), sched_lit(r['sched']), zlist(i['signal'])) for i, r in ens]
        mo = ctx.model_outputs(IMPORTS, lits, 'fun c => run_toy_ens (fst (fst (fst c))) (snd (fst (fst c))) (snd (fst c)) (snd c)', shard=40)
        for (i, r), m in zip(ens, mo):
            exp[id(i)] = m
        z = [(i, r) for i, r in ens if i['k'] == 0]
        if z:
            lits = ['(((%s, %s), %s), %s)' % (zlist(i['cfg']), zlist(par_of(i, True)), sched_lit(r['sched']), zlist(i['signal'])) for i, r in z]
            mo = ctx.model_outputs(IMPORTS, lits, 'fun c => run_toy_ens (fst (fst (fst c))) (snd (fst (fst c))) (snd (fst c)) (snd c)', shard=40)
            for (i, r), m in zip(z, mo):
                exp[('exact', id(i))] = m
    if cee:
        lits = ['((%s, %s), %s)' % (zlist(i['cfg']), zlist(par_of(i)), zlist(i['signal'])) for i, r in cee]
        mo = ctx.model_outputs(IMPORTS, lits, 'fun c => run_toy_ceemd_noise (fst (fst c)) (snd (fst c)) (snd c)', shard=40)
        for (i, r), m in zip(cee, mo):
            exp[id(i)] = m
    return exp


def model_v0(ctx, inp, sched):
    lit = '(((%s, %s), %s), %s)' % (zlist(inp['cfg']), zlist(par_of(inp)), sched_lit(sched), zlist(inp['signal']))
    return ctx.model_outputs(IMPORTS, [lit], 'fun c => run_toy_ens_v0 (fst (fst (fst c))) (snd (fst (fst c))) (snd (fst c)) (snd c)')[0]


# ----------------------------------------------------------------------------- run
def _toy_worker(a):
    return toy_case(a[0], os.path.join(a[1], 'w%d' % os.getpid()))


def _real_worker(a):
    return real_case(a[0], os.path.join(a[1], 'w%d' % os.getpid()))


def pmap(fn, items, nworkers=6):
    """cases in parallel, each in a forked NON-daemonic process (so that the code under test may create its own Pool);
    the wrappers installed by install() are inherited"""
    import concurrent.futures
    import multiprocessing
    install()
    with concurrent.futures.ProcessPoolExecutor(max_workers=nworkers, mp_context=multiprocessing.get_context('fork')) as ex:
        return list(ex.map(fn, items, chunksize=1))


def grid(ctx):
    q = ctx.quick()
    top = 4 if q else 8
    fams = ['tones', 'walk'] if q else ['tones', 'walk', 'amfm']
    cases = []
    n = 0
    for variant in ('ensemble_sift', 'complete_ensemble_sift'):
        for nens in range(1, top + 1):
            for nproc in range(1, top + 1):
                for mode in ('single', 'flip'):
                    for level in (0, 1, 2):
                        n += 1
                        sel = [fams[n % 2]] if q else fams
                        for fam in sel:
                            cases.append(dict(variant=variant, family=fam, N=64 + 16 * ((n + len(fam)) % 5), sigseed=ctx.seed * 7 + n % 3,
                                              nensembles=nens, nprocesses=nproc, noise_mode=mode, level=level,
                                              max_imfs=2 + (n % 2), npseed=(ctx.seed * 100003 + n) % (2 ** 31)))
    if q:
        # the quick grid stops at 4 x 4; a few points beyond it where the pool hands ONE worker SEVERAL members in one chunk
        # (nensembles > 4 * nprocesses), which is where state carried from one member to the next inside a worker shows
        for variant in ('ensemble_sift', 'complete_ensemble_sift'):
            for nens, nproc in ((5, 1), (6, 1), (8, 1), (7, 3), (8, 2)):
                for mode in ('single', 'flip'):
                    n += 1
                    cases.append(dict(variant=variant, family=fams[n % 2], N=64 + 16 * (n % 5), sigseed=ctx.seed * 7 + n % 3,
                                      nensembles=nens, nprocesses=nproc, noise_mode=mode, level=1 + n % 2,
                                      max_imfs=2 + (n % 2), npseed=(ctx.seed * 100003 + n) % (2 ** 31)))
    # recordings in very small units with non-zero (relative) noise: every member must still get its own realisation
    for variant in ('ensemble_sift', 'complete_ensemble_sift'):
        for nens, nproc in (((2, 1), (3, 2)) if q else ((2, 1), (3, 2), (4, 3), (8, 4))):
            for mode in ('single', 'flip'):
                for sc in (1e-9, 1e-12):
                    n += 1
                    cases.append(dict(variant=variant, family=fams[n % 2], N=64 + 16 * (n % 5), sigseed=ctx.seed * 7 + n % 3,
                                      nensembles=nens, nprocesses=nproc, noise_mode=mode, level=1 + n % 2, ampscale=sc,
                                      max_imfs=2 + (n % 2), npseed=(ctx.seed * 100003 + n) % (2 ** 31)))
    # integer-typed recordings (coarse counts) with non-zero noise: every member must still get its own realisation
    for variant in ('ensemble_sift', 'complete_ensemble_sift'):
        for nens, nproc in (((2, 1), (3, 2), (4, 3)) if q else ((2, 1), (3, 2), (4, 3), (5, 1), (8, 8), (7, 2))):
            for mode in ('single', 'flip'):
                for dt in ('int16', 'int64'):
                    n += 1
                    cases.append(dict(variant=variant, family=fams[n % 2], N=64 + 16 * (n % 5), sigseed=ctx.seed * 7 + n % 3,
                                      nensembles=nens, nprocesses=nproc, noise_mode=mode, level=1 + n % 2, dtype=dt,
                                      max_imfs=2 + (n % 2), npseed=(ctx.seed * 100003 + n) % (2 ** 31)))
    return cases


def toy_cases(ctx):
    q = ctx.quick()
    out = []
    nE, nC = (70, 40) if q else (900, 500)
    for j in range(nE + nC):
        variant = 'ensemble_sift' if j < nE else 'complete_ensemble_sift'
        for _ in range(50):
            x = toys.gen_signal(ctx.rng, ctx.rng.randint(10, 36))
            if float(np.std(x)) > 0:
                break
        cfg = toys.gen_cfg(ctx.rng, energy_ok=False)
        cfg[5] = 0
        if cfg[1] != 2 and cfg[2] < 20:
            cfg[2] = ctx.rng.choice([20, 50, 200])       # fewer EMDSiftCovergeError discards (C04's business)
        if variant == 'ensemble_sift':
            cfg[15] = ctx.rng.choice([0, 1, 1, 2, 2, 3])
            nens = ctx.rng.choice([1, 2, 2, 4, 4] + ([] if q else [8]))
            k = ctx.rng.choice([0, 4, 8, 8, 32])
        else:
            # the noise sifts of the complete ensemble run with emd's default options: the model uses them throughout
            cfg = [cfg[0] if cfg[0] != 1 else 4] + DEFAULT_TAIL + [cfg[14], ctx.rng.choice([1, 2, 2, 3, 0]), 0]
            nens = ctx.rng.choice([1, 2, 2, 4])
            k = ctx.rng.choice([0, 4, 4, 8])
        out.append(dict(variant=variant, cfg=cfg, signal=x, nensembles=nens, nprocesses=ctx.rng.randint(1, 4 if q else 8),
                        noise_mode=ctx.rng.choice(['single', 'flip']), k=k))
    return out


def run(ctx):
    ctx.rule = ('real numerics: nensembles 1..%d x nprocesses 1..%d (quick tier: plus (5,1) (6,1) (8,1) (7,3) (8,2); plus int16 / int64 recordings of a few counts amplitude and recordings scaled by 1e-9 / 1e-12, with non-zero noise) x {single, flip} x noise amplitude {0, 0.05, 1.0} x std, signals tones / random walk '
                '/ AM-FM + noise of 64..128 samples, max_imfs 2..3, for ensemble_sift and complete_ensemble_sift; '
                'per run the traced noise of every (member, sign) must be pairwise distinct across members (amplitude != 0), the result must be the '
                'mean of the member decompositions recomputed from the traced inputs (flip: mean of +/-), zero amplitude must equal the classic sift.  '
                'toy mode (bit exact): integer signals of 10..36 samples, toy envelopes, counter generator, nensembles in {1,2,4,8}, nprocesses 1..8, '
                'noise_scaling in {0,4,8,32}, compared with Ensemble.run_toy_ens / run_toy_ceemd_noise under the OBSERVED schedule.  '
                'That two different blocks of the generator differ is the generator\'s contract (oracle), not proved.  '
                'non-trivial = non-zero noise, >= 2 members, and >= 2 worker processes actually used'
                % ((4, 4) if ctx.quick() else (8, 8)))
    ctx.notes.append('generator (numpy global RandomState / toy counter), per-member sift, signal arithmetic and the OS scheduler are oracles; '
                     'distinct blocks holding distinct numbers is stated as the hypothesis of Prop_C08.members_noise_distinct, not proved')
    ctx.proof(extra=['props/Prop_Tie_Ensemble.v'])  # translation tie: program regenerated from the source + refinement theorems
    install()
    tdir = os.path.join(ctx.work, 'trace')
    # ---- correspondence: toy mode
    tc = toy_cases(ctx)
    done = list(zip(tc, pmap(_toy_worker, [(inp, tdir) for inp in tc])))
    live = [(i, r) for i, r in done if not r['discard'] and r['got'] is not None]
    exp = model_toy(ctx, live) if live else {}
    bad = []
    for inp, res in done:
        key = ('toy', inp['variant'], tuple(inp['cfg']), tuple(inp['signal']), inp['nensembles'], inp['nprocesses'], inp['noise_mode'], inp['k'])
        if res['discard']:
            ctx.discarded += 1
            ctx.hist['toy-discard-' + str(res['discard'])] += 1
            continue
        nontriv = inp['k'] != 0 and inp['nensembles'] >= 2 and res['info']['pids'] >= 2
        ctx.count(key, nontriv, 'toy-%s-%s-k%s' % (inp['variant'][:8], inp['noise_mode'], 'zero' if inp['k'] == 0 else 'pos'))
        ctx.exact_cmp += 1
        rep = dict(mode='toy', **inp)
        for site, msg, obs, want in res['fails'][:1]:
            ctx.problem('impl-violation', site, msg, input=rep, observed=obs, expected=want, tags=dict(mode='toy'))
        m = exp.get(id(inp))
        ok = res['got'] == m
        if ok and inp['variant'] == 'ensemble_sift' and inp['k'] == 0 and res.get('plain') is not None:
            ctx.exact_cmp += 1
            me = exp.get(('exact', id(inp)))
            body = me[me.index(-77777) + 1:me.index(-88888)]
            if body != res['plain']:
                ok = False
                m = me
        if res.get('brk'):
            ok = False
        if not ok and not res['fails'] and len(bad) < 6:
            extra = None
            if inp['variant'] == 'ensemble_sift' and res['sched']:
                try:
                    extra = model_v0(ctx, inp, res['sched']) == res['got']
                except Exception:
                    extra = None
            bad.append((inp, res, m, extra))
    if tc:
        ctx.sample(dict(mode='toy', **tc[0]))
    # ---- oracle: real numerics
    gr = grid(ctx)
    for inp, (fails, disc, info, brk) in zip(gr, pmap(_real_worker, [(inp, tdir) for inp in gr])):
        if disc:
            ctx.discarded += 1
            ctx.hist['real-discard-' + str(disc)] += 1
            continue
        key = ('real',) + tuple(sorted(inp.items()))
        nontriv = inp['level'] != 0 and inp['nensembles'] >= 2 and info['pids'] >= 2
        ctx.count(key, nontriv, 'real-%s-%s-%s' % (inp['variant'][:8], inp['noise_mode'], ['zero', 'small', 'large'][inp['level']]))
        ctx.tol_cmp += 1
        rep = dict(mode='real', **inp)
        for site, msg, obs, want in fails[:1]:
            ctx.problem('impl-violation', site, msg, input=rep, observed=obs, expected=want, tags=dict(mode='real', variant=inp['variant']))
        if brk and not fails:
            ctx.problem('correspondence-break', 'ceemd-noise-update', brk, input=rep, theorem='Ensemble.ce_upd vs emd.sift.complete_ensemble_sift')
        ctx.sample(rep)
    if bad and not any(p['kind'] == 'impl-violation' for p in ctx.problems):
        inp, res, m, extra = bad[0]
        what = 'model and implementation differ in toy mode (%d disagreeing cases)' % len(bad)
        if res.get('brk'):
            what += '; ' + res['brk']
        if extra:
            what += '; the implementation matches Ensemble.run_toy_ens_v0 (noise drawn inside the workers) for the observed schedule'
        ctx.problem('correspondence-break', inp['variant'], what, input=dict(mode='toy', **inp), observed=res['got'], expected=m,
                    theorem='Ensemble.run_toy_ens / run_toy_ceemd_noise vs emd.sift.%s' % inp['variant'])
    TRACE['dir'] = None


def replay(rec):
    i = dict(rec['input'])
    mode = i.pop('mode')
    tdir = os.path.join(common.VERIF, '.work', 'replay-C08-%d' % os.getpid())
    try:
        if mode == 'real':
            fails, disc, info, brk = real_case(i, tdir)
            for f in fails:
                print(f[1])
                if f[2]:
                    print('  observed:', f[2])
            if rec.get('kind') == 'correspondence-break':
                print(brk)
                return bool(brk)
            return bool(fails)
        res = toy_case(i, tdir)
        for f in res['fails']:
            print(f[1])
        if res['discard']:
            print('case is discarded now (%s)' % res['discard'])
            return False
        if rec.get('kind') == 'correspondence-break':
            print('implementation:', str(res['got'])[:400])
            return rec.get('expected') is not None and res['got'] != rec['expected']
        return bool(res['fails'])
    finally:
        import shutil
        shutil.rmtree(tdir, ignore_errors=True)
