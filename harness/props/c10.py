"""C10 - the Hilbert-Huang spectrum bins every sample's energy exactly once.

PROOF          coq/props/Prop_C10.v  (model: coq/model/Spectra.v)
CORRESPONDENCE run_hht: dense energy/amplitude spectra and the 1-D marginal, model vs emd.spectra, on integer data
               (every frequency from {below, negative, each edge, each mid-bin, last edge, above})
ORACLE         per-sample brute-force histogram; dense == sparse == brute force; 2-D and 1-D marginals agree
"""
import itertools

import numpy as np

import common
from common import zlist, zlistlist

IMPORTS = 'From EmdV Require Import lib.NpLite model.Spectra.'


def edge_sets():
    out = []
    for nb in range(1, 5):
        out.append(('linear', [4 + 4 * k for k in range(nb + 1)]))
        out.append(('log', [2 * 2 ** k for k in range(nb + 1)]))
    return out


def freq_values(edges):
    vals = [edges[0] - 1, -3, edges[-1] + 1, edges[-1] + 50]
    vals += edges
    vals += [(edges[i] + edges[i + 1]) // 2 for i in range(len(edges) - 1)]
    return sorted(set(vals))


def gen_cases(ctx):
    cases = []
    # exhaustive: every assignment of edge-hitting values to <= 2 (time, imf) cells
    for kind, edges in edge_sets():
        fv = freq_values(edges)
        for T, M in ((1, 1), (1, 2), (2, 1)):
            for combo in itertools.product(fv, repeat=T * M):
                fr = [list(combo[t * M:(t + 1) * M]) for t in range(T)]
                am = [[1 + ((3 * t + 5 * j + combo[t * M + j]) % 4) for j in range(M)] for t in range(T)]
                cases.append((kind, edges, fr, am))
    nrand = 300 if ctx.quick() else 20000
    es = edge_sets()
    for _ in range(nrand):
        kind, edges = ctx.rng.choice(es)
        fv = freq_values(edges)
        T, M = ctx.rng.randint(1, 6), ctx.rng.randint(1, 3)
        if ctx.rng.random() < 0.3:
            fr = [[ctx.rng.randint(-5, edges[-1] + 5) for _ in range(M)] for _ in range(T)]
        else:
            fr = [[ctx.rng.choice(fv) for _ in range(M)] for _ in range(T)]
        am = [[ctx.rng.randint(-2, 6) for _ in range(M)] for _ in range(T)]
        cases.append((kind, edges, fr, am))
    return cases


def render2(m):
    out = []
    for r in m:
        out += [int(x) for x in r] + [-99999]
    return out


def impl_run_hht(edges, fr, am):
    from emd import spectra
    e = np.array(edges, dtype=float)
    f = np.array(fr, dtype=float)
    a = np.array(am, dtype=float)
    out = []
    try:
        out += render2(spectra.hilberthuang(f, a, e, mode='energy')) + [-99997]
        out += render2(spectra.hilberthuang(f, a, e, mode='amplitude')) + [-99997]
        out += render2(spectra.hilberthuang_1d(f, a, e, mode='energy')) + [-99997]
        out += render2(spectra.hilberthuang_1d(f, a, e, mode='amplitude'))
    except Exception as ex:
        return [-2, common.exc_code(ex)]
    return out


def brute(edges, fr, am, energy):
    nb, T, M = len(edges) - 1, len(fr), len(fr[0])
    H = np.zeros((nb, T))
    H1 = np.zeros((nb, M))
    for t in range(T):
        for j in range(M):
            for b in range(nb):
                if edges[b] <= fr[t][j] < edges[b + 1]:
                    w = am[t][j] ** 2 if energy else am[t][j]
                    H[b, t] += w
                    H1[b, j] += w
    return H, H1


def oracle(edges, fr, am, layout='C', fdtype=None, ascale=1.0):
    """fdtype: the frequency array is handed over in that dtype (float32 / int64); `fr` then holds the float64 values its
    elements denote, so the per-sample histogram is the same question"""
    from emd import spectra
    fails = []
    e = np.array(edges, dtype=float)
    f = np.array(fr, dtype=float)
    a = np.array(am, dtype=float) * ascale      # a power of two: the histogram scales exactly (by its square in energy mode)
    if fdtype:
        f = f.astype(fdtype)
        assert np.array_equal(f.astype(float), np.array(fr, dtype=float))
    if layout == 'F':          # the same values, Fortran-ordered in memory (what a transposed [M x T] stack looks like)
        f, a = np.asfortranarray(f), np.asfortranarray(a)
    f0, a0 = f.copy(), a.copy()
    for mode in ('energy', 'amplitude'):
        H, H1 = brute(edges, fr, am, mode == 'energy')
        H, H1 = H * (ascale ** 2 if mode == 'energy' else ascale), H1 * (ascale ** 2 if mode == 'energy' else ascale)
        try:
            d = spectra.hilberthuang(f, a, e, mode=mode)
            s = spectra.hilberthuang(f, a, e, mode=mode, return_sparse=True)
            o = spectra.hilberthuang_1d(f, a, e, mode=mode)
        except Exception as ex:
            return [('hilberthuang', 'raised %s: %s' % (type(ex).__name__, ex))]
        if d.shape != H.shape or not np.array_equal(d, H):
            fails.append(('hilberthuang', '%s spectrum %s differs from the per-sample histogram %s'
                          % (mode, d.tolist(), H.tolist())))
        if not np.array_equal(np.asarray(s.toarray()), d):
            fails.append(('hilberthuang(return_sparse)', 'sparse and dense forms differ'))
        if o.shape != H1.shape or not np.array_equal(o, H1):
            fails.append(('hilberthuang_1d', '%s marginal %s differs from the per-sample histogram %s'
                          % (mode, o.tolist(), H1.tolist())))
        if d.shape == H.shape and o.shape == H1.shape and not np.array_equal(d.sum(axis=1), o.sum(axis=1)):
            fails.append(('hilberthuang/hilberthuang_1d', '2-D and 1-D marginals disagree: %s vs %s'
                          % (d.sum(axis=1).tolist(), o.sum(axis=1).tolist())))
    if not (np.array_equal(f, f0) and np.array_equal(a, a0)):
        fails.append(('hilberthuang', 'input arrays were modified'))
    return fails


def real_cases(ctx, n):
    """fractional bin edges with frequency arrays of dtype float64 / float32 / int64 whose values sit on, one unit in the last
    place (of their own dtype) beside, and between the edges; amplitudes small integers (sums exact)"""
    rs = np.random.RandomState(ctx.seed * 19 + 6)
    out = []
    for i in range(n):
        nb = int(rs.choice([1, 3, 7, 10]))
        dt = ['float64', 'float32', 'int64'][i % 3]
        if dt == 'int64':
            lo = int(rs.randint(0, 3))
            e = np.cumsum(np.r_[lo + 0.5, rs.randint(1, 4, nb)]).astype(float)
            cand = np.arange(lo - 1, int(e[-1]) + 3).astype(float)
        else:
            e = np.linspace(0, 1, nb + 1) if i % 2 else np.logspace(-2, 0, nb + 1)
            ft = np.float32 if dt == 'float32' else np.float64
            c = []
            for v in e:
                v0 = ft(v)
                c += [v0, np.nextafter(v0, ft(2)), np.nextafter(v0, ft(-2))]
            c += [ft(x) for x in (e[:-1] + e[1:]) / 2] + [ft(-0.25), ft(1.5)]
            cand = np.array(c).astype(float)
        T, M = int(rs.randint(1, 7)), int(rs.randint(1, 4))
        fr = rs.choice(cand, size=(T, M))
        am = rs.randint(-2, 6, size=(T, M)).astype(float)
        out.append((e.tolist(), fr.tolist(), am.tolist(), dt))
    return out


def lit(c):
    _, edges, fr, am = c
    return '(%s, %s, %s)' % (zlist(edges), zlistlist(fr), zlistlist(am))


EXPR = "fun c => let '(e, fr, am) := c in run_hht e fr am"


def nontrivial(edges, fr):
    flat = [x for r in fr for x in r]
    return any(x < edges[0] or x >= edges[-1] for x in flat) or any(x in edges for x in flat)


def run(ctx):
    ctx.rule = ('integer frequency/amplitude arrays [time x IMFs]; frequencies drawn from {below first edge, negative, each '
                'edge, each mid-bin, last edge, above} for linear and log bin sets with 1..4 bins: every assignment for '
                '<= 2 cells, random larger arrays (C- and Fortran-ordered); fractional linear / log / half-integer edges with float64 / float32 / int64 frequency arrays whose values sit on, one ulp beside and between the edges (oracle only); energy+amplitude, dense+sparse+1-D; non-trivial = has an out-of-range '
                'or an on-edge frequency')
    ctx.proof(extra=['props/Prop_Tie_Spectra.v', 'props/Prop_Tie_Misc.v'])  # translation tie: program regenerated from the source + refinement theorems
    cases = gen_cases(ctx)
    ctx.exhaustive = True
    mh = ctx.model_hashes(IMPORTS, [lit(c) for c in cases], EXPR, shard=300)
    bad = None
    for idx, c in enumerate(cases):
        kind, edges, fr, am = c
        out = impl_run_hht(edges, fr, am)
        ctx.count((edges, fr, am), nontrivial(edges, fr), '%s-%dbins' % (kind, len(edges) - 1))
        ctx.exact_cmp += 1
        if idx % 997 == 0:
            ctx.sample(dict(freq_edges=edges, infr=fr, inam=am))
        layout = 'CF'[idx % 2]
        ctx.hist['layout-' + layout] += 1
        ascale = [1.0, 1.0, 2.0 ** -30, 1.0, 2.0 ** -60, 2.0 ** 20, 1.0][idx % 7]
        if ascale != 1.0:
            ctx.hist['amplitude-x%g' % ascale] += 1
        fails = oracle(edges, fr, am, layout, ascale=ascale)
        for site, detail in fails[:1]:
            flat = [x for r in fr for x in r]
            ctx.problem('impl-violation', site, ('' if layout == 'C' else '(Fortran-ordered arrays) ') + detail,
                        input=dict(freq_edges=edges, infr=fr, inam=am, layout=layout, ascale=ascale),
                        tags=dict(below_range=any(x < edges[0] for x in flat)))
        if common.hashL(out) != mh[idx] and bad is None and not fails:
            bad = idx
    # real-valued edges x frequency dtypes (oracle only: the model is over integers)
    for i, (e, fr, am, dt) in enumerate(real_cases(ctx, 150 if ctx.quick() else 6000)):
        ctx.count(('real', tuple(e), repr(fr), dt), True, 'real-edges-%s' % dt)
        ctx.exact_cmp += 1
        for site, detail in oracle(e, fr, am, 'CF'[i % 2], None if dt == 'float64' else dt)[:1]:
            ctx.problem('impl-violation', site, '(frequencies of dtype %s) %s' % (dt, detail[:500]),
                        input=dict(freq_edges=e, infr=fr, inam=am, layout='CF'[i % 2], fdtype=dt), tags=dict(below_range=False))
    if bad is not None:
        kind, edges, fr, am = cases[bad]
        mo = ctx.model_outputs(IMPORTS, [lit(cases[bad])], EXPR)[0]
        ctx.problem('correspondence-break', 'run_hht', 'model and implementation differ',
                    input=dict(freq_edges=edges, infr=fr, inam=am), observed=impl_run_hht(edges, fr, am), expected=mo,
                    theorem='Spectra.run_hht vs emd.spectra.hilberthuang/hilberthuang_1d')


def replay(rec):
    i = rec['input']
    fails = oracle(i['freq_edges'], i['infr'], i['inam'], i.get('layout', 'C'), None if i.get('fdtype') in (None, 'float64') else i['fdtype'], i.get('ascale', 1.0))
    for f in fails:
        print(f)
    return bool(fails)
