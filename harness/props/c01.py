"""C01 - the classic sift is a complete additive decomposition of its input.

PROOF          coq/props/Prop_C01.v  (model: coq/model/SiftCore.v peel_loop + gni_loop, instance coq/model/Toys.v)
CORRESPONDENCE toy mode: the real emd.sift.sift run on integer signals with the integer toy envelopes patched in vs
               Toys.run_toy_sift - number of components and every component bit for bit, raise/no raise
ORACLE         the property itself: (a) in toy mode, exactly: unless cut short (cap / threshold / energy) the columns sum to the
               input and the last column has < 2 strict interior maxima or < 2 minima; (b) on real signals (8 families) x
               {sd, rilling, fixed} x step {1, 1/2, 1/4} x {splrep, pchip, mono_pchip} x pad 1..4 with no cap and no energy
               threshold: allclose(x, imf.sum(1)) (1e-9 * max|x|) and a non-oscillatory last column unless the last column's
               absolute sum is below sift_thresh.
"""
import warnings

import numpy as np

import common
import toys
from common import zlist
from props import siftcore
from props.siftcore import IMPORTS


def n_strict_max(v):
    return int(np.sum((v[1:-1] > v[:-2]) & (v[1:-1] > v[2:]))) if len(v) >= 3 else 0


def check_complete(x, imf, sift_thresh, capped, energy):
    """the property on one decomposition; returns list of failure strings"""
    x = np.asarray(x, dtype=float)
    last = imf[:, -1]
    if capped or energy or np.abs(last).sum() < sift_thresh:
        return [], 'cut-short'
    fails = []
    scale = max(1.0, float(np.abs(x).max()))
    err = float(np.abs(imf.sum(axis=1) - x).max())
    if err > 1e-9 * scale:
        fails.append('the sift ended of its own accord with %d components but they do not sum to the input: max |x - sum| = %.6g '
                     '(signal scale %.3g)' % (imf.shape[1], err, scale))
    if n_strict_max(last) >= 2 and n_strict_max(-last) >= 2:
        fails.append('the sift ended of its own accord but its final component still oscillates (%d maxima, %d minima)'
                     % (n_strict_max(last), n_strict_max(-last)))
    return fails, 'own-accord'


def oracle_toy(cfg, x):
    from emd import sift
    X = np.array(x, dtype=float)
    with toys.patched(cfg[0]), warnings.catch_warnings():
        warnings.simplefilter('ignore')
        try:
            with common.time_limit(30):
                imf = sift.sift(X, sift_thresh=cfg[14] / 2, max_imfs=(cfg[15] or None), imf_opts=toys.imf_opts(cfg))
        except Exception:
            return [], 'raised'
    capped = bool(cfg[15]) and imf.shape[1] >= cfg[15]
    return check_complete(x, imf, cfg[14] / 2, capped, bool(cfg[5]))


def oracle_real(x, sift_thresh, imf_opts, envelope_opts, extrema_opts, dtype=None):
    from emd import sift
    x_impl, x = siftcore.as_dtype(x, dtype)
    with warnings.catch_warnings():
        warnings.simplefilter('ignore')
        try:
            with common.time_limit(15):
                imf = sift.sift(x_impl, sift_thresh=sift_thresh, imf_opts=imf_opts, envelope_opts=envelope_opts, extrema_opts=extrema_opts)
        except common.Timeout:
            return [], 'timeout'
        except Exception as e:
            if type(e).__name__ == 'EMDSiftCovergeError':
                return [], 'converge-error'
            return ['sift raised %s: %s' % (type(e).__name__, e)], 'raised'
    if imf.shape[0] != len(x) or not np.all(np.isfinite(imf)):
        return ['result has shape %s / non-finite values for a finite input of %d samples' % (imf.shape, len(x))], 'shape'
    return check_complete(x, imf, sift_thresh, False, False)


def run(ctx):
    ctx.rule = ('toy mode: random integer signals (6 families, length 3..40) x 6 integer toy envelope rules x random thresholds / steps / '
                'iteration limits / caps through the real emd.sift.sift vs Toys.run_toy_sift (bit exact) + the completeness oracle on the '
                'same runs; real numerics: 8 signal families x {sd,rilling,fixed} x step x {splrep,pchip,mono_pchip} x pad 1..4, no cap, no '
                'energy threshold: completeness / non-oscillatory residual oracle; the same oracle on zigzags of 5..14 samples (extrema on samples 1 and N-2) and on two- to three-cycle tones of 16..80 samples x pad width 1..3 x interpolation method.  non-trivial = at least two components and the sift ended '
                'of its own accord')
    # the translation tie: the control skeletons of get_next_imf / sift / mask_sift are regenerated from the source and the
    # refinement theorems to the models used by this property's theorems are re-checked
    ctx.proof(extra=['props/Prop_Tie_Sift.v'])
    n = 300 if ctx.quick() else 4000
    cases = []
    for i in range(n):
        cfg = toys.gen_cfg(ctx.rng)
        cfg[5] = 0                      # no energy threshold (the property's quantifier)
        if i % 3:
            cfg[15] = 0                 # two thirds without a cap
        cases.append((cfg, toys.gen_signal(ctx.rng)))
    mo = ctx.model_outputs(IMPORTS, ['(%s, %s)' % (zlist(c), zlist(x)) for c, x in cases], 'fun c => run_toy_sift (fst c) (snd c)', shard=25)
    bad = []
    for (cfg, x), exp in zip(cases, mo):
        got, discard = siftcore.impl_toy_sift(cfg, x)
        if discard or exp[1] == 1:
            # fuel exhausted in the model / timeout in the implementation: the outer loop has no termination guarantee
            ctx.discarded += 1
            continue
        ncols = exp.count(-99999)
        ok = (got[:2] == [1, 0]) if exp[0] == 1 else (got == exp)
        fails, path = oracle_toy(cfg, x)
        ctx.count(('toy', tuple(cfg), tuple(x)), ncols >= 2 and path == 'own-accord', 'toy-%s-%s' % (path, 'raised' if exp[0] else 'cols%d' % min(ncols, 6)))
        ctx.exact_cmp += 1
        inp = dict(kind='toy', cfg=cfg, signal=x)
        for f in fails[:1]:
            ctx.problem('impl-violation', 'sift', f, input=inp, observed=got, tags=dict(mode='toy'))
        if not ok and len(bad) < 5:
            bad.append((inp, got, exp))
    ctx.sample(dict(cfg=cases[0][0], signal=cases[0][1]))
    # ---- real numerics
    nsig = 48 if ctx.quick() else 800
    for fam, x in siftcore.real_signals(ctx.seed + 1, nsig, 16, 220):
        imf_opts, envelope_opts, extrema_opts = siftcore.real_opts(ctx.rng)
        thr = ctx.rng.choice([1e-8, 1e-8, 1e-3, 0.5])
        dt = ctx.rng.choice(siftcore.DTYPES)
        fails, path = oracle_real(x, thr, imf_opts, envelope_opts, extrema_opts, dtype=dt)
        if dt:
            ctx.hist['dtype-' + dt] += 1
        if path == 'timeout':
            ctx.discarded += 1
            continue
        ctx.count(('real', fam, len(x), repr(imf_opts)), path == 'own-accord', 'real-%s-%s' % (fam, path))
        ctx.tol_cmp += 1
        for f in fails[:1]:
            ctx.problem('impl-violation', 'sift', f,
                        input=dict(kind='real', signal=[float(v) for v in x], sift_thresh=thr, imf_opts=imf_opts,
                                   envelope_opts=envelope_opts, extrema_opts=extrema_opts, dtype=dt), tags=dict(mode='real', family=fam))
    # ---- boundary extrema: zigzags (every interior sample an extremum, including samples 1 and N-2) on a trend, 5..14 samples.
    # an extremum detector that misses the first or last interior sample leaves such a signal undecomposed
    zrs = np.random.RandomState(ctx.seed * 17 + 4)
    for i in range(60 if ctx.quick() else 1500):
        N = int(zrs.randint(5, 15))
        t = np.arange(N)
        x = (-1.0) ** (t + i) * zrs.uniform(0.5, 2.0, N) + zrs.uniform(-0.3, 0.3) * t
        if i % 3 == 0:
            imf_opts, envelope_opts, extrema_opts = {}, {}, {}
        else:
            imf_opts, envelope_opts, extrema_opts = siftcore.real_opts(ctx.rng)
        fails, path = oracle_real(x, 1e-8, imf_opts, envelope_opts, extrema_opts)
        if path == 'timeout':
            ctx.discarded += 1
            continue
        ctx.count(('zigzag', tuple(x), repr(imf_opts)), path == 'own-accord', 'real-zigzag-%s' % path)
        ctx.tol_cmp += 1
        for f in fails[:1]:
            ctx.problem('impl-violation', 'sift', f,
                        input=dict(kind='real', signal=[float(v) for v in x], sift_thresh=1e-8, imf_opts=imf_opts,
                                   envelope_opts=envelope_opts, extrema_opts=extrema_opts, dtype=None), tags=dict(mode='real', family='zigzag'))
    # ---- few extrema: two- to three-cycle tones (+ ramp / slow wave) of 16..80 samples with every pad width, so that the padded
    # extrema are as few as the interpolants allow (pad_width 1 on two maxima = four knots)
    for i in range(45 if ctx.quick() else 1200):
        N = int(zrs.randint(16, 81))
        t = np.arange(N)
        x = np.sin(2 * np.pi * zrs.choice([2, 2, 2.5, 3]) * t / N + zrs.uniform(0, 2 * np.pi)) + zrs.choice([0, 0.01, -0.02]) * t
        if i % 4 == 3:
            x = x + 0.5 * np.sin(2 * np.pi * t / (3 * N))
        imf_opts = {} if i % 2 else siftcore.real_opts(ctx.rng)[0]
        envelope_opts = {'interp_method': ('splrep', 'splrep', 'pchip', 'mono_pchip')[i % 4]}
        extrema_opts = {'pad_width': (1, 1, 2, 3)[(i // 2) % 4]}
        fails, path = oracle_real(x, 1e-8, imf_opts, envelope_opts, extrema_opts)
        if path == 'timeout':
            ctx.discarded += 1
            continue
        ctx.count(('few-cycles', tuple(x), repr(imf_opts), repr(extrema_opts)), path == 'own-accord', 'real-few-cycles-%s' % path)
        ctx.tol_cmp += 1
        for f in fails[:1]:
            ctx.problem('impl-violation', 'sift', f,
                        input=dict(kind='real', signal=[float(v) for v in x], sift_thresh=1e-8, imf_opts=imf_opts,
                                   envelope_opts=envelope_opts, extrema_opts=extrema_opts, dtype=None), tags=dict(mode='real', family='few-cycles'))
    if bad and not any(p['kind'] == 'impl-violation' for p in ctx.problems):
        inp, got, exp = bad[0]
        ctx.problem('correspondence-break', 'sift(toy)', 'model and implementation differ (%d disagreeing cases)' % len(bad), input=inp,
                    observed=got, expected=exp, theorem='Toys.run_toy_sift (SiftCore.peel_loop) vs emd.sift.sift')


def replay(rec):
    i = rec['input']
    if i.get('kind') == 'real':
        f, _ = oracle_real(np.array(i['signal']), i['sift_thresh'], i['imf_opts'], i['envelope_opts'], i['extrema_opts'], dtype=i.get('dtype'))
    else:
        f, _ = oracle_toy(i['cfg'], i['signal'])
        if not f and rec.get('expected') is not None:
            got, _ = siftcore.impl_toy_sift(i['cfg'], i['signal'])
            print('observed', got[:12], 'expected', rec['expected'][:12])
            return got != rec['expected']
    for x in f:
        print(x)
    return bool(f)
