"""C03 - IMFs are peeled one at a time from the running residual; caps are respected (all five variants).

PROOF          coq/props/Prop_C03.v  (models: coq/model/SiftCore.v peel_loop, coq/model/Variants.v)
CORRESPONDENCE toy mode (integer signals, integer toy envelopes patched into the real code, bit exact):
               classic sift x caps; mask_sift's outer loop (get_next_imf_mask replaced by plain extraction) x caps x explicit
               frequency lists; ensemble_sift and complete_ensemble_sift with zero noise amplitude x caps x ensemble sizes;
               sift_second_layer over integer first-level components x cap argument present/absent
ORACLE         on real numerics: capped == prefix of uncapped (array_equal) for sift and mask_sift, manual peeling with
               get_next_imf / get_next_imf_mask on externally computed residuals reproduces every column, ncols <= cap and
               [samples x components] finite arrays for all five variants (ensembles with real noise)
"""
import warnings

import numpy as np

import common
import toys
from common import zlist, zlistlist
from props import siftcore

IMPORTS = 'From EmdV Require Import lib.NpLite model.Extrema model.SiftCore model.Toys model.Variants.'
DEFAULT_TAIL = [0, 1000, 1, 1, 0, 1, 10, 1, 20, 1, 2, 1, 20]      # method sd, max_iters 1000, step 1, no energy, sd 1/10, rilling defaults


def render_cols(a):
    out = [0]
    for k in range(a.shape[1]):
        out += [int(v) for v in a[:, k]] + [-99999]
    return out


def _run(fn, timeout=8):
    """returns ('ok', value) | ('converge', None) | ('timeout', None) | ('raised', exc)"""
    with warnings.catch_warnings():
        warnings.simplefilter('ignore')
        try:
            with common.time_limit(timeout):
                return 'ok', fn()
        except common.Timeout:
            return 'timeout', None
        except Exception as e:
            if type(e).__name__ == 'EMDSiftCovergeError':
                return 'converge', None
            if isinstance(e, toys.ToyDomainError):
                return 'nonint', None
            return 'raised', e


def toy_mask_patch():
    """get_next_imf_mask -> plain extraction (the masks are C07's business; here only the outer loop is compared)"""
    from emd import sift
    real = sift.get_next_imf_mask

    def plain(X, z, amp, nphases=4, nprocesses=1, imf_opts=None, envelope_opts=None, extrema_opts=None):
        return sift.get_next_imf(X, **(imf_opts or {}))
    sift.get_next_imf_mask = plain
    return real


def impl_variant(kind, cfg, x, extra):
    """real code under the toy envelope; rendered like the model"""
    from emd import sift
    X = np.array(x, dtype=float)
    thr = cfg[14] / 2
    cap = cfg[15] or None
    with toys.patched(cfg[0]):
        if kind == 'sift':
            st, r = _run(lambda: sift.sift(X, sift_thresh=thr, max_imfs=cap, imf_opts=toys.imf_opts(cfg)))
        elif kind == 'mask':
            real = toy_mask_patch()
            try:
                st, r = _run(lambda: sift.mask_sift(X, mask_amp=1, mask_amp_mode='abs', mask_freqs=extra['freqs'], max_imfs=extra['max_imfs'],
                                                    sift_thresh=thr, nphases=1, imf_opts=toys.imf_opts(cfg)))
            finally:
                sift.get_next_imf_mask = real
        elif kind == 'ensemble':
            st, r = _run(lambda: sift.ensemble_sift(X, nensembles=extra['nens'], ensemble_noise=0, nprocesses=1, sift_thresh=thr,
                                                    max_imfs=cap, imf_opts=toys.imf_opts(cfg)) * extra['nens'])
        elif kind == 'ceemd':
            io = None if cfg[1:14] == DEFAULT_TAIL else toys.imf_opts(cfg)
            st, r = _run(lambda: sift.complete_ensemble_sift(X, nensembles=extra['nens'], ensemble_noise=0, nprocesses=1, sift_thresh=thr,
                                                             max_imfs=cap, imf_opts=io)[0])
        elif kind == 'second':
            IA = np.array(extra['IA'], dtype=float).T
            args = dict(sift_thresh=thr, imf_opts=toys.imf_opts(cfg))
            if extra['cap_arg']:
                args['max_imfs'] = extra['cap_arg']
            st, r = _run(lambda: sift.sift_second_layer(IA, sift_func=sift.sift, sift_args=args))
    if st != 'ok':
        return st, (repr(r) if st == 'raised' else None)
    if not np.all(np.isfinite(r)) or not np.all(r == np.round(r)):
        return 'nonint', None
    if kind == 'second':
        out = [0]
        for ii in range(r.shape[1]):
            out += render_cols(r[:, ii, :])[1:] + [-99998]
        return 'ok', out
    return 'ok', render_cols(r)


# ----------------------------------------------------------------------------- oracle on real numerics
def oracle_real(kind, x, opts, rng_seed, dtype=None):
    """the property on real numerics; returns (fails, path).  dtype (classic and masked sift only): the signal is handed over as
    integer counts / single precision; the peeling identity is the same statement about that array"""
    from emd import sift
    x = np.asarray(x, dtype=float)
    if dtype and kind in ('sift', 'mask'):
        x, _ = siftcore.as_dtype(x, dtype)
    N = len(x)
    imf_opts, envelope_opts, extrema_opts = opts
    kw = dict(imf_opts=imf_opts, envelope_opts=envelope_opts, extrema_opts=extrema_opts)
    fails = []

    def shape_ok(a, cap, what):
        if a.ndim != 2 or a.shape[0] != N:
            fails.append('%s: result shape %s is not [samples x components] for %d samples' % (what, a.shape, N))
        elif not np.all(np.isfinite(a)):
            fails.append('%s: non-finite values for a finite input' % what)
        elif cap is not None and a.shape[1] > cap:
            fails.append('%s: %d components returned for max_imfs=%d' % (what, a.shape[1], cap))

    if kind in ('sift', 'mask'):
        if kind == 'sift':
            def call(cap):
                return sift.sift(x, max_imfs=cap, **kw)

            def extract(res, layer, prev):
                return sift.get_next_imf(res, envelope_opts=envelope_opts, extrema_opts=extrema_opts, **imf_opts)[0]
        else:
            freqs = [0.3, 0.12, 0.05, 0.02, 0.008, 0.003]

            def call(cap):
                return sift.mask_sift(x, mask_freqs=freqs, mask_amp=1.5, mask_amp_mode='ratio_sig', max_imfs=(cap or 9), nphases=3, **kw)

            def extract(res, layer, prev):
                return sift.get_next_imf_mask(res, freqs[layer], 1.5 * x.std(), nphases=3, **kw)[0]
        st, full = _run(lambda: call(None))
        if st != 'ok':
            return ([] if st in ('converge', 'timeout') else ['%s raised %s' % (kind, full)]), st
        shape_ok(full, None if kind == 'sift' else 6, kind)
        n = full.shape[1]
        for cap in (range(1, n + 3) if n <= 6 else [1, 2, 3, n - 1, n, n + 1, n + 2]):
            st, c = _run(lambda: call(cap))
            if st == 'timeout':
                continue            # slow run near the time limit: not compared (the uncapped run took about as long)
            if st != 'ok':
                fails.append('%s(max_imfs=%d) %s although the uncapped run returned %d components' % (kind, cap, st, n))
                continue
            shape_ok(c, cap, '%s(max_imfs=%d)' % (kind, cap))
            want = full[:, :min(cap, n)]
            if c.shape != want.shape or not np.array_equal(c, want):
                fails.append('%s(max_imfs=%d) is not the first %d components of the uncapped run (%d components): shapes %s vs %s'
                             % (kind, cap, min(cap, n), n, c.shape, want.shape))
        # manual peeling
        for k in range(n):
            res = x[:, None] if k == 0 else (x - full[:, :k].sum(axis=1))[:, None]
            st, col = _run(lambda: extract(res, k, full[:, :k]))
            if st != 'ok':
                continue
            if not np.array_equal(col[:, 0], full[:, k]):
                fails.append('%s: component %d is not the single-IMF extraction applied to the input minus the first %d components '
                             '(max deviation %.3g)' % (kind, k, k, float(np.abs(col[:, 0] - full[:, k]).max())))
                break
        return fails, 'cols%d' % min(n, 8)
    if kind in ('ensemble', 'ceemd'):
        np.random.seed(rng_seed)
        cap = 1 + rng_seed % 4
        f = sift.ensemble_sift if kind == 'ensemble' else sift.complete_ensemble_sift
        st, r = _run(lambda: f(x, nensembles=3, ensemble_noise=0.2, nprocesses=1, max_imfs=cap, noise_mode=('flip' if rng_seed % 2 else 'single'), **kw))
        if st == 'raised' and isinstance(r, (IndexError, ValueError)) and kind == 'ensemble':
            return [], 'members-differ'          # members with different column counts: outside this property (no result, no excess)
        if st != 'ok':
            return ([] if st in ('converge', 'timeout') else ['%s raised %r' % (kind, r)]), st
        a = r if kind == 'ensemble' else r[0]
        shape_ok(a, cap, '%s(max_imfs=%d)' % (kind, cap))
        # a cap beyond what any member can produce (the k = n+1, n+2 end of the property's cap range): either no result
        # (members with different / too few columns raise) or a finite [samples x <= cap] array - never padded with non-finite values
        st0, full = _run(lambda: sift.sift(x, **kw))
        if st0 == 'ok':
            big = full.shape[1] + 2
            np.random.seed(rng_seed + 1)
            st2, r2 = _run(lambda: f(x, nensembles=3, ensemble_noise=0.2, nprocesses=1, max_imfs=big, **kw))
            if st2 == 'ok':
                a2 = r2 if kind == 'ensemble' else r2[0]
                shape_ok(a2, big, '%s(max_imfs=%d)' % (kind, big))
        return fails, 'cap%d-cols%d' % (cap, a.shape[1])
    if kind == 'second':
        st, imf = _run(lambda: sift.sift(x, max_imfs=3, **kw))
        if st != 'ok' or imf.shape[1] < 2:
            return [], 'skip'
        IA = np.abs(imf) + 0.1
        cap_arg = [None, 2, 4][rng_seed % 3]
        args = dict(kw)
        if cap_arg:
            args['max_imfs'] = cap_arg
        st, r = _run(lambda: sift.sift_second_layer(IA, sift_func=sift.sift, sift_args=args))
        if st in ('converge', 'timeout'):
            return [], st
        k = cap_arg or IA.shape[1]
        if st != 'ok':
            return ['sift_second_layer(max_imfs=%s) over %d first-level components raised %r instead of returning the '
                    '[samples x %d x %d] array' % (cap_arg, IA.shape[1], r, IA.shape[1], k)], 'raised'
        if r.shape != (N, IA.shape[1], k) or not np.all(np.isfinite(r)):
            fails.append('sift_second_layer: shape %s, expected (%d, %d, %d)' % (r.shape, N, IA.shape[1], k))
        else:
            for ii in range(IA.shape[1]):
                st, c = _run(lambda: sift.sift(IA[:, ii], **dict(args, max_imfs=k)))
                if st == 'ok' and not (np.array_equal(r[:, ii, :c.shape[1]], c) and not np.any(r[:, ii, c.shape[1]:])):
                    fails.append('sift_second_layer: block %d is not the (capped) sift of first-level component %d' % (ii, ii))
                    break
        return fails, 'cap%s' % cap_arg
    return [], '?'


def run(ctx):
    ctx.rule = ('toy mode (bit exact, real code under integer toy envelopes): classic sift x caps 0..6; mask_sift outer loop x explicit '
                'frequency lists of 1..6 entries x max_imfs 1..8; ensemble_sift / complete_ensemble_sift with zero noise x caps x 1..4 members; '
                'sift_second_layer over 1..4 integer first-level components with and without a cap argument.  real numerics: capped vs '
                'uncapped prefix for caps 1..n+2, manual peeling, ncols <= cap, shape, finiteness for all five variants.  non-trivial = a '
                'cap strictly below the uncapped component count, or >= 2 components')
    # the translation tie: the control skeletons of get_next_imf / sift / mask_sift are regenerated from the source and the
    # refinement theorems to the models used by this property's theorems are re-checked
    ctx.proof(extra=['props/Prop_Tie_Sift.v', 'props/Prop_Tie_Ensemble.v'])
    n = 60 if ctx.quick() else 1000
    cases = []
    for i in range(n):
        for kind in ('sift', 'mask', 'ensemble', 'ceemd', 'second'):
            cfg = toys.gen_cfg(ctx.rng)
            cfg[5] = 0
            x = toys.gen_signal(ctx.rng)
            extra = {}
            if kind == 'ceemd':
                # every third case with the default extraction options (limit 1000: toy rule 1 diverges there - bignums in the
                # model, inf in floats - and is replaced), the others with random ones
                if i % 3 == 0:
                    cfg = [cfg[0] if cfg[0] != 1 else 4] + DEFAULT_TAIL + [cfg[14], ctx.rng.choice([0, 1, 2, 3, 4]), 0]
                else:
                    cfg[15] = ctx.rng.choice([0, 1, 2, 3, 4])
                extra = dict(nens=ctx.rng.choice([1, 2, 4]))
                lit = '(%s, %s)' % (zlist(cfg), zlist(x))
                expr = 'run_toy_ceemd (fst c) (snd c)'
            elif kind == 'sift':
                cfg[15] = ctx.rng.choice([0, 1, 2, 3, 4, 6])
                lit = '(%s, %s)' % (zlist(cfg), zlist(x))
                expr = 'run_toy_cols (fst c) (snd c)'
            elif kind == 'mask':
                nf = ctx.rng.randint(1, 6)
                mi = ctx.rng.randint(1, 8)
                extra = dict(freqs=[0.4 / 2 ** j for j in range(nf)], max_imfs=mi)
                cfg[15] = min(nf, mi)
                lit = '(%s, %s)' % (zlist(cfg), zlist(x))
                expr = 'run_toy_cols (fst c) (snd c)'
            elif kind == 'ensemble':
                extra = dict(nens=ctx.rng.choice([1, 2, 4]))
                cfg[15] = ctx.rng.choice([0, 1, 2, 3, 5])
                lit = '((%s, %d), %s)' % (zlist(cfg), extra['nens'], zlist(x))
                expr = 'run_toy_ensemble (fst (fst c)) (snd (fst c)) (snd c)'
            else:
                ncol = ctx.rng.randint(1, 4)
                IA = [toys.gen_signal(ctx.rng, len(x)) for _ in range(ncol)]
                cap_arg = ctx.rng.choice([0, 0, 1, 2, 3])
                cfg[15] = 0
                extra = dict(IA=IA, cap_arg=cap_arg)
                lit = '((%s, %d), %s)' % (zlist(cfg), cap_arg, zlistlist(IA))
                expr = 'run_toy_second (fst (fst c)) (snd (fst c)) (snd c)'
            cases.append((kind, cfg, x, extra, lit, expr))
    bad = []
    by_kind = {}
    for c in cases:
        by_kind.setdefault(c[0], []).append(c)
    for kind, cs in by_kind.items():
        mo = ctx.model_outputs(IMPORTS, [c[4] for c in cs], 'fun c => ' + cs[0][5], shard=20)
        for (kind, cfg, x, extra, _, _), exp in zip(cs, mo):
            st, got = impl_variant(kind, cfg, x, extra)
            inp = dict(kind='toy-' + kind, cfg=cfg, signal=x, extra=extra)
            if st in ('timeout', 'nonint') or exp == [-6]:
                ctx.discarded += 1
                continue
            if exp == [-1] and st == 'ok' and got.count(-99999) >= 55:
                # the model's outer loop has fuel for 60 layers and reports exhaustion as "no result"; the outer loop has no
                # termination guarantee and such runs are not compared
                ctx.discarded += 1
                continue
            if st == 'converge':
                ok = exp == [-1] or kind == 'ceemd'
                got = [-1]
            elif st == 'raised':
                ok = False
                # an exception other than the documented convergence error: no [samples x components] result
                if exp != [-1] or kind != 'ensemble':
                    ctx.problem('impl-violation', kind, 'valid call raised %s instead of returning the documented array' % got[:200],
                                input=inp, tags=dict(mode='toy'))
                else:
                    ok = True
            else:
                ok = got == exp
            ncols = exp.count(-99999)
            ctx.count((kind, tuple(cfg), tuple(x), repr(extra)), ncols >= 2, 'toy-%s-%s' % (kind, 'none' if exp[0] != 0 else 'cols%d' % min(ncols, 6)))
            ctx.exact_cmp += 1
            if st == 'ok' and got[0] == 0 and kind in ('sift', 'mask', 'ensemble', 'ceemd') and cfg[15] and got.count(-99999) > cfg[15]:
                ctx.problem('impl-violation', kind, '%d components returned for max_imfs=%d' % (got.count(-99999), cfg[15]), input=inp,
                            observed=got[:60], tags=dict(mode='toy'))
            if not ok and len(bad) < 8:
                bad.append((kind, inp, got, exp))
    ctx.sample(dict(kind=cases[0][0], cfg=cases[0][1], signal=cases[0][2]))
    # mask cap table, exhaustive small scope
    mc = [(m, e) for m in range(1, 10) for e in range(-1, 10)]
    mo = ctx.model_outputs(IMPORTS, ['(%d, %s)' % (m, common.zlit(e)) for m, e in mc], 'fun c => run_mask_cap (fst c) (snd c)', shard=500)
    for (m, e), exp in zip(mc, mo):
        want = m if e < 0 else min(m, e)
        ctx.exact_cmp += 1
        ctx.hist['mask-cap'] += 1
        if e != 0 and exp != [want] and len(bad) < 9:
            bad.append(('mask_cap', dict(max_imfs=m, explicit=e), [want], exp))
    # ---- real numerics
    nsig = 20 if ctx.quick() else 250
    sigs = siftcore.real_signals(ctx.seed + 3, nsig, 40, 160)
    for i, (fam, x) in enumerate(sigs):
        kind = ('sift', 'mask', 'ensemble', 'ceemd', 'second')[i % 5]
        opts = siftcore.real_opts(ctx.rng)
        if opts[0].get('max_iters', 1000) < 50 and opts[0]['stop_method'] != 'fixed':
            opts[0]['max_iters'] = 1000
        dt = [None, 'int64', 'int16', 'float32'][(i // 5) % 4] if kind in ('sift', 'mask') else None
        if dt:
            ctx.hist['dtype-%s-%s' % (kind, dt)] += 1
        fails, path = oracle_real(kind, x, opts, ctx.seed * 1000 + i, dtype=dt)
        if path == 'timeout':
            ctx.discarded += 1
            continue
        ctx.count(('real', kind, fam, len(x), repr(opts)), True, 'real-%s-%s' % (kind, path))
        ctx.tol_cmp += 1
        for f in fails[:1]:
            ctx.problem('impl-violation', kind, f, input=dict(kind='real-' + kind, signal=[float(v) for v in x], opts=list(opts), seed=ctx.seed * 1000 + i, dtype=dt),
                        tags=dict(mode='real', family=fam))
    if bad and not any(p['kind'] == 'impl-violation' for p in ctx.problems):
        kind, inp, got, exp = bad[0]
        ctx.problem('correspondence-break', kind, 'model and implementation differ (%d disagreeing cases)' % len(bad), input=inp, observed=got,
                    expected=exp, theorem='Variants / SiftCore.peel_loop vs emd.sift (%s)' % kind)


def replay(rec):
    i = rec['input']
    k = i['kind']
    if k.startswith('real-'):
        opts = i['opts']
        if 'rilling_thresh' in opts[0]:
            opts[0]['rilling_thresh'] = tuple(opts[0]['rilling_thresh'])
        f, _ = oracle_real(k[5:], np.array(i['signal']), tuple(opts), i['seed'], dtype=i.get('dtype'))
        for x in f:
            print(x)
        return bool(f)
    st, got = impl_variant(k[4:], i['cfg'], i['signal'], i['extra'])
    print(st, str(got)[:300])
    if st == 'raised':
        return True
    if st == 'ok' and i['cfg'][15] and got.count(-99999) > i['cfg'][15]:
        return True
    return rec.get('expected') is not None and got != rec['expected']
