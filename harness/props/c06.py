"""C06 - every sift option takes effect at the stage it configures, in every variant.

PROOF          coq/props/Prop_C06.v  (model: coq/model/Options.v over the tables of coq/gen/Gen_Defaults.v, which are
               re-generated from emd/sift.py before the proof step: the literal fall-backs and get_config's trees the
               theorems compute with are today's)
CORRESPONDENCE recording wrappers around emd.sift.get_next_imf / interp_envelope / get_padded_extrema (module attributes
               of the imported package, installed by this harness before any Pool exists; forked workers inherit them;
               nothing is added to the repository) write, per process, every distinct (stage, bound arguments) they see
               while an IMF is being extracted.  The full grid variant(6) x option case(14; 16 in the thorough tier:
               nothing, empty dicts, one non-default value per option, all at once) x route(keyword dicts, SiftConfig
               unpacking, get_func partial) x nprocesses is run in fresh driver interpreters and the SET of records of
               every run is compared exactly with the model's calls (hashes of Options.calls_h under vm_compute; the
               records themselves, Options.calls_c, are fetched for a report).  Ensembles take the sign-flipped second
               sift when nprocesses > 1; mask_sift chooses its first mask by zero crossings / instantaneous frequency.
               On the get_func route a share of the runs asks the configuration for its partial once BEFORE the options are
               supplied (slash key paths, nested indexing, whole-bundle assignment) and runs the partial it returns afterwards.
               Every run is a SEQUENCE on configuration objects: a decoy SiftConfig of the same variant is configured with
               different values for every option, then the configuration under test, then two more decoys (same and another
               variant), and only then is the configuration under test run; np.pad dictionaries are put into a SiftConfig
               both whole and entry by entry (three-level key paths).  Configuring a decoy must change nothing.
ORACLE         on the implementation alone (the last one is about the extrema stage itself: custom np.pad dictionaries must
               govern EVERY padding round - burst / late-onset / early-fading signals that need >= 2 rounds by an independent
               count; get_padded_extrema, interp_envelope and sift by the three routes against an independent reference): every recorded call of the stage an option configures received the supplied
               value, in the calling process and in every worker; and the output equals a decomposition assembled by
               hand from get_next_imf with the same options (classic, masked, both second-layer variants).
"""
import functools
import inspect
import json
import os
import subprocess
import sys
import warnings

import numpy as np

HERE = os.path.dirname(os.path.abspath(__file__))
if os.path.dirname(HERE) not in sys.path:
    sys.path.insert(0, os.path.dirname(HERE))
import common  # noqa: E402

IMPORTS = 'From EmdV Require Import lib.NpLite model.Config gen.Gen_Defaults model.Options.'

BUNDLES = ['imf_opts', 'envelope_opts', 'extrema_opts']
VARIANTS = ['sift', 'ensemble_sift', 'complete_ensemble_sift', 'mask_sift', 'sift_second_layer', 'mask_sift_second_layer']
VCOQ = {'sift': 'VSift', 'ensemble_sift': 'VEnsemble', 'complete_ensemble_sift': 'VComplete', 'mask_sift': 'VMask',
        'sift_second_layer': 'VSecond', 'mask_sift_second_layer': 'VMaskSecond'}
POOLED = {'ensemble_sift', 'complete_ensemble_sift', 'mask_sift', 'mask_sift_second_layer'}
ROUTES = ['keyword', 'config', 'partial']
RCOQ = {'keyword': 'RKeyword', 'config': 'RConfig', 'partial': 'RPartial'}
STAGE_FN = {'G': 'get_next_imf', 'E': 'interp_envelope', 'P': 'get_padded_extrema'}
STAGE_OF_BUNDLE = {'imf_opts': 'G', 'envelope_opts': 'E', 'extrema_opts': 'P'}
# stage codes shared with Options.stage_code
SCODE = {('G', None): 1, ('E', 'upper'): 2, ('E', 'lower'): 3, ('E', 'combined'): 4,
         ('P', 'peaks'): 5, ('P', 'troughs'): 6, ('P', 'abs_peaks'): 7}
SNAME = {1: 'get_next_imf', 2: 'interp_envelope[upper]', 3: 'interp_envelope[lower]', 4: 'interp_envelope[combined]',
         5: 'get_padded_extrema[peaks]', 6: 'get_padded_extrema[troughs]', 7: 'get_padded_extrema[abs_peaks]'}
N = 96


# --------------------------------------------------------------------------- canonical form of Python objects
# ['n'] ['b',0/1] ['i',int] ['f',repr] ['s',str] ['L',[..]] ['T',[..]] ['D',[[key, c],..]] ['?',what]
def canon(o):
    if o is None:
        return ['n']
    t = type(o)
    if t is bool:
        return ['b', int(o)]
    if t is int:
        return ['i', o]
    if t is float:
        return ['f', repr(o)]
    if t is str:
        return ['s', o]
    if t is list:
        return ['L', [canon(x) for x in o]]
    if t is tuple:
        return ['T', [canon(x) for x in o]]
    if isinstance(o, dict):
        if not all(type(k) is str for k in o):
            return ['?', 'non-string key']
        return ['D', [[k, canon(v)] for k, v in sorted(o.items())]]
    return ['?', t.__name__]


def build(c):
    k = c[0]
    if k == 'n':
        return None
    if k == 'b':
        return bool(c[1])
    if k == 'i':
        return int(c[1])
    if k == 'f':
        return float(c[1])
    if k == 's':
        return c[1]
    if k == 'L':
        return [build(x) for x in c[1]]
    if k == 'T':
        return tuple(build(x) for x in c[1])
    if k == 'D':
        return {kk: build(v) for kk, v in c[1]}
    raise ValueError(c)


def enc_str(s):
    return [len(s)] + [ord(ch) for ch in s]


def enc_val(c):
    k = c[0]
    if k == 'n':
        return [0]
    if k == 'b':
        return [1, c[1]]
    if k == 'i':
        return [2, c[1]]
    if k == 'f':
        return [3] + enc_str(c[1])
    if k == 's':
        return [4] + enc_str(c[1])
    if k in 'LT':
        out = [{'L': 5, 'T': 6}[k], len(c[1])]
        for x in c[1]:
            out += enc_val(x)
        return out
    return [-77]  # something the model has no value for


def enc_tree(c):
    """Python twin of Config.enc_tree: dict entries in key order."""
    if c[0] == 'D':
        out = [9, len(c[1])]
        for k, v in sorted(c[1], key=lambda kv: kv[0]):
            out += enc_str(k) + enc_tree(v)
        return out
    return [8] + enc_val(c)


def decode(z):
    """Z-list -> canonical form (for reports)."""
    def rd_str(i):
        n = z[i]
        return ''.join(chr(x) for x in z[i + 1:i + 1 + n]), i + 1 + n

    def rd(i):
        t = z[i]
        if t == 0:
            return ['n'], i + 1
        if t == 1:
            return ['b', z[i + 1]], i + 2
        if t == 2:
            return ['i', z[i + 1]], i + 2
        if t in (3, 4):
            s, j = rd_str(i + 1)
            return ['f' if t == 3 else 's', s], j
        if t in (5, 6, 7):
            n, j, out = z[i + 1], i + 2, []
            for _ in range(n):
                x, j = rd(j)
                out.append(x)
            return [{5: 'L', 6: 'T', 7: 'A'}[t], out], j
        if t == 8:
            return rd(i + 1)
        if t == 9:
            n, j, out = z[i + 1], i + 2, []
            for _ in range(n):
                k, j = rd_str(j)
                x, j = rd(j)
                out.append([k, x])
            return ['D', out], j
        raise ValueError('bad tag %r at %d' % (t, i))
    try:
        return rd(0)[0]
    except Exception:  # noqa
        return ['?', 'undecodable']


def plain(c):
    """canonical form -> something short and readable for reports"""
    k = c[0]
    if k == 'n':
        return None
    if k == 'D':
        return {kk: plain(v) for kk, v in c[1]}
    if k in 'LTA':
        return [plain(x) for x in c[1]] if k != 'T' else tuple(plain(x) for x in c[1])
    if k == 'b':
        return bool(c[1])
    if k == 'f':
        return float(c[1])
    return c[1]


def cstr(s):
    assert all(32 <= ord(ch) < 127 for ch in s), s
    return '"%s"%%string' % s.replace('"', '""')


def coq_val(c):
    k = c[0]
    if k == 'n':
        return 'VNone'
    if k == 'b':
        return '(VBool %s)' % ('true' if c[1] else 'false')
    if k == 'i':
        return '(VInt %s)' % common.zlit(c[1])
    if k == 'f':
        return '(VFloat %s)' % cstr(c[1])
    if k == 's':
        return '(VStr %s)' % cstr(c[1])
    return '(%s [%s])' % ({'L': 'VList', 'T': 'VTuple'}[k], '; '.join(coq_val(x) for x in c[1]))


def coq_tree(c):
    if c[0] == 'D':
        return '(Node [%s])' % '; '.join('(%s, %s)' % (cstr(k), coq_tree(v)) for k, v in c[1])
    return '(Leaf %s)' % coq_val(c)


# --------------------------------------------------------------------------- the grid
def option_cases(n):
    """[(name, {bundle: dict | None})]: nothing supplied, three empty dicts, one non-default value per option,
    everything at once.  Values differ from every default and from every literal fall-back in emd/sift.py."""
    single = [
        ('imf_opts', 'stop_method', 'rilling'),
        ('imf_opts', 'env_step_size', 0.5),
        ('imf_opts', 'sd_thresh', 0.25),
        ('imf_opts', 'rilling_thresh', (0.1, 0.5, 0.1)),
        ('imf_opts', 'max_iters', 500),
        ('imf_opts', 'energy_thresh', 40.0),
        ('envelope_opts', 'interp_method', 'mono_pchip'),
        ('extrema_opts', 'pad_width', 3),
        ('extrema_opts', 'parabolic_extrema', True),
        ('extrema_opts', 'loc_pad_opts', {'mode': 'linear_ramp', 'end_values': (-n, 2 * n)}),
        ('extrema_opts', 'mag_pad_opts', {'mode': 'mean', 'stat_length': 2}),
    ]
    out = [('nothing', {b: None for b in BUNDLES}), ('empty-dicts', {b: {} for b in BUNDLES})]
    for b, k, v in single:
        u = {bb: None for bb in BUNDLES}
        u[b] = {k: v}
        out.append(('%s/%s' % (b, k), u))
    allu = {b: {} for b in BUNDLES}
    for b, k, v in single:
        allu[b][k] = v
    out.append(('all', allu))
    extra = [('envelope_opts/interp_method=pchip', {'imf_opts': None, 'envelope_opts': {'interp_method': 'pchip'}, 'extrema_opts': None}),
             ('imf_opts/stop_method=fixed', {'imf_opts': {'stop_method': 'fixed', 'max_iters': 3}, 'envelope_opts': {}, 'extrema_opts': None})]
    return out + extra


def signal(idx, n=N):
    t = np.linspace(0, 1, n)
    if idx == 0:
        return np.sin(2 * np.pi * 11 * t) + 0.6 * np.sin(2 * np.pi * 4 * t + 0.3) + 0.4 * t
    if idx == 1:
        return np.cos(2 * np.pi * 9 * t ** 1.3) + 0.5 * np.sin(2 * np.pi * 3 * t) - 0.3 * t
    if idx == 2:
        return np.sin(2 * np.pi * 13 * t) * (1 + 0.5 * np.sin(2 * np.pi * 2 * t)) + 0.7 * np.cos(2 * np.pi * 5 * t)
    return np.sin(2 * np.pi * 7 * t + 1.0) + 0.8 * np.sin(2 * np.pi * 17 * t) + 0.2 * np.sin(2 * np.pi * 2 * t)


def first_layer(idx):
    """a [samples x 2] array standing for first-level amplitude envelopes"""
    x = signal(idx)
    return np.c_[np.abs(x) + 0.1 * signal((idx + 1) % 4), 1.5 + signal((idx + 2) % 4)]


MASK_FREQS2 = [0.2, 0.1, 0.05]


def base_kwargs(variant, nproc, sig=0):
    """tiny runs; the sign-flipped second sift of the ensembles is taken when nprocesses > 1, the instantaneous-frequency
    way of choosing the first mask on the odd signals"""
    if variant == 'sift':
        return dict(max_imfs=3)
    if variant == 'ensemble_sift':
        return dict(nensembles=3, max_imfs=2, nprocesses=nproc, noise_mode='single' if nproc == 1 else 'flip')
    if variant == 'complete_ensemble_sift':
        return dict(nensembles=3, max_imfs=2, nprocesses=nproc, noise_mode='single' if nproc == 1 else 'flip')
    if variant == 'mask_sift':
        return dict(max_imfs=2, nprocesses=nproc, mask_freqs='if' if sig % 2 else 'zc')
    if variant == 'sift_second_layer':
        return dict(max_imfs=2)
    if variant == 'mask_sift_second_layer':
        return dict(max_imfs=2, nprocesses=nproc)
    raise ValueError(variant)


# --------------------------------------------------------------------------- recording wrappers (harness side only)
_T = {'dir': None, 'pid': None, 'seen': set(), 'depth': 0}
_SIGS = {}
_ORIG = {}


def _record(stage, args, kwargs):
    """Envelope / extrema calls are recorded while an IMF is being extracted (inside get_next_imf) only:
    spectra.frequency_transform, which get_mask_freqs uses for mask_freqs='if', computes amplitude envelopes of its own
    with its own arguments - those are not stages of the sift."""
    d = _T['dir']
    if d is None or (stage != 'G' and _T['depth'] == 0):
        return
    try:
        ba = _SIGS[stage].bind(*args, **kwargs)
    except TypeError:
        return   # the call itself raises
    ba.apply_defaults()
    a = dict(ba.arguments)
    a.pop('X', None)
    mode = a.pop('mode', None)
    key = json.dumps([stage, mode, canon(a)])
    pid = os.getpid()
    if _T['pid'] != pid:
        _T['pid'], _T['seen'] = pid, set()
    if (d, key) in _T['seen']:
        return
    _T['seen'].add((d, key))
    with open(os.path.join(d, '%d.jsonl' % pid), 'a') as f:
        f.write(key + '\n')


def install():
    """Wrap the three stage functions as attributes of the imported emd.sift module (call-time lookups inside the module
    and pickling by qualified name both resolve to the wrappers; forked Pool workers inherit them)."""
    if os.environ.get(common.GUARD) != '1':
        raise RuntimeError('%s is not set: refusing to trace' % common.GUARD)
    import emd.sift as S
    if _ORIG:
        return S
    for stage, name in STAGE_FN.items():
        orig = getattr(S, name)
        _ORIG[stage] = orig
        _SIGS[stage] = inspect.signature(orig)

        def mk(stage, orig):
            @functools.wraps(orig)
            def traced(*a, **k):
                _record(stage, a, k)
                if stage != 'G':
                    return orig(*a, **k)
                _T['depth'] += 1
                try:
                    return orig(*a, **k)
                finally:
                    _T['depth'] -= 1
            return traced
        setattr(S, name, mk(stage, orig))
    return S


def read_trace(d, parent_pid):
    """-> sorted list of [code, canonical kwargs, in_worker] (distinct), number of worker processes seen"""
    recs, workers = {}, set()
    for fn in sorted(os.listdir(d)):
        pid = int(fn.split('.')[0])
        for ln in open(os.path.join(d, fn)):
            stage, mode, kw = json.loads(ln)
            code = SCODE.get((stage, mode), -1)
            k = json.dumps([code, kw])
            inw = pid != parent_pid
            if inw:
                workers.add(pid)
            recs.setdefault(k, [code, kw, False, False])
            recs[k][3 if inw else 2] = True
    return [recs[k] for k in sorted(recs)], len(workers)


# --------------------------------------------------------------------------- one call of a variant by a route
def set_option(cfg, b, k, v, style):
    """One option into a SiftConfig.  style 'assign': cfg['bundle/key'] = value.  style 'path': a dictionary-valued option
    (the np.pad dictionaries) is edited in place through three-level key paths - every key set, keys it should not have
    deleted - which is how a user changes one entry of the dictionary get_config put there."""
    cur = cfg[b].get(k) if isinstance(cfg[b], dict) else None
    if style == 'index':        # nested indexing: cfg['bundle']['key'] = value
        cfg[b][k] = v
    elif style == 'path' and isinstance(v, dict) and isinstance(cur, dict):
        for kk in list(cur):
            if kk not in v:
                del cfg['%s/%s/%s' % (b, k, kk)]
        for kk, vv in v.items():
            cfg['%s/%s/%s' % (b, k, kk)] = vv
    else:
        cfg[b + '/' + k] = v


def apply_config(S, name, base, u, style='assign', history='fresh'):
    """history 'early': the configuration is asked for its partial once (result thrown away) BEFORE the options are
    supplied; whoever asks again afterwards must get a partial that knows them.  style 'bundle': each bundle replaced by
    a merged dictionary, cfg['bundle'] = {...}; 'index': nested indexing; 'assign' / 'path': slash key paths."""
    cfg = S.get_config(name)
    for k, v in base.items():
        cfg[k] = v
    if history == 'early':
        cfg.get_func()
    for b in BUNDLES:
        if style == 'bundle':
            if u[b]:
                merged = dict(cfg[b])
                merged.update(u[b])
                cfg[b] = merged
            continue
        for k, v in (u[b] or {}).items():
            set_option(cfg, b, k, v, style)
    return cfg


# values for the decoy configurations: valid, different from every default, and (first candidate that is) different from
# what the configuration under test was given
DECOY = {
    'imf_opts': {'stop_method': ['fixed', 'rilling'], 'env_step_size': [0.75], 'sd_thresh': [0.3], 'rilling_thresh': [(0.2, 0.6, 0.2)],
                 'max_iters': [7, 9], 'energy_thresh': [30.0]},
    'envelope_opts': {'interp_method': ['pchip', 'mono_pchip']},
    'extrema_opts': {'pad_width': [4], 'parabolic_extrema': [False, True],
                     'loc_pad_opts': [{'mode': 'linear_ramp', 'end_values': (-2 * N, 3 * N)}],
                     'mag_pad_opts': [{'mode': 'maximum', 'stat_length': 3}]},
}


def decoy_options(u):
    """{bundle: {key: value}} for a decoy, given the (built) options of the configuration under test"""
    out = {}
    for b in BUNDLES:
        out[b] = {}
        for k, cands in DECOY[b].items():
            mine = (u[b] or {}).get(k, None)
            out[b][k] = next(c for c in cands if canon(c) != canon(mine))
    return out


def make_decoy(S, name, u):
    """Another SiftConfig, configured with different values for every option (dictionary options edited in place).  It is
    never run: configuring it must not change what a different configuration object does."""
    cfg = S.get_config(name)
    for b, kv in decoy_options(u).items():
        for k, v in kv.items():
            set_option(cfg, b, k, v, 'path')
    return cfg


def warm_extrema(u):
    mine = u['extrema_opts'] or {}
    return {'pad_width': 4 if mine.get('pad_width') != 4 else 3, 'parabolic_extrema': not mine.get('parabolic_extrema', False)}


def other_variant(name):
    return 'ensemble_sift' if name != 'ensemble_sift' else 'sift'


def given(u):
    return {b: u[b] for b in BUNDLES if u[b] is not None}


def call_variant(S, variant, route, nproc, u, sig, style='assign', decoys=True, history='fresh'):
    """The documented ways of handing options to a variant.  Sequence: a decoy configuration of the same variant is made
    and configured, then the configuration under test, then a second decoy of the same variant and one of another variant
    (all with different values for every option); only then is the configuration under test run."""
    base = base_kwargs(variant, nproc, sig)
    name = {'sift_second_layer': 'sift', 'mask_sift_second_layer': 'mask_sift'}.get(variant, variant)
    keep = [make_decoy(S, name, u)] if decoys else []
    cfg = apply_config(S, name, base, u, style, history) if route != 'keyword' else None
    if decoys:
        keep += [make_decoy(S, name, u), make_decoy(S, other_variant(name), u)]
    if route == 'keyword' and history == 'reused':
        # a caller who keeps ONE imf_opts / envelope_opts dictionary and used it a moment ago (untraced) with OTHER extrema
        # options: the call under test must still see exactly the options it is handed
        saved, _T['dir'] = _T['dir'], None
        try:
            S.sift(signal(sig)[:64], max_imfs=1, imf_opts=u['imf_opts'], envelope_opts=u['envelope_opts'], extrema_opts=warm_extrema(u))
        finally:
            _T['dir'] = saved
    try:
        if variant in ('sift', 'ensemble_sift', 'complete_ensemble_sift', 'mask_sift'):
            x = signal(sig)
            f = getattr(S, variant)
            if route == 'keyword':
                r = f(x, **base, **given(u))
            elif route == 'config':
                r = f(x, **cfg)
            else:
                r = cfg.get_func()(x)
            return r[0] if isinstance(r, tuple) else r
        IA = first_layer(sig)
        if variant == 'sift_second_layer':
            if route == 'keyword':
                return S.sift_second_layer(IA, sift_args=dict(base, **given(u)))
            if route == 'config':
                return S.sift_second_layer(IA, sift_args=cfg)
            return S.sift_second_layer(IA, sift_func=cfg.get_func())
        freqs = np.array(MASK_FREQS2)
        if route == 'keyword':
            return S.mask_sift_second_layer(IA, freqs, sift_args=dict(base, **given(u)))
        # there is no get_func for this entry point: the configuration is handed over as a dictionary, directly or
        # frozen into a functools.partial
        args = dict(cfg)
        if route == 'config':
            return S.mask_sift_second_layer(IA, freqs, sift_args=args)
        return functools.partial(S.mask_sift_second_layer, sift_args=args)(IA, freqs)
    finally:
        del keep


def mixed_route_fails(opts, sig=0):
    """second-layer sift handed a get_func() partial of an UNTOUCHED (all-default) configuration as sift_func AND the options under
    test as keyword dictionaries in sift_args: the explicit dictionaries must govern, i.e. the result equals the plain keyword
    route (a default configuration pins exactly the signature defaults - C18).  returns [(site, detail, input)]"""
    import emd.sift as S
    fails = []
    IA = first_layer(sig)
    for oname, u0 in opts:
        u = {b: build(canon(u0[b])) for b in BUNDLES}
        if not any(u[b] for b in BUNDLES):
            continue
        base = base_kwargs('sift_second_layer', 1, sig)
        try:
            with common.time_limit(60), warnings.catch_warnings():
                warnings.simplefilter('ignore')
                want = S.sift_second_layer(IA, sift_args=dict(base, **given(u)))
                got = S.sift_second_layer(IA, sift_func=S.get_config('sift').get_func(), sift_args=dict(base, **given(u)))
                same = np.asarray(got).shape == np.asarray(want).shape and np.array_equal(got, want, equal_nan=True)
        except common.Timeout:
            continue
        except Exception as e:                                          # noqa
            same, got, want = False, 'raised %s: %s' % (type(e).__name__, e), None
        if not same:
            fails.append(('emd/sift.py:sift_second_layer', 'options %s given as keyword dictionaries in sift_args together with sift_func = '
                          'get_config(\'sift\').get_func() (an untouched configuration): the result differs from the same dictionaries with the '
                          'default sift_func%s' % ({b: plain(canon(u0[b])) for b in BUNDLES if u[b]}, '' if want is not None else ' (%s)' % got),
                          dict(mixed_route=oname, signal=sig)))
    return fails


# --------------------------------------------------------------------------- the same decomposition assembled by hand
def explicit_sift(S, x, u, max_imfs, sift_thresh=1e-8):
    gni = _ORIG.get('G') or S.get_next_imf
    X = np.asarray(x, dtype=float).reshape(-1, 1)
    proto, layer, cont, imf = X.copy(), 0, True, None
    while cont:
        nxt, cont = gni(proto, envelope_opts=u['envelope_opts'], extrema_opts=u['extrema_opts'], **(u['imf_opts'] or {}))
        imf = nxt if layer == 0 else np.concatenate((imf, nxt), axis=1)
        proto = X - imf.sum(axis=1)[:, None]
        layer += 1
        if max_imfs is not None and layer == max_imfs:
            cont = False
        if np.abs(nxt).sum() < sift_thresh:
            cont = False
    return imf


def energy_effect_fails():
    """imf_opts['energy_thresh'] configures a stage whose effect is a STOP VERDICT (the continue flag of get_next_imf), not a value:
    on a strong fast tone over weak slow ones (energy ratio ~67 dB after the first IMF) a threshold of 40 dB must end the sift after
    one component, with or without a (never reached) max_imfs, by every delivery route - as the pipeline assembled from
    get_next_imf does.  returns [(site, detail, input)]"""
    import emd.sift as S
    t = np.linspace(0, 1, N)
    x = np.sin(2 * np.pi * 13 * t) + 0.02 * np.sin(2 * np.pi * 3 * t) + 0.01 * t
    fails = []
    for thr in (40.0, 0, 0.0):              # 0 is a supplied value too (any energy ratio above 0 dB ends the sift), not "no threshold"
        u = {'imf_opts': {'energy_thresh': thr, 'sd_thresh': 0.1}, 'envelope_opts': None, 'extrema_opts': None}
        with warnings.catch_warnings():
            warnings.simplefilter('ignore')
            # the reference: get_next_imf WITHOUT the threshold, and the documented energy verdict applied from outside
            # (20 log10 of the sum of squares of the input over that of input minus IMF, stop when above the threshold)
            X = x.reshape(-1, 1)
            first = S.get_next_imf(X, sd_thresh=0.1)[0]
            num, den = float(np.sum(X ** 2)), float(np.sum((X - first) ** 2))
            assert den > 0 and 20 * np.log10(num) - 20 * np.log10(den) > 41, 'the probe signal no longer triggers the energy criterion'
            want = first
            for cap in (5, None):
                cfg = S.get_config('sift')
                cfg['max_imfs'] = cap
                cfg['imf_opts/energy_thresh'] = thr
                cfg['imf_opts/sd_thresh'] = 0.1
                runs = (('keyword', lambda: S.sift(x, max_imfs=cap, imf_opts=dict(u['imf_opts']))),
                        ('config', lambda: S.sift(x, **cfg)), ('partial', lambda: cfg.get_func()(x)))
                for route, f in runs:
                    try:
                        with common.time_limit(60):
                            got = f()
                    except Exception as e:                              # noqa
                        got = None
                        detail = 'raised %s: %s' % (type(e).__name__, e)
                    else:
                        detail = '%d component(s)' % np.asarray(got).shape[1]
                    if got is None or np.asarray(got).shape != want.shape or not np.array_equal(got, want):
                        fails.append(('emd/sift.py:sift', "imf_opts['energy_thresh'] = %r supplied by the %s route with max_imfs=%s on a signal "
                                      'whose first IMF leaves a residual about 67 dB down: %s, the pipeline assembled from get_next_imf (which '
                                      "honours the stage's stop verdict) gives %d" % (thr, route, cap, detail, want.shape[1]),
                                      dict(energy_effect=True, route=route, max_imfs=cap, energy_thresh=thr)))
    # the Rilling thresholds (sd1, sd2, tol) with tol != sd1: the first component by every route must be the iterate at which the
    # DOCUMENTED criterion with exactly these three numbers fires (independent evaluation: props/c04.py spec_gni)
    from props import c04
    io = dict(stop_method='rilling', rilling_thresh=(0.05, 0.5, 0.3), env_step_size=1, max_iters=1000)
    io_same = dict(io, rilling_thresh=(0.05, 0.5, 0.05))
    with warnings.catch_warnings():
        warnings.simplefilter('ignore')
        for f0, f1 in ((7, 2), (11, 4), (5, 1.5), (17, 3)):
            xr = (1 + 0.5 * np.sin(2 * np.pi * f1 * t)) * np.sin(2 * np.pi * f0 * t + np.sin(2 * np.pi * f1 * t)) + 0.3 * np.sin(2 * np.pi * f1 * t)
            ka, kb = c04.spec_gni(xr, io, {}, None), c04.spec_gni(xr, io_same, {}, None)
            if ka[0] == 'stop' and kb[0] == 'stop' and not ka[3] and not kb[3] and ka[2] != kb[2]:
                break
        else:
            return fails               # no probe signal on which the third threshold matters: nothing to say
        cfg = S.get_config('sift')
        cfg['max_imfs'] = 1
        cfg['imf_opts/stop_method'] = 'rilling'
        cfg['imf_opts/rilling_thresh'] = (0.05, 0.5, 0.3)
        for route, f in (('keyword', lambda: S.sift(xr, max_imfs=1, imf_opts=dict(io))), ('config', lambda: S.sift(xr, **cfg)),
                         ('partial', lambda: cfg.get_func()(xr))):
            try:
                got = np.asarray(f())
                ok = got.shape == ka[1].shape and np.allclose(got, ka[1], rtol=0, atol=1e-9)
                detail = 'max deviation %.3g' % float(np.abs(got - ka[1]).max()) if got.shape == ka[1].shape else 'shape %s' % (got.shape,)
            except Exception as e:                                      # noqa
                ok, detail = False, 'raised %s: %s' % (type(e).__name__, e)
            if not ok:
                fails.append(('emd/sift.py:get_next_imf', "imf_opts['rilling_thresh'] = (0.05, 0.5, 0.3) supplied by the %s route: the first "
                              'component is not the iterate at which the documented Rilling criterion with these thresholds fires (iterate %d; '
                              'with tol = sd1 = 0.05 it would be iterate %d): %s' % (route, ka[2], kb[2], detail),
                              dict(energy_effect=True, route=route, option='rilling_thresh')))
    return fails


def explicit_mask_sift(S, x, u, max_imfs, mask_freqs, nphases=4, sift_thresh=1e-8):
    """mask_sift (mask_amp 1, ratio_imf, step factor 2) from get_next_imf alone, without pools"""
    gni = _ORIG.get('G') or S.get_next_imf
    kw = dict(envelope_opts=u['envelope_opts'], extrema_opts=u['extrema_opts'], **(u['imf_opts'] or {}))
    X = np.asarray(x, dtype=float).reshape(-1, 1)
    if isinstance(mask_freqs, str):
        first, _ = gni(X, **kw)
        z = S.zero_crossing_count(first)[0, 0] / first.shape[0] / 4
        mask_freqs = np.array([z / 2 ** ii for ii in range(max_imfs)])
    elif len(mask_freqs) < max_imfs:
        max_imfs = len(mask_freqs)
    sd = X.std()
    proto, layer, cont, imf = X.copy(), 0, True, None
    while cont:
        if layer > 0:
            sd = imf[:, -1].std()
        amp = 1 * sd
        zf = mask_freqs[layer] * 2 * np.pi
        t = np.repeat(np.arange(X.shape[0])[:, np.newaxis], nphases, axis=1)
        phases = np.linspace(0, (2 * np.pi), nphases + 1)[:nphases]
        m = amp * np.cos(zf * t + phases)
        res = [gni(proto + m[:, ii, np.newaxis], **kw) for ii in range(nphases)]
        nxt = (np.concatenate([r[0] for r in res], axis=1) - m).mean(axis=1)[:, np.newaxis]
        cont = bool(np.any([r[1] for r in res]))
        imf = nxt if layer == 0 else np.concatenate((imf, nxt), axis=1)
        proto = X - imf.sum(axis=1)[:, None]
        if layer == max_imfs - 1:
            cont = False
        if np.abs(nxt).sum() < sift_thresh:
            cont = False
        layer += 1
    return imf


def explicit_output(S, variant, u, sig):
    """None where no cheap deterministic reference exists (the ensembles add random noise)."""
    if variant == 'sift':
        return explicit_sift(S, signal(sig), u, 3)
    if variant == 'mask_sift':
        return explicit_mask_sift(S, signal(sig), u, 2, 'zc') if sig % 2 == 0 else None
    if variant in ('sift_second_layer', 'mask_sift_second_layer'):
        IA = first_layer(sig)
        out = np.zeros((IA.shape[0], IA.shape[1], 2))
        for ii in range(IA.shape[1]):
            if variant == 'sift_second_layer':
                tmp = explicit_sift(S, IA[:, ii], u, 2)
            else:
                tmp = explicit_mask_sift(S, IA[:, ii], u, 2, np.array(MASK_FREQS2)[ii:])
            out[:, ii, :tmp.shape[1]] = tmp
        return out
    return None


def run_case(case, workdir):
    """Executed in a driver process: one traced call + the hand-assembled reference.  JSON-able result."""
    S = install()
    u = {b: build(case['u'][b]) for b in BUNDLES}
    d = os.path.join(workdir, 'trace_%s' % case['id'])
    os.makedirs(d, exist_ok=True)
    res = dict(id=case['id'], status='ok', records=[], workers=0, pipeline='n/a', maxdiff=0.0, shape=None)
    out = None
    with warnings.catch_warnings():
        warnings.simplefilter('ignore')
        _T['dir'] = d
        try:
            with common.time_limit(case.get('timeout', 30)):
                out = call_variant(S, case['variant'], case['route'], case['nproc'], u, case['signal'],
                                   case.get('style', 'assign'), case.get('decoys', True), case.get('history', 'fresh'))
        except common.Timeout:
            res['status'] = 'timeout'
        except Exception as e:  # noqa
            res['status'] = 'raised %s: %s' % (type(e).__name__, str(e)[:200])
        finally:
            _T['dir'] = None
        res['records'], res['workers'] = read_trace(d, os.getpid())
        if out is not None:
            res['shape'] = list(out.shape)
            res['finite'] = bool(np.all(np.isfinite(out)))
            try:
                with common.time_limit(30):
                    ref = explicit_output(S, case['variant'], u, case['signal'])
                if ref is not None:
                    if ref.shape != out.shape:
                        res['pipeline'], res['maxdiff'] = 'differ', 'shape %s vs %s' % (list(out.shape), list(ref.shape))
                    else:
                        scale = max(1.0, float(np.abs(ref).max()))
                        md = float(np.abs(out - ref).max())
                        res['maxdiff'] = md
                        res['pipeline'] = 'identical' if md == 0 else ('close' if md <= 1e-9 * scale else 'differ')
            except common.Timeout:
                res['pipeline'] = 'ref-timeout'
            except Exception as e:  # noqa
                res['pipeline'] = 'ref-raised %s: %s' % (type(e).__name__, str(e)[:120])
    return res


def drive(jobfile):
    job = json.load(open(jobfile))
    out = [run_case(c, job['work']) for c in job['cases']]
    with open(jobfile + '.out', 'w') as f:
        json.dump(out, f)


def run_cases(cases, workdir, nworkers=12):
    """Implementation runs happen in fresh driver interpreters (each may create multiprocessing Pools of its own)."""
    chunks = [cases[i::nworkers] for i in range(nworkers)]
    procs = []
    for i, ch in enumerate(chunks):
        if not ch:
            continue
        jf = os.path.join(workdir, 'job_%d.json' % i)
        with open(jf, 'w') as f:
            json.dump(dict(work=workdir, cases=ch), f)
        env = common.impl_env()     # PYTHONPATH = the tree under test
        env['EMD_REPO'] = '/repo'   # drivers only run the implementation: they must not make common.py's private Coq copy again
        procs.append((jf, subprocess.Popen([common.PY, '-B', os.path.abspath(__file__), '--drive', jf], env=env,
                                           stdout=subprocess.PIPE, stderr=subprocess.PIPE, text=True)))
    out = {}
    for jf, p in procs:
        so, se = p.communicate(timeout=1200)
        if p.returncode != 0 or not os.path.exists(jf + '.out'):
            raise RuntimeError('driver failed (%s): %s' % (p.returncode, (so + se)[-1500:]))
        for r in json.load(open(jf + '.out')):
            out[r['id']] = r
    return out


# --------------------------------------------------------------------------- the property on a trace (no model)
def oracle(case, res):
    """-> list of failures (site, what, observed, expected).  Only what C06 states: a supplied option reaches every call
    of the stage it configures, in every process, and is never replaced by something else."""
    fails = []
    if res['status'] != 'ok' and not res['status'].startswith('raised EMDSiftCovergeError'):
        return fails      # (a sift that gives up on convergence has still made stage calls: they are judged)
    by_stage = {}
    for code, kw, inp, inw in res['records']:
        by_stage.setdefault('GEEEPPP'[code - 1] if 1 <= code <= 7 else '?', []).append((code, dict(kw[1]), inp, inw))
    decoy = decoy_options({b: build(case['u'][b]) for b in BUNDLES}) if case.get('decoys', True) else {}
    for b in BUNDLES:
        st = STAGE_OF_BUNDLE[b]
        for k, v in (case['u'][b][1] if case['u'][b][0] == 'D' else []):
            for code, kw, inp, inw in by_stage.get(st, []):
                if kw.get(k) != v:
                    # (the decoy's parabolic_extrema=False is also the default: seeing it says nothing about where it came from)
                    stolen = b in decoy and k in decoy[b] and kw.get(k) == canon(decoy[b][k]) and decoy[b][k] is not False
                    for where in ([False] if inp else []) + ([True] if inw else []):
                        if stolen:
                            fails.append(('emd/sift.py:get_config', '%s[%r] set on one SiftConfig (%s route, %s) was replaced at %s by the '
                                          'value set afterwards on a DIFFERENT SiftConfig object that was never run'
                                          % (b, k, case['route'], case['variant'], SNAME[code]),
                                          plain(kw.get(k)), plain(v)))
                        elif case.get('history') == 'early' and case['route'] == 'partial':
                            fails.append(('emd/sift.py:SiftConfig.get_func', '%s[%r] set on a SiftConfig (%s) after get_func() had been called '
                                          'once did not reach %s through the partial that get_func() returned afterwards (%s)'
                                          % (b, k, {'assign': 'slash key path', 'path': 'three-level key paths', 'index': 'nested indexing',
                                                    'bundle': 'whole-bundle assignment'}.get(case.get('style'), case.get('style')),
                                             SNAME[code], case['variant']),
                                          plain(kw.get(k, ['s', '<absent>'])), plain(v)))
                        else:
                            fails.append((site_of(case, code, kw, where), '%s[%r] supplied to %s by the %s route did not reach %s%s'
                                          % (b, k, case['variant'], case['route'], SNAME[code],
                                             ' in a worker process' if where else ' in the calling process'),
                                          plain(kw.get(k, ['s', '<absent>'])), plain(v)))
    if res['pipeline'] == 'differ':
        fails.append(('output:' + case['variant'], 'result differs from the same sift assembled by hand from get_next_imf with the same options',
                      res['maxdiff'], 0.0))
    return fails


def site_of(case, code, kw, in_worker):
    """which call site lost the option, as far as the trace can tell (used as the finding's site)"""
    v = case['variant']
    if v in ('mask_sift', 'mask_sift_second_layer'):
        return 'emd/sift.py:get_next_imf_mask' if in_worker else 'emd/sift.py:get_mask_freqs'
    if v == 'complete_ensemble_sift':
        return 'emd/sift.py:complete_ensemble_sift'
    return 'emd/sift.py:' + v


# --------------------------------------------------------------------------- the extrema stage honours custom np.pad options
# over ALL padding rounds.  get_padded_extrema pads again and again until the padded locations cover both edges; on a signal
# whose oscillation starts late / fades early / sits as a burst on a ramp one round is not enough.  Reference: own extrema
# detection, np.pad with the SUPPLIED dictionaries in every round, own count of the rounds.
MAG_OPTS = [None, {'mode': 'median', 'stat_length': 1}, {'mode': 'mean', 'stat_length': 2}, {'mode': 'mean', 'stat_length': 3},
            {'mode': 'reflect'}, {'mode': 'symmetric'}, {'mode': 'wrap'}, {'mode': 'reflect', 'reflect_type': 'odd'},
            {'mode': 'maximum', 'stat_length': 2}]
LOC_OPTS = [None, {'mode': 'reflect', 'reflect_type': 'odd'}]      # never reflect_type='even': the library's loop would not end
FIXED_BURSTS = [dict(n=128, start=52, stop=84, period=8.0, slope=0.02, amp=1.0, phase=0.3),     # burst on a ramp
                dict(n=128, start=70, stop=128, period=7.0, slope=0.03, amp=0.8, phase=1.1),    # late onset
                dict(n=128, start=0, stop=50, period=9.0, slope=-0.025, amp=1.2, phase=0.0)]    # early fading


def burst_signal(prm):
    """monotone ramp + windowed oscillation: no extrema outside [start, stop)"""
    n = prm['n']
    t = np.arange(n, dtype=float)
    w = np.zeros(n)
    a, b = prm['start'], prm['stop']
    w[a:b] = np.hanning(b - a + 2)[1:-1] ** 0.25
    return prm['slope'] * t + prm['amp'] * w * np.sin(2 * np.pi * t / prm['period'] + prm['phase'])


def burst_params(ctx):
    out = list(FIXED_BURSTS)
    for _ in range(2 if ctx.quick() else 8):
        n = ctx.rng.choice([96, 128, 160])
        a = ctx.rng.randrange(0, n // 2)
        b = ctx.rng.randrange(a + 30, min(n, a + 70) + 1)
        out.append(dict(n=n, start=a, stop=b, period=ctx.rng.choice([6.0, 7.5, 9.0, 11.0]), slope=ctx.rng.choice([0.02, -0.03, 0.04]),
                        amp=ctx.rng.choice([0.7, 1.0, 1.5]), phase=round(ctx.rng.uniform(0, 6.28), 3)))
    return out


def ref_padded_extrema(X, pad_width=2, mode='peaks', parabolic_extrema=False, loc_pad_opts=None, mag_pad_opts=None, count=None):
    """Independent get_padded_extrema (no parabolic refinement).  count: a list that receives the number of padding rounds."""
    if parabolic_extrema or mode not in ('peaks', 'troughs'):
        raise NotImplementedError
    x = np.asarray(X, dtype=float)
    x = x[:, 0] if x.ndim == 2 else x
    y = x if mode == 'peaks' else -x
    locs = np.array([i for i in range(1, len(y) - 1) if y[i] > y[i - 1] and y[i] > y[i + 1]], dtype=int)
    if locs.size <= 1:
        return None, None
    mags = x[locs]
    p = min(pad_width, locs.size)
    if not p:
        return locs, mags
    lo = dict(loc_pad_opts) if loc_pad_opts else {'mode': 'reflect', 'reflect_type': 'odd'}
    mo = dict(mag_pad_opts) if mag_pad_opts else {'mode': 'median', 'stat_length': 1}
    lm, mm = lo.pop('mode'), mo.pop('mode')
    rounds = 0
    while True:
        locs = np.pad(locs, p, lm, **lo)
        mags = np.pad(mags, p, mm, **mo)
        rounds += 1
        if locs.max() >= len(x) and locs.min() < 0:
            break
        if rounds > 300:
            raise RuntimeError('reference padding does not reach the edges')
    if count is not None:
        count.append(rounds)
    return locs, mags


def ref_envelope(x, mode, interp_method, locs, pks):
    from scipy import interpolate as interp
    t = np.arange(np.ceil(locs[0]), locs[-1])
    if interp_method == 'splrep':
        env = interp.splev(t, interp.splrep(locs, pks))
    else:
        env = interp.PchipInterpolator(locs, pks)(t)
    return np.array(env[np.logical_and(t >= 0, t < len(x))])


def same(a, b):
    """-> 'identical' | 'close' | 'differ'"""
    if a is None or b is None:
        return 'identical' if a is None and b is None else 'differ'
    a, b = np.asarray(a, dtype=float), np.asarray(b, dtype=float)
    if a.shape != b.shape:
        return 'differ'
    if np.array_equal(a, b):
        return 'identical'
    return 'close' if np.allclose(a, b, rtol=1e-9, atol=1e-12) else 'differ'


def pad_case(S, inp):
    """One comparison of the pad-rounds oracle.  inp: check, level, signal, mode, pad_width, loc_pad_opts, mag_pad_opts
    (+ interp_method / route).  -> (verdict, rounds, detail)"""
    x = burst_signal(inp['signal'])
    lo, mo, p, mode = inp['loc_pad_opts'], inp['mag_pad_opts'], inp['pad_width'], inp['mode']
    gpe = _ORIG.get('P') or S.get_padded_extrema
    cnt = []
    rl, rm = ref_padded_extrema(x, p, mode, False, lo, mo, cnt)
    rounds = cnt[0] if cnt else 0
    with warnings.catch_warnings():
        warnings.simplefilter('ignore')
        with common.time_limit(20):
            if inp['level'] == 'stage':
                il, im = gpe(x, pad_width=p, mode=mode, loc_pad_opts=lo, mag_pad_opts=mo)
                v1, v2 = same(il, rl), same(im, rm)
                v = 'differ' if 'differ' in (v1, v2) else ('close' if 'close' in (v1, v2) else 'identical')
                return v, rounds, dict(magnitudes_impl=None if im is None else [float(q) for q in im],
                                       magnitudes_reference=None if rm is None else [float(q) for q in rm])
            xo = dict(pad_width=p)
            if lo is not None:
                xo['loc_pad_opts'] = lo
            if mo is not None:
                xo['mag_pad_opts'] = mo
            if inp['level'] == 'envelope':
                env = (_ORIG.get('E') or S.interp_envelope)(x, mode={'peaks': 'upper', 'troughs': 'lower'}[mode],
                                                             interp_method=inp['interp_method'], extrema_opts=xo)
                ref = None if rl is None else ref_envelope(x, mode, inp['interp_method'], rl, rm)
                return same(env, ref), rounds, dict(max_abs_diff=None if env is None or ref is None or env.shape != ref.shape
                                                    else float(np.abs(env - ref).max()))
            # level 'sift': the whole classic sift by a delivery route against the same sift run on the reference stage
            u = dict(imf_opts=None, envelope_opts=None, extrema_opts=xo)
            base = dict(max_imfs=2)
            if inp['route'] == 'keyword':
                out = S.sift(x, **base, **given(u))
            elif inp['route'] == 'config':
                out = S.sift(x, **apply_config(S, 'sift', base, u, 'path'))
            else:
                out = apply_config(S, 'sift', base, u, 'assign').get_func()(x)
            live = S.get_padded_extrema
            S.get_padded_extrema = ref_padded_extrema
            try:
                ref = S.sift(x, **base, **given(u))
            finally:
                S.get_padded_extrema = live
            return same(out, ref), rounds, dict(max_abs_diff=float(np.abs(out - ref).max()) if out.shape == ref.shape else 'shape')


def pad_rounds_oracle(ctx):
    import emd.sift as S
    hist, nontrivial, failed_stage = {}, 0, set()
    todo = []
    for prm in burst_params(ctx):
        for mode in ('peaks', 'troughs'):
            for p in (1, 2, 3):
                for lo in LOC_OPTS:
                    for mo in MAG_OPTS:
                        todo.append(dict(check='pad-rounds', level='stage', signal=prm, mode=mode, pad_width=p, loc_pad_opts=lo, mag_pad_opts=mo))
        for mo in MAG_OPTS[2:]:
            for im in ('splrep', 'mono_pchip'):
                todo.append(dict(check='pad-rounds', level='envelope', signal=prm, mode='peaks', pad_width=2, loc_pad_opts=None,
                                 mag_pad_opts=mo, interp_method=im))
        for mo in MAG_OPTS[2:6]:
            for r in ROUTES:
                todo.append(dict(check='pad-rounds', level='sift', signal=prm, mode='peaks', pad_width=2, loc_pad_opts=None,
                                 mag_pad_opts=mo, route=r))
    for inp in todo:
        okey = json.dumps([inp['signal'], inp['pad_width'], inp['loc_pad_opts'], inp['mag_pad_opts']], sort_keys=True)
        try:
            v, rounds, detail = pad_case(S, inp)
        except common.Timeout:
            ctx.discarded += 1
            continue
        except Exception as e:  # noqa
            if inp['level'] == 'sift':      # an exotic padding may make the sift itself fail: nothing to compare
                ctx.discarded += 1
                continue
            ctx.problem('correspondence-break', 'emd/sift.py:get_padded_extrema', 'pad-rounds oracle: the stage raised %s: %s'
                        % (type(e).__name__, str(e)[:200]), input=inp, theorem='harness/props/c06.py:ref_padded_extrema')
            continue
        custom = inp['mag_pad_opts'] is not None or inp['loc_pad_opts'] is not None
        ctx.count(('pad-rounds', json.dumps(inp, sort_keys=True)), rounds >= 2 and custom, 'pad-rounds/%s/rounds=%s' % (inp['level'], min(rounds, 5)))
        hist[rounds] = hist.get(rounds, 0) + 1
        nontrivial += rounds >= 2 and custom
        if v == 'identical':
            ctx.exact_cmp += 1
        elif v == 'close':
            ctx.tol_cmp += 1
        else:
            if inp['level'] == 'stage':
                failed_stage.add(okey)
                site = 'emd/sift.py:get_padded_extrema'
            elif okey in failed_stage or inp['level'] == 'envelope':
                site = 'emd/sift.py:get_padded_extrema' if okey in failed_stage else 'emd/sift.py:interp_envelope'
            else:
                site = 'emd/sift.py:sift'
            what = {'stage': 'get_padded_extrema does not pad with the supplied np.pad options in every padding round (%d rounds needed)',
                    'envelope': 'interp_envelope differs from the envelope through extrema padded with the supplied np.pad options (%d rounds)',
                    'sift': 'sift differs from the same sift over extrema padded with the supplied np.pad options in every round (%d rounds in the first call)'}
            ctx.problem('impl-violation', site, what[inp['level']] % rounds, input=inp, observed=detail, expected='identical to the reference',
                        tags=dict(check='pad-rounds', level=inp['level']))
    ctx.extra['pad_rounds_histogram'] = {str(k): v for k, v in sorted(hist.items())}
    if not nontrivial:
        ctx.problem('correspondence-break', 'harness:pad-rounds', 'no case of the pad-rounds oracle needed two padding rounds',
                    theorem='harness/props/c06.py:burst_params')
    ctx.notes.append('pad-rounds oracle: %d comparisons, %d with custom np.pad options and >= 2 padding rounds' % (len(todo), nontrivial))


# --------------------------------------------------------------------------- model side
def coq_case(case, sites=0):
    u = case['u']
    return '(%d%%Z, %s, %s, (%s, %s, %s))' % (sites, VCOQ[case['variant']], RCOQ[case['route']],
                                            coq_tree(u['imf_opts']), coq_tree(u['envelope_opts']), coq_tree(u['extrema_opts']))


def split_records(z):
    """Options.enc_calls output -> set of record tuples (code, encoded kwargs...)"""
    out, i = set(), 0
    while i < len(z):
        n = z[i]
        out.add(tuple(z[i + 1:i + 1 + n]))
        i += 1 + n
    return out


def impl_records(res):
    return {tuple([code] + enc_tree(kw)) for code, kw, _, _ in res['records']}


def show(recs):
    return sorted(([SNAME.get(r[0], str(r[0])), plain(decode(list(r[1:])))] for r in recs), key=repr)[:12]


def make_cases(ctx):
    quick = ctx.quick()
    opts = option_cases(N)
    if quick:
        opts = opts[:14]
    signals = [0] if quick else [0, 1, 2, 3]
    procs = (1, 3) if quick else (1, 2, 3, 4)
    cases = []
    for sig in signals:
        for v in VARIANTS:
            for oname, u in opts:
                nested = any(isinstance(x, dict) for b in BUNDLES for x in (u[b] or {}).values())
                def add(r, style, npc, history='fresh'):
                    cases.append(dict(id='%d' % len(cases), variant=v, route=r, nproc=npc, signal=sig, oname=oname, style=style,
                                      history=history, decoys=True, u={b: canon(u[b]) for b in BUNDLES}))
                for r in ROUTES:
                    # get_func histories (not for mask_sift_second_layer, which has no get_func): with one process the partial is
                    # asked for once BEFORE the options are supplied and again afterwards; otherwise the config is filled first
                    early = r == 'partial' and v != 'mask_sift_second_layer'
                    # a dictionary-valued option can be put into a SiftConfig whole or entry by entry: both are run
                    for style in (('assign', 'path') if nested and r != 'keyword' else ('assign',)):
                        for npc in (procs if v in POOLED else (1,)):
                            add(r, style, npc, 'early' if early and npc == 1 else 'fresh')
                    if r == 'keyword' and u['envelope_opts']:
                        add(r, 'assign', 1, 'reused')
                    if early:
                        add(r, 'index', 1, 'early')
                        if v not in POOLED:
                            add(r, 'assign', 1, 'fresh')
                        if oname == 'all':
                            add(r, 'bundle', 1, 'early')
    return cases, dict(variants=VARIANTS, option_cases=[o for o, _ in opts], routes=ROUTES, nprocesses=list(procs),
                       signals=signals, samples=N)


def slim(case):
    out = {k: case[k] for k in ('variant', 'route', 'nproc', 'signal', 'oname', 'u', 'style', 'history', 'decoys') if k in case}
    u = {b: build(case['u'][b]) for b in BUNDLES}
    name = {'sift_second_layer': 'sift', 'mask_sift_second_layer': 'mask_sift'}.get(case['variant'], case['variant'])
    out['sequence'] = ['D0 = get_config(%r); set every option of D0 to %r (np.pad dicts entry by entry)' % (name, decoy_options(u)),
                       'A = get_config(%r); %sset on A: %r (%s)'
                       % (name, 'A.get_func() called once and thrown away; THEN ' if case.get('history') == 'early' else '',
                          {b: u[b] for b in BUNDLES if u[b]},
                          {'path': 'slash key paths, dictionary options entry by entry through bundle/option/key paths',
                           'index': "nested indexing A['bundle']['key'] = value", 'bundle': "A['bundle'] = merged dictionary"}
                          .get(case.get('style'), "slash key paths A['bundle/key'] = value")),
                       'D1 = get_config(%r), D2 = get_config(%r); configured like D0' % (name, other_variant(name)),
                       'run %s with A by the %s route (keyword: the dictionaries directly, A unused; partial: the result of A.get_func() '
                       'asked for now)' % (case['variant'], case['route'])]
    if case.get('history') == 'reused':
        out['sequence'].insert(0, 'emd.sift.sift(x[:64], max_imfs=1, imf_opts=I, envelope_opts=E, extrema_opts=%r) with the SAME dictionary objects '
                               'I, E that the run below is handed' % warm_extrema(u))
    return out


def run(ctx):
    ctx.rule = ('grid: sift variant (sift, ensemble_sift, complete_ensemble_sift, mask_sift, sift_second_layer, mask_sift_second_layer) x '
                'option case (nothing, three empty dicts, one non-default value for each of stop_method, env_step_size, sd_thresh, '
                'rilling_thresh, max_iters, energy_thresh, interp_method, pad_width, parabolic_extrema, loc_pad_opts, mag_pad_opts, and '
                'all of them at once; thorough adds pchip and the fixed stop rule) x route (keyword dicts, SiftConfig unpacking, get_func '
                'partial, and for the second-layer sift a default get_func() partial TOGETHER WITH keyword dictionaries; np.pad dictionaries assigned whole and edited entry by entry; keyword dictionaries fresh, or used a moment before in a plain sift with other extrema options) x nprocesses, on %d-sample signals; before and after the '
                'configuration under test is set up, decoy SiftConfigs (same and another variant) are given different values for every '
                'option and never run.  A case is the real call under recording wrappers; it is non-trivial when '
                'all five stage calls (get_next_imf, interp_envelope upper/lower, get_padded_extrema peaks/troughs) were recorded and, for '
                'the pooled variants, at least one of them inside a worker process.' % N)
    ctx.proof(extra=['props/Prop_Tie_Options.v', 'props/Prop_Tie_Parab.v', 'props/Prop_Tie_Sift.v'])  # translation tie: program regenerated from the source + refinement theorems
    cases, grid = make_cases(ctx)
    ctx.extra['grid'] = grid
    # the energy threshold's stop verdict must take effect (oracle only)
    for site, detail, inp in energy_effect_fails()[:1]:
        ctx.problem('impl-violation', site, detail, input=inp, tags=dict(variant='sift', route=inp['route'], option='energy_thresh'))
    ctx.hist['energy-threshold-effect-runs'] += 6
    # mixed delivery route of the second-layer sift (oracle only)
    mopts = option_cases(N)
    for site, detail, inp in mixed_route_fails(mopts if not ctx.quick() else mopts[:14])[:1]:
        ctx.problem('impl-violation', site, detail, input=inp, tags=dict(variant='sift_second_layer', route='partial+keyword'))
    ctx.hist['mixed-route-option-cases'] += len(mopts if not ctx.quick() else mopts[:14])
    # model: one evaluation per (variant, route, options) - nprocesses and the signal are not inputs of the plumbing
    mkeys, mlits = {}, []
    for c in cases:
        k = (c['variant'], c['route'], c['oname'])
        if k not in mkeys:
            mkeys[k] = len(mlits)
            mlits.append(coq_case(c))
    mouts = ctx.model_outputs(IMPORTS, mlits, 'calls_h', shard=max(8, (len(mlits) + 11) // 12))
    model = {k: set(mouts[i]) for k, i in mkeys.items()}
    results = run_cases(cases, ctx.work, nworkers=12 if ctx.quick() else 14)
    workers_seen, pipe = 0, {}
    viol, breaks = {}, []
    for c in cases:
        r = results[c['id']]
        key = (c['variant'], c['route'], c['nproc'], c['oname'], c['signal'], c.get('style'), c.get('history'))
        if r['status'] == 'timeout':
            ctx.discarded += 1
            ctx.notes.append('timeout (discarded): %s' % (key,))
            continue
        recs = impl_records(r)
        got = {common.hashL(x) for x in recs}
        want = model[(c['variant'], c['route'], c['oname'])]
        codes = {x[0] for x in recs}
        in_worker = any(w for _, _, _, w in r['records'])
        nontrivial = {1, 2, 3, 5, 6} <= codes and (in_worker or c['variant'] not in POOLED)
        ctx.count(key, nontrivial, '%s/%s' % (c['variant'], c['route']))
        workers_seen += r['workers']
        pipe[r['pipeline']] = pipe.get(r['pipeline'], 0) + 1
        if r['pipeline'] == 'identical':
            ctx.exact_cmp += 1
        elif r['pipeline'] == 'close':
            ctx.tol_cmp += 1
        if c['oname'] == 'all':
            ctx.sample(dict(variant=c['variant'], route=c['route'], nprocesses=c['nproc'], options={b: plain(c['u'][b]) for b in BUNDLES},
                            distinct_stage_records=len(recs), worker_processes=r['workers']))
        fails = oracle(c, r)
        for site, what, obs, exp in fails:
            viol.setdefault(site, []).append((c, what, obs, exp))
        if r['status'].startswith('raised EMDSiftCovergeError'):
            # a legitimate outcome of sifting noisy data (the ensembles draw fresh noise): the calls made so far were judged by
            # the oracle above, the set of records may be incomplete and is not compared with the model
            ctx.discarded += 1
            ctx.notes.append('no convergence (records judged by the oracle only): %s' % (key,))
        elif r['status'] != 'ok':
            if not fails:
                breaks.append((c, 'the call raised where the model makes stage calls: ' + r['status'], r['status'], None, None))
        elif got == want:
            ctx.exact_cmp += 1
        elif not fails:
            breaks.append((c, 'recorded stage calls differ from the model (no supplied option was lost)', None, recs, want))
    for site, lst in sorted(viol.items()):
        c, what, obs, exp = lst[0]
        ctx.problem('impl-violation', site, what + ' [%d grid cases fail at this site]' % len(lst), input=slim(c), observed=obs,
                    expected=exp, tags=dict(variant=c['variant'], route=c['route'], option=c['oname']))
    bad_variants = {c['variant'] for lst in viol.values() for c, _, _, _ in lst}
    todo = [b for b in breaks if b[0]['variant'] not in bad_variants][:6]
    full = ctx.model_outputs(IMPORTS, [coq_case(b[0]) for b in todo if b[3] is not None], 'calls_c') if any(b[3] is not None for b in todo) else []
    fi = 0
    for c, what, status, recs, want in todo:
        if recs is None:
            obs, exp = status, None
        else:
            m = split_records(full[fi])
            fi += 1
            obs, exp = show(recs - m), show(m - recs)
        ctx.problem('correspondence-break', 'emd/sift.py:' + c['variant'], what, input=slim(c), observed=obs, expected=exp,
                    theorem='Options.calls vs emd.sift.%s' % c['variant'])
    if breaks:
        ctx.notes.append('%d grid cases where the recorded calls differ from the model' % len(breaks))
    pad_rounds_oracle(ctx)
    ctx.exhaustive = True
    ctx.extra['worker_processes_observed'] = workers_seen
    ctx.extra['hand_assembled_pipeline'] = pipe
    ctx.extra['violations_by_site'] = {k: len(v) for k, v in viol.items()}
    ctx.notes.append('model evaluations: %d distinct (variant, route, options); implementation runs: %d' % (len(mlits), len(cases)))


def _replay_mixed(i):
    f = mixed_route_fails([o for o in option_cases(N) if o[0] == i['mixed_route']], i.get('signal', 0))
    print(f[:1])
    return bool(f)


def replay(rec):
    """Re-run the recorded sequence (decoy configurations, configuration style, variant, options, route, nprocesses, signal):
    True iff the same site still loses the option."""
    import tempfile
    if rec['input'].get('energy_effect'):
        f = energy_effect_fails()
        print(f[:1])
        return bool(f)
    if 'mixed_route' in rec['input']:
        return _replay_mixed(rec['input'])
    if rec['input'].get('check') == 'pad-rounds':
        import emd.sift as S
        v, rounds, detail = pad_case(S, rec['input'])
        print('  pad-rounds %s: %s after %d padding rounds %s' % (rec['input']['level'], v, rounds, str(detail)[:300]))
        return v == 'differ'
    c = dict(rec['input'])
    c['id'] = 'replay'
    os.environ.setdefault(common.GUARD, '1')
    with tempfile.TemporaryDirectory() as d:
        r = run_case(c, d)
    fails = oracle(c, r)
    for site, what, obs, exp in fails[:5]:
        print('  %s: %s (observed %r, expected %r)' % (site, what, obs, exp))
    return any(site == rec.get('site') for site, _, _, _ in fails)


if __name__ == '__main__':
    if len(sys.argv) == 3 and sys.argv[1] == '--drive':
        drive(sys.argv[2])
