"""C09 - instantaneous phase, frequency and amplitude are consistent and accurate.   (PARTIAL: see below)

PROOF          coq/props/Prop_C09.v  (model: coq/model/Freq.v, facts: coq/proofs/FreqFacts.v)
CORRESPONDENCE (1) the model's twins of the library primitives against numpy/scipy themselves on integer / dyadic data,
               EXACT: np.gradient, np.cumsum, np.unwrap(period=8), scipy.signal.medfilt(., 5);
               (2) emd.spectra.freq_from_phase / phase_from_freq / emd.utils.wrap_phase on dyadic data against the model
               with tau := the rational value of the double 2*pi (tolerance 1e-9, the real code multiplies by 2*np.pi);
               (3) the quadrature sign rule, EXACT: sign bits of quadrature_transform's imaginary part vs the model's
               quad_mask evaluated on the amplitude-normalised signal the implementation itself produced;
               (4) the whole pipeline after the complex signal (unwrap, median smoothing, +pi/2, gradient, wrap):
               frequency_transform's IP and IF vs the model fed with the exact rational values of the angles of the complex
               signal (hilbert / nht / quad, smoothing on and off), tolerance 1e-9.
ORACLE         on the implementation only: shapes; 0 <= phase < 2*pi on every output; IF == sample_rate/(2 pi) * gradient of
               the unwrapped phase; scale invariance for c = 2^k (bit-exact, else 1e-9); freq -> phase -> freq round trip;
               IMF sets ending in a non-oscillatory residual column (ramp / trend / constant / zero, |values| > 1) next to
               sinusoid columns: finite phase in [0, 2pi), derivative, shapes, 2^k invariance (quad: oscillatory columns);
               accuracy sweep on pure sinusoids (methods x sample rates x frequencies x amplitudes x phases x 1-3 columns,
               interior 80 %).
PARTIAL        the accuracy clause is NOT proved (it is a statement about scipy's FFT Hilbert transform and the envelope
               interpolants); the sweep is a regression guard: tolerances are 3x the worst error measured on the tree the
               check was written against (ACC_WORST below, copied into the evidence).
"""
import sys
from fractions import Fraction

import numpy as np

import common

IMPORTS = 'From EmdV Require Import lib.NpLite model.Freq.'
TWOPI = 2 * np.pi
TAU = Fraction(TWOPI)
METHODS = ['hilbert', 'nht', 'quad']
SITE_RANGE = 'frequency_transform phase range'

# ---------------------------------------------------------------------------------------------- accuracy calibration
# worst interior error measured on the unchanged tree (python harness/props/c09.py --calibrate 36 3000: seeds 0..35, 3000
# cases each): key (method, family, band, metric) -> value.  family 'periodic' = whole number of cycles in the record, 'general' =
# any frequency with >= 8 cycles; band = samples per cycle of the column ('lo' >= 40, 'mid' >= 20, 'hi' >= 12).  metrics: f = |IF-f|/f, a = |IA-A|/A, p = circular |IP-phase| (rad); max / med over
# the interior 80 % of every column; fmean = |mean(IF) - f| / f over the interior.
ACC_WORST = {
    ('hilbert', 'general', 'hi', 'amax'): 0.03553, ('hilbert', 'general', 'hi', 'amed'): 0.004657, ('hilbert', 'general', 'hi', 'fmax'): 0.03343, ('hilbert', 'general', 'hi', 'fmean'): 0.0005156, ('hilbert', 'general', 'hi', 'fmed'): 0.004677, ('hilbert', 'general', 'hi', 'pmax'): 0.03539, ('hilbert', 'general', 'hi', 'pmed'): 0.004713,
    ('hilbert', 'general', 'lo', 'amax'): 0.09595, ('hilbert', 'general', 'lo', 'amed'): 0.01477, ('hilbert', 'general', 'lo', 'fmax'): 0.1094, ('hilbert', 'general', 'lo', 'fmean'): 0.004601, ('hilbert', 'general', 'lo', 'fmed'): 0.01485, ('hilbert', 'general', 'lo', 'pmax'): 0.1082, ('hilbert', 'general', 'lo', 'pmed'): 0.01417,
    ('hilbert', 'general', 'mid', 'amax'): 0.0649, ('hilbert', 'general', 'mid', 'amed'): 0.009365, ('hilbert', 'general', 'mid', 'fmax'): 0.06169, ('hilbert', 'general', 'mid', 'fmean'): 0.001628, ('hilbert', 'general', 'mid', 'fmed'): 0.009389, ('hilbert', 'general', 'mid', 'pmax'): 0.06371, ('hilbert', 'general', 'mid', 'pmed'): 0.008663,
    ('hilbert', 'periodic', 'hi', 'amax'): 2.076e-13, ('hilbert', 'periodic', 'hi', 'amed'): 1.413e-14, ('hilbert', 'periodic', 'hi', 'fmax'): 4.625e-13, ('hilbert', 'periodic', 'hi', 'fmean'): 2.807e-15, ('hilbert', 'periodic', 'hi', 'fmed'): 7.664e-14, ('hilbert', 'periodic', 'hi', 'pmax'): 2.274e-12, ('hilbert', 'periodic', 'hi', 'pmed'): 6.821e-13,
    ('hilbert', 'periodic', 'lo', 'amax'): 9.518e-14, ('hilbert', 'periodic', 'lo', 'amed'): 4.3e-15, ('hilbert', 'periodic', 'lo', 'fmax'): 5.033e-13, ('hilbert', 'periodic', 'lo', 'fmean'): 1.234e-15, ('hilbert', 'periodic', 'lo', 'fmed'): 6.547e-14, ('hilbert', 'periodic', 'lo', 'pmax'): 3.055e-13, ('hilbert', 'periodic', 'lo', 'pmed'): 8.527e-14,
    ('hilbert', 'periodic', 'mid', 'amax'): 1.516e-13, ('hilbert', 'periodic', 'mid', 'amed'): 9.432e-15, ('hilbert', 'periodic', 'mid', 'fmax'): 4.724e-13, ('hilbert', 'periodic', 'mid', 'fmean'): 2.053e-15, ('hilbert', 'periodic', 'mid', 'fmed'): 6.547e-14, ('hilbert', 'periodic', 'mid', 'pmax'): 9.095e-13, ('hilbert', 'periodic', 'mid', 'pmed'): 1.705e-13,
    ('nht', 'general', 'hi', 'amax'): 0.03405, ('nht', 'general', 'hi', 'amed'): 0.02708, ('nht', 'general', 'hi', 'fmax'): 0.03496, ('nht', 'general', 'hi', 'fmean'): 0.0005289, ('nht', 'general', 'hi', 'fmed'): 0.006008, ('nht', 'general', 'hi', 'pmax'): 0.03661, ('nht', 'general', 'hi', 'pmed'): 0.006133,
    ('nht', 'general', 'lo', 'amax'): 0.003077, ('nht', 'general', 'lo', 'amed'): 0.002666, ('nht', 'general', 'lo', 'fmax'): 0.1094, ('nht', 'general', 'lo', 'fmean'): 0.004602, ('nht', 'general', 'lo', 'fmed'): 0.01489, ('nht', 'general', 'lo', 'pmax'): 0.1081, ('nht', 'general', 'lo', 'pmed'): 0.01418,
    ('nht', 'general', 'mid', 'amax'): 0.01228, ('nht', 'general', 'mid', 'amed'): 0.01191, ('nht', 'general', 'mid', 'fmax'): 0.06172, ('nht', 'general', 'mid', 'fmean'): 0.00163, ('nht', 'general', 'mid', 'fmed'): 0.009401, ('nht', 'general', 'mid', 'pmax'): 0.06375, ('nht', 'general', 'mid', 'pmed'): 0.008674,
    ('nht', 'periodic', 'hi', 'amax'): 0.03381, ('nht', 'periodic', 'hi', 'amed'): 0.01918, ('nht', 'periodic', 'hi', 'fmax'): 0.005125, ('nht', 'periodic', 'hi', 'fmean'): 4.405e-05, ('nht', 'periodic', 'hi', 'fmed'): 0.002938, ('nht', 'periodic', 'hi', 'pmax'): 0.005313, ('nht', 'periodic', 'hi', 'pmed'): 0.002953,
    ('nht', 'periodic', 'lo', 'amax'): 0.003057, ('nht', 'periodic', 'lo', 'amed'): 0.003057, ('nht', 'periodic', 'lo', 'fmax'): 0.0005121, ('nht', 'periodic', 'lo', 'fmean'): 1.166e-05, ('nht', 'periodic', 'lo', 'fmed'): 0.0002715, ('nht', 'periodic', 'lo', 'pmax'): 0.0005202, ('nht', 'periodic', 'lo', 'pmed'): 0.0002675,
    ('nht', 'periodic', 'mid', 'amax'): 0.0123, ('nht', 'periodic', 'mid', 'amed'): 0.0123, ('nht', 'periodic', 'mid', 'fmax'): 0.001915, ('nht', 'periodic', 'mid', 'fmean'): 2.823e-05, ('nht', 'periodic', 'mid', 'fmed'): 0.0009324, ('nht', 'periodic', 'mid', 'pmax'): 0.001986, ('nht', 'periodic', 'mid', 'pmed'): 0.0008886,
    ('quad', 'general', 'hi', 'amax'): 0.03405, ('quad', 'general', 'hi', 'amed'): 0.02708, ('quad', 'general', 'hi', 'fmax'): 0.2899, ('quad', 'general', 'hi', 'fmean'): 0.001172, ('quad', 'general', 'hi', 'fmed'): 0.1581, ('quad', 'general', 'hi', 'pmax'): 0.2617, ('quad', 'general', 'hi', 'pmed'): 0.02965,
    ('quad', 'general', 'lo', 'amax'): 0.003077, ('quad', 'general', 'lo', 'amed'): 0.002666, ('quad', 'general', 'lo', 'fmax'): 0.2928, ('quad', 'general', 'lo', 'fmean'): 0.0009999, ('quad', 'general', 'lo', 'fmed'): 0.005271, ('quad', 'general', 'lo', 'pmax'): 0.07846, ('quad', 'general', 'lo', 'pmed'): 0.002507,
    ('quad', 'general', 'mid', 'amax'): 0.01228, ('quad', 'general', 'mid', 'amed'): 0.01191, ('quad', 'general', 'mid', 'fmax'): 0.2921, ('quad', 'general', 'mid', 'fmean'): 0.001322, ('quad', 'general', 'mid', 'fmed'): 0.02874, ('quad', 'general', 'mid', 'pmax'): 0.157, ('quad', 'general', 'mid', 'pmed'): 0.01211,
    ('quad', 'periodic', 'hi', 'amax'): 0.03381, ('quad', 'periodic', 'hi', 'amed'): 0.01918, ('quad', 'periodic', 'hi', 'fmax'): 0.2891, ('quad', 'periodic', 'hi', 'fmean'): 0.001309, ('quad', 'periodic', 'hi', 'fmed'): 0.2104, ('quad', 'periodic', 'hi', 'pmax'): 0.2608, ('quad', 'periodic', 'hi', 'pmed'): 0.02983,
    ('quad', 'periodic', 'lo', 'amax'): 0.003057, ('quad', 'periodic', 'lo', 'amed'): 0.003057, ('quad', 'periodic', 'lo', 'fmax'): 0.2929, ('quad', 'periodic', 'lo', 'fmean'): 0.0008437, ('quad', 'periodic', 'lo', 'fmed'): 0.006555, ('quad', 'periodic', 'lo', 'pmax'): 0.07821, ('quad', 'periodic', 'lo', 'pmed'): 0.003109,
    ('quad', 'periodic', 'mid', 'amax'): 0.0123, ('quad', 'periodic', 'mid', 'amed'): 0.0123, ('quad', 'periodic', 'mid', 'fmax'): 0.2919, ('quad', 'periodic', 'mid', 'fmean'): 0.0009506, ('quad', 'periodic', 'mid', 'fmed'): 0.02977, ('quad', 'periodic', 'mid', 'pmax'): 0.157, ('quad', 'periodic', 'mid', 'pmed'): 0.01253,
}
ACC_FLOOR = 1e-9
ACC_FACTOR = 3.0


def acc_tol(method, family, band, metric):
    return max(ACC_FLOOR, ACC_FACTOR * ACC_WORST[(method, family, band, metric)])


def acc_band(fs, f):
    """samples per cycle: 'lo' >= 40, 'mid' >= 20, 'hi' down to 12"""
    spc = fs / f
    return 'lo' if spc >= 40 else ('mid' if spc >= 20 else 'hi')


# ---------------------------------------------------------------------------------------------- literals
def fr(v):
    f = Fraction(v)
    return '[%s; %d]' % (common.zlit(f.numerator), f.denominator)


def frl(vs):
    if len(vs) == 0:
        return '(@nil (list Z))'      # an untyped [] cannot be inferred when it is the only element shape in a shard
    return '[' + '; '.join(fr(v) for v in vs) + ']'


def unq(flat):
    """[n1, d1, n2, d2, ...] -> list of Fractions."""
    return [Fraction(flat[i], flat[i + 1]) for i in range(0, len(flat), 2)]


def seed32(ctx, k):
    return (ctx.seed * 1000003 + k * 7919 + 9) % (2 ** 32)


def cdist(a, b):
    """circular distance on [0, 2pi)"""
    d = np.abs(np.asarray(a, dtype=float) - np.asarray(b, dtype=float)) % TWOPI
    return np.minimum(d, TWOPI - d)


# ---------------------------------------------------------------------------------------------- (1) library twins, exact
def gen_prims(ctx, n):
    out = []
    for i in range(n):
        op = [5, 6, 7, 8][i % 4]
        ln = ctx.rng.choice([0, 1, 2, 3, 4, 5, 6, 9, 14, 23])
        if op == 7:
            # quarter steps around multiples of half a period (tau = 8): exercises the boundary rule of np.unwrap
            vals = [ctx.rng.choice([ctx.rng.randint(-80, 80) / 4.0, 4.0 * ctx.rng.randint(-5, 5), ctx.rng.randint(-12, 12)])
                    for _ in range(ln)]
        else:
            vals = [ctx.rng.randint(-64, 64) / ctx.rng.choice([1.0, 2.0, 8.0]) for _ in range(ln)]
        out.append((op, vals))
    return out


def impl_prim(op, vals):
    from scipy import signal
    x = np.array(vals, dtype=float)
    try:
        if op == 5:
            r = np.gradient(x, axis=0)
        elif op == 6:
            r = np.cumsum(x, axis=0)
        elif op == 7:
            r = np.unwrap(x, axis=0, period=8.0)
        else:
            r = signal.medfilt(x, 5) if len(x) else x
    except ValueError:
        return None
    return [Fraction(float(v)) for v in np.asarray(r).reshape(-1)]


# ---------------------------------------------------------------------------------------------- (2) emd conversions
# fixed corpus: the float corner of the remainder (tiny negative phases, exact multiples of the double 2 pi)
CORPUS_WRAP = [-2.0 ** -62, -2.220446049250313e-16, -4.0e-16, -1e-300, 0.0, -0.0, TWOPI, -TWOPI, 2 * TWOPI,
               float(np.nextafter(TWOPI, 0)), float(np.nextafter(-TWOPI, 0)), 1.0, -1.0, 100.0]
# fixed corpus: sinusoids whose ascending zero crossing falls on sample k0 (fs, n, f, k0, method, smooth)
CORPUS_ZERO = [(100, 16, 7.0, 2, 'hilbert', 5), (100, 200, 7.0, 3, 'hilbert', None), (100, 200, 2.0, 5, 'nht', 5),
               (100, 256, 3.0, 0, 'nht', None), (100, 1024, 3.0, 0, 'hilbert', None), (250, 500, 5.0, 4, 'quad', 5)]


def gen_conv(ctx, n):
    out = [(2, 1.0, 0.0, list(CORPUS_WRAP))]
    for i in range(n):
        op = i % 3
        ln = ctx.rng.choice([0, 1, 2, 3, 4, 7, 12, 30]) if op != 2 else ctx.rng.randint(1, 12)
        sr = ctx.rng.choice([1.0, 2.0, 0.5, 128.0, 250.0, 1000.0, 44100.0])
        ps = ctx.rng.choice([-np.pi, 0.0, 1.5, -0.25])
        if op == 0:      # unwrapped phases: increasing, decreasing, rough
            step = ctx.rng.choice([0.25, 0.5, -0.125, 3.0])
            vals, v = [], ctx.rng.randint(-8, 8) / 4.0
            for _ in range(ln):
                vals.append(v)
                v += step * ctx.rng.choice([1, 1, 1, 2, -1]) + ctx.rng.randint(-4, 4) / 64.0
        elif op == 1:    # frequency profiles
            vals = [ctx.rng.randint(0, 4 * 64) / 64.0 * ctx.rng.choice([1, 1, 10]) for _ in range(ln)]
        else:            # phases to wrap: dyadic, exact multiples of the double 2 pi and their float neighbours, tiny values
            vals = []
            for _ in range(ln):
                k = ctx.rng.choice([0, 1, 2])
                if k == 0:
                    vals.append(ctx.rng.randint(-3000, 3000) / 64.0)
                elif k == 1:
                    b = float(ctx.rng.randint(-6, 6) * TWOPI)
                    for _j in range(ctx.rng.randint(0, 3)):
                        b = float(np.nextafter(b, ctx.rng.choice([-np.inf, np.inf])))
                    vals.append(b)
                else:
                    vals.append(ctx.rng.choice([-1, 1]) * 2.0 ** (-ctx.rng.randint(40, 70)))
        out.append((op, sr, ps, vals))
    return out


def impl_conv(op, sr, ps, vals):
    from emd import spectra, utils
    x = np.array(vals, dtype=float)
    try:
        if op == 0:
            r = spectra.freq_from_phase(x, sr)
        elif op == 1:
            r = spectra.phase_from_freq(x, sr) if ps == -np.pi else spectra.phase_from_freq(x, sr, phase_start=ps)
        else:
            r = utils.wrap_phase(x)
    except ValueError:
        return None
    return np.asarray(r, dtype=float).reshape(-1)


def conv_oracle(op, sr, ps, vals, r):
    """The property clauses that can be stated on these functions alone (no model)."""
    x = np.array(vals, dtype=float)
    if r is None:
        return None
    if len(r) != len(x):
        return 'output has %d samples for %d inputs' % (len(r), len(x))
    if op == 2:
        if not np.all((r >= 0) & (r < TWOPI)):
            k = int(np.where(~((r >= 0) & (r < TWOPI)))[0][0])
            return 'wrap_phase(%r) = %r is outside [0, 2pi)' % (float(x[k]), float(r[k]))
        if np.any(cdist(r, x % TWOPI) > 1e-9):
            return 'wrap_phase is not congruent to its input modulo 2 pi'
    if op == 0 and len(x) >= 2:
        exp = np.gradient(x) * sr / TWOPI
        if np.any(np.abs(r - exp) > 1e-9 * (np.abs(exp).max() + 1)):
            return 'freq_from_phase is not sample_rate/(2 pi) * gradient(phase)'
    return None


# ---------------------------------------------------------------------------------------------- signals
def imf_like(rs, n, kind):
    """An oscillatory test column of n samples."""
    t = np.arange(n)
    if kind == 'sin':
        return rs.uniform(0.3, 3) * np.cos(TWOPI * rs.uniform(2.5, n / 12.0) * t / n + rs.uniform(0, TWOPI))
    if kind == 'amfm':
        f0 = rs.uniform(3, n / 16.0)
        ph = TWOPI * f0 * t / n + rs.uniform(0.2, 1.0) * np.sin(TWOPI * rs.uniform(0.5, 2) * t / n) + rs.uniform(0, TWOPI)
        return (1 + 0.4 * np.sin(TWOPI * rs.uniform(0.5, 1.5) * t / n + rs.uniform(0, 6))) * np.cos(ph)
    if kind == 'zero':      # an ascending zero crossing exactly on sample k0 of the first cycle
        k0 = int(rs.randint(0, 12))
        return np.sin(TWOPI * rs.choice([2, 3, 5, 7]) * (t - k0) / rs.choice([100, 128, 250])) * rs.choice([1.0, 2.0, 0.5])
    # band-limited noise: sum of a few neighbouring tones
    f0 = rs.uniform(4, n / 14.0)
    x = np.zeros(n)
    for _ in range(4):
        x += rs.uniform(0.3, 1) * np.cos(TWOPI * f0 * rs.uniform(0.85, 1.15) * t / n + rs.uniform(0, TWOPI))
    return x


def complex_signal(x2d, method):
    """The complex signal of each branch, from the same library / emd calls frequency_transform makes (oracle answers)."""
    from scipy import signal
    from emd import spectra, utils
    if method == 'hilbert':
        return signal.hilbert(x2d, axis=0)
    if method == 'nht':
        return signal.hilbert(utils.amplitude_normalise(x2d), axis=0)
    return spectra.quadrature_transform(x2d)


def call_ft(x2d, sr, method, smooth):
    from emd import spectra
    with common.time_limit(60):
        return spectra.frequency_transform(x2d, sr, method, smooth_phase=smooth)


# ---------------------------------------------------------------------------------------------- oracle pieces
SITE_NAN = 'frequency_transform non-finite phase'


def range_fail(IP):
    bad = ~((IP >= 0) & (IP < TWOPI))
    if np.any(bad):
        k = np.argwhere(bad)[0]
        return 'phase[%s] = %r is outside [0, 2pi) (2pi = %r)' % (k.tolist(), float(IP[tuple(k)]), TWOPI)
    return None


def derivative_fail(IP, IF, sr):
    """IF == sr/(2 pi) * gradient(U), U recovered from the returned phase, column by column (clean signals: |steps| << pi)."""
    for j in range(IP.shape[1]):
        U = np.unwrap(IP[:, j])
        d = np.abs(np.diff(U))
        if d.size and d.max() > 2.5:
            continue           # not a clean advancing phase: U cannot be recovered from IP; nothing demanded of this column
        exp = np.gradient(U) * sr / TWOPI
        err = np.abs(IF[:, j] - exp)
        tol = 1e-9 * (np.abs(exp).max() + sr)
        if not np.all(err <= tol):          # written so that a nan frequency fails
            k = int(np.argwhere(~(err <= tol))[0][0])
            return 'IF[%d, %d] = %r but sample_rate/(2 pi) * gradient(unwrapped phase) = %r' % (k, j, float(IF[k, j]), float(exp[k]))
    return None


def oracle_ft(x2d, sr, method, smooth):
    """shapes, range, derivative on one call; returns (site, message) or None."""
    try:
        IP, IF, IA = call_ft(x2d, sr, method, smooth)
    except Exception as e:
        return ('frequency_transform', 'raised %s: %s' % (type(e).__name__, e))
    for nm, a in (('phase', IP), ('frequency', IF), ('amplitude', IA)):
        if np.shape(a) != x2d.shape:
            return ('frequency_transform shapes', '%s has shape %s for an input of shape %s' % (nm, np.shape(a), x2d.shape))
    if np.all(np.isfinite(x2d)) and not np.all(np.isfinite(IP)):
        k = np.argwhere(~np.isfinite(IP))[0]
        return (SITE_NAN, 'phase[%s] = %r for a finite input column: not a phase in [0, 2pi)' % (k.tolist(), float(IP[tuple(k)])))
    m = range_fail(IP)
    if m:
        return (SITE_RANGE, m)
    m = derivative_fail(IP, IF, sr)
    if m:
        return ('frequency_transform derivative', m)
    return None


def scale_fail(x2d, sr, method, smooth, k, cols=None):
    """c = 2^k: phase and frequency unchanged, amplitude times c, on the columns `cols` (default all)."""
    c = 2.0 ** k
    a = call_ft(x2d, sr, method, smooth)
    b = call_ft(x2d * c, sr, method, smooth)
    if cols is not None:
        a = [v[:, cols] for v in a]
        b = [v[:, cols] for v in b]
    exact = np.array_equal(a[0], b[0]) and np.array_equal(a[1], b[1]) and np.array_equal(a[2] * c, b[2], equal_nan=True)
    if exact:
        return None, True
    if not np.all(cdist(a[0], b[0]) <= 1e-9):
        return 'phase changes under rescaling by 2^%d: max circular difference %.3g' % (k, np.nanmax(cdist(a[0], b[0]))), False
    if not np.all(np.abs(a[1] - b[1]) <= 1e-9 * (np.abs(a[1]).max() + 1)):
        return 'frequency changes under rescaling by 2^%d: max difference %.3g' % (k, np.nanmax(np.abs(a[1] - b[1]))), False
    if not np.allclose(a[2] * c, b[2], rtol=1e-9, atol=0, equal_nan=True):
        return 'amplitude does not scale by 2^%d' % k, False
    return None, False


# ---------------------------------------------------------------------------------------------- IMF sets with a residual
# What the unchanged code returns for a non-oscillatory column (monotone ramp, slow trend, constant, zero - the residual
# at the end of a sift) was established first: for all three methods phase and frequency are finite, the phase lies in
# [0, 2pi) and IF is the scaled gradient of the unwrapped phase; the amplitude is finite for 'hilbert' and nan for
# 'nht'/'quad' (no upper envelope).  Phase/frequency are invariant under 2^k for 'hilbert' and 'nht'; for 'quad' a column
# without an envelope is only clipped, not normalised, so the invariance is demanded of the oscillatory columns only
# (the guard of Prop_C09.scale_invariance).
NONOSC = ['ramp', 'negramp', 'trend', 'const', 'const_small', 'zero', 'cross', 'hump']


def nonosc_column(rs, n, kind):
    t = np.arange(n) / float(n)
    if kind == 'ramp':
        return rs.uniform(1.1, 3) + rs.uniform(0.5, 6) * t
    if kind == 'negramp':
        return -(rs.uniform(1.1, 3) + rs.uniform(0.5, 6) * t)
    if kind == 'trend':
        return rs.choice([-1, 1]) * (rs.uniform(1.2, 4) + rs.uniform(0.2, 2) * t ** 2)
    if kind == 'const':
        return np.full(n, rs.choice([-1, 1]) * rs.uniform(1.5, 20))
    if kind == 'const_small':
        return np.full(n, rs.uniform(0.05, 0.9))
    if kind == 'zero':
        return np.zeros(n)
    if kind == 'cross':
        return -rs.uniform(1.5, 3) + rs.uniform(4, 8) * t          # monotone through zero, beyond +-1 at both ends
    return rs.uniform(1.5, 4) * np.sin(np.pi * t) + rs.uniform(0.1, 1.2)   # a single hump: one maximum, no envelope


def gen_mixed(rs, i):
    """1-3 columns, at least one of them non-oscillatory, sinusoid-like IMFs first (the layout of a sift output)."""
    n = int(rs.choice([64, 128, 256, 500]))
    ncol = int(rs.randint(1, 4))
    nres = 1 if (ncol == 1 or rs.rand() < 0.8) else 2
    cols, non = [], []
    for j in range(ncol):
        if j >= ncol - nres:
            cols.append(nonosc_column(rs, n, NONOSC[(i + j) % len(NONOSC)]))
            non.append(j)
        else:
            cols.append(imf_like(rs, n, ['sin', 'amfm', 'noise'][int(rs.randint(0, 3))]))
    return np.array(cols).T, non


def mixed_fail(x, non, sr, method, smooth, k):
    """(site, message) or None; property clauses only."""
    r = oracle_ft(x, sr, method, smooth)
    if r:
        return r
    cols = [j for j in range(x.shape[1]) if not (method == 'quad' and j in non)]
    if cols:
        msg, _ = scale_fail(x, sr, method, smooth, k, cols=cols)
        if msg:
            return ('frequency_transform scale invariance', '%s: %s' % (method, msg))
    return None


def roundtrip_fail(f, sr):
    from emd import spectra
    ph = spectra.phase_from_freq(f, sr)
    F = spectra.freq_from_phase(ph, sr)
    if F.shape != f.shape:
        return 'round trip changes the shape %s -> %s' % (f.shape, F.shape)
    f = np.asarray(f, dtype=float)          # the profile's values (it may be handed over integer-typed)
    exp = np.empty_like(f)
    exp[1:-1] = (f[1:-1] + f[2:]) / 2
    exp[0], exp[-1] = f[1], f[-1]
    # cancellation in the difference of large phases: eps * |phase| * sr / (2 pi)
    tol = 1e-9 * np.abs(f).max() + 64 * np.finfo(float).eps * np.abs(ph).max() * sr / TWOPI
    err = np.abs(F - exp)
    if np.any(err > tol):
        k = int(np.argmax(err))
        return 'freq->phase->freq at sample %d gives %r, expected (f[k]+f[k+1])/2 = %r (tolerance %.3g)' % (k, float(F[k]), float(exp[k]), tol)
    return None


# ---------------------------------------------------------------------------------------------- accuracy sweep
FS = [100, 128, 250, 256, 500, 512, 1000, 1024]
NS = [512, 1000, 1024, 2000]


def gen_acc_case(rs):
    fs = int(rs.choice(FS))
    n = int(rs.choice(NS))
    family = 'periodic' if rs.rand() < 0.5 else 'general'
    ncol = int(rs.randint(1, 4))
    cols = []
    for _ in range(ncol):
        if family == 'periodic':
            m = int(rs.randint(5, n // 12 + 1))
            f = m * fs / n
        else:
            f = float(np.exp(rs.uniform(np.log(8.0 * fs / n), np.log(fs / 12.0))))
        cols.append((f, float(10 ** rs.uniform(-1.5, 1.5)), float(rs.uniform(0, TWOPI))))
    return dict(fs=fs, n=n, family=family, cols=cols, smooth=(5 if rs.rand() < 0.75 else None))


def acc_signal(case):
    t = np.arange(case['n']) / case['fs']
    return np.array([A * np.cos(TWOPI * f * t + p) for f, A, p in case['cols']]).T


def acc_errors(case, method):
    """per column: (band, {metric: error}) over the interior 80 %."""
    x = acc_signal(case)
    n, fs = case['n'], case['fs']
    IP, IF, IA = call_ft(x, fs, method, case['smooth'])
    lo, hi = int(np.ceil(0.1 * n)), int(np.floor(0.9 * n))
    t = np.arange(n) / fs
    out = []
    for j, (f, A, p) in enumerate(case['cols']):
        ef = np.abs(IF[lo:hi, j] - f) / f
        ea = np.abs(IA[lo:hi, j] - A) / A
        ep = cdist(IP[lo:hi, j], (TWOPI * f * t[lo:hi] + p + np.pi / 2) % TWOPI)
        e = {}
        for key, v in (('f', ef), ('a', ea), ('p', ep)):
            e[key + 'max'] = float(np.max(v))
            e[key + 'med'] = float(np.median(v))
        e['fmean'] = float(abs(np.mean(IF[lo:hi, j]) - f) / f)
        out.append((acc_band(fs, f), e))
    return out


def acc_fail(case, method):
    cols = acc_errors(case, method)
    for j, (band, e) in enumerate(cols):
        for metric, v in e.items():
            tol = acc_tol(method, case['family'], band, metric)
            if not (v <= tol):
                what = {'f': 'relative frequency error', 'a': 'relative amplitude error', 'p': 'phase error (rad)'}[metric[0]]
                how = {'max': 'max', 'med': 'median', 'mean': 'error of the mean -'}[metric[1:]]
                return ('%s, %s record, column %d (%.1f samples per cycle): %s %s over the interior = %.4g exceeds the regression '
                        'tolerance %.4g (3 x worst %.4g measured on the reference tree)'
                        % (method, case['family'], j, case['fs'] / case['cols'][j][0], how, what, v, tol,
                           ACC_WORST[(method, case['family'], band, metric)])), cols
    return None, cols


# ---------------------------------------------------------------------------------------------- check
def run(ctx):
    from emd import spectra, utils
    q = ctx.quick()
    ctx.level = 'proof'
    ctx.extra['partial'] = 'the accuracy clause (recovery of frequency, amplitude and phase of a sampled sinusoid within tolerance) is NOT proved; it is watched by the oracle sweep only'
    ctx.rule = ('PARTIAL: shapes, phase range, IF = sr/(2pi) gradient(U) with IP = wrap U, unwrap/wrap facts, round trip, linear phase, '
                'median smoothing and scale invariance are proved for all inputs over exact rationals (oracle contracts for '
                'scipy.signal.hilbert, np.angle, np.abs, envelopes are trusted premises); the ACCURACY clause on sampled sinusoids is '
                'NOT proved - it is watched by the oracle sweep only, as a regression guard at 3x the error measured on the reference '
                'tree.  Correspondence: library twins (gradient, cumsum, unwrap, medfilt) exact on dyadic data of length 0..23; '
                'freq_from_phase / phase_from_freq / wrap_phase (dyadic data, float neighbours of multiples of 2pi, tiny values) with '
                'tau = rational value of the double 2pi, tolerance 1e-9; quadrature sign rule exact on integer waveforms; pipeline '
                'trace (angles of the implementation\'s complex signal -> model IP, IF) on sinusoids, AM-FM, band-limited noise and '
                'zero-crossing-on-a-sample signals of 24..96 samples x 3 methods x smoothing on/off.  Non-trivial = at least one '
                'interior sample / one phase wrap / both signs in the mask / every accuracy, scaling and round-trip case.')
    ctx.notes.append('accuracy of the estimates on a sampled sinusoid is a statement about scipy\'s FFT Hilbert transform and the '
                     'envelope interpolants: NOT proved, watched by the oracle sweep only (regression guard)')
    ctx.notes.append('emd conversions are compared with tolerance (the code multiplies by the double 2*pi); exact comparisons are '
                     'the numpy/scipy primitives on dyadic data, the quadrature sign rule, shapes and the phase range')
    import time as _time
    _t = [_time.time()]
    timing = ctx.extra.setdefault('timing_s', {})

    def lap(name):
        timing[name] = round(_time.time() - _t[0], 1)
        _t[0] = _time.time()
    ctx.proof(extra=['props/Prop_Tie_Freq.v', 'props/Prop_Tie_Rest.v', 'props/Prop_Tie_Util.v'])  # translation tie: program regenerated from the source + refinement theorems
    lap('proof')
    rs = np.random.RandomState(seed32(ctx, 1))
    bad = None          # first correspondence disagreement (site, input, observed, expected)
    reported = set()

    def violation(site, what, inp, tags=None):
        if site in reported:
            return
        reported.add(site)
        ctx.problem('impl-violation', site, what, input=inp, tags=tags or {})

    # ---- (1) library twins, exact
    prims = gen_prims(ctx, 240 if q else 4000)
    mo = ctx.model_outputs(IMPORTS, ['(%d, %s)' % (op, frl(v)) for op, v in prims],
                           'fun c => run_freq (fst c) [8; 1] [1; 1] [1; 1] (snd c)', shard=400)
    names = {5: 'np.gradient', 6: 'np.cumsum', 7: 'np.unwrap', 8: 'scipy.signal.medfilt'}
    for (op, vals), m in zip(prims, mo):
        r = impl_prim(op, vals)
        ctx.count(('prim', op, tuple(vals)), len(vals) >= 3, names[op])
        ctx.exact_cmp += 1
        exp = None if m == [-2] else unq(m)
        if r != exp and bad is None:
            bad = ('Freq twin of %s' % names[op], dict(op=op, values=vals), None if r is None else [float(v) for v in r],
                   None if exp is None else [float(v) for v in exp])
    ctx.sample(dict(primitive=names[prims[2][0]], values=prims[2][1]))

    lap('twins')
    # ---- (2) emd conversions vs model (tolerance), with the function-level oracle
    conv = gen_conv(ctx, 300 if q else 5000)
    mo = ctx.model_outputs(IMPORTS, ['(%d, %s, %s, %s)' % (op, fr(sr), fr(ps), frl(v)) for op, sr, ps, v in conv],
                           "fun c => let '(op, a, b, l) := c in run_freq op %s a b l" % fr(TWOPI), shard=40)
    cname = {0: 'freq_from_phase', 1: 'phase_from_freq', 2: 'wrap_phase'}
    for (op, sr, ps, vals), m in zip(conv, mo):
        r = impl_conv(op, sr, ps, vals)
        nontriv = (len(vals) >= 3) if op != 2 else any(v < 0 or v >= TWOPI for v in vals)
        ctx.count(('conv', op, sr, ps, tuple(vals)), nontriv, cname[op])
        ctx.tol_cmp += 1
        inp = dict(function=cname[op], sample_rate=sr, phase_start=ps, values=[float(v).hex() for v in vals])
        msg = conv_oracle(op, sr, ps, vals, r)
        if msg:
            violation(cname[op] if op != 2 else 'wrap_phase range', msg, inp, tags=dict(corner='wrap-2pi') if op == 2 else None)
            continue
        exp = None if m == [-2] else np.array([float(v) for v in unq(m)])
        if (r is None) != (exp is None):
            ok = False
        elif r is None:
            ok = True
        elif len(r) != len(exp):
            ok = False
        elif op == 2:
            ok = bool(np.all(cdist(r, exp) <= 1e-9))
        else:
            ok = bool(np.all(np.abs(r - exp) <= 1e-9 * (np.abs(exp).max() + 1))) if len(exp) else True
        if not ok and bad is None:
            bad = ('Freq.%s vs emd %s' % (cname[op], cname[op]), inp, None if r is None else r.tolist(),
                   None if exp is None else exp.tolist())
    ctx.sample(dict(function=cname[conv[0][0]], sample_rate=conv[0][1], values=conv[0][3][:8]))

    lap('conversions')
    # ---- (3) quadrature sign rule, exact
    nquad = 120 if q else 2500
    qcases, lits = [], []
    for i in range(nquad):
        n = int(rs.randint(2, 40))
        X = rs.randint(-5, 6, size=(n, 1)).astype(float)
        try:
            with common.time_limit(30):
                nX = utils.amplitude_normalise(X.copy(), clip=True)
                z = spectra.quadrature_transform(X)
        except Exception as e:
            violation('quadrature_transform', 'raised %s: %s' % (type(e).__name__, e), dict(kind='quad', x=X[:, 0].tolist()))
            continue
        if not np.all(np.isfinite(nX)):
            ctx.discarded += 1
            continue
        if not np.all(np.isfinite(z)):
            # a finite, clipped normalised signal with a non-finite quadrature component: state it through frequency_transform
            r = oracle_ft(X, 1.0, 'quad', 5) if len(X) >= 2 else None
            if r:
                violation(r[0], r[1], dict(kind='ft', x=[float(v).hex() for v in X[:, 0]], sample_rate=1.0, method='quad', smooth=5))
            ctx.discarded += 1
            continue
        qcases.append((X, nX, z))
        lits.append(frl(nX[:, 0]))
    mo = ctx.model_outputs(IMPORTS, lits, 'fun l => run_freq 9 [8; 1] [1; 1] [1; 1] l', shard=300)
    for (X, nX, z), m in zip(qcases, mo):
        mask = [int(v) for v in unq(m)]
        im = z[:, 0].imag
        nz = [k for k in range(len(im)) if im[k] != 0]         # where the quadrature component vanishes its sign is not observable
        got = [int(np.sign(im[k])) for k in nz]
        ctx.count(('quad', tuple(X[:, 0])), len(set(got)) == 2, 'quad-mask')
        ctx.exact_cmp += 1
        # property-level reading of the rule: negative imaginary part exactly where the normalised signal rises
        rises = [bool(nX[k + 1, 0] > nX[k, 0]) for k in range(len(X) - 1)]
        want = [-1 if r else 1 for r in rises] + [-1 if rises[-1] else 1]
        real_ok = np.array_equal(z[:, 0].real, nX[:, 0])
        if got != [want[k] for k in nz] or not real_ok:
            violation('quadrature_transform', 'sign of the quadrature component does not follow the rise/fall of the normalised signal',
                      dict(kind='quad', x=X[:, 0].tolist()))
        elif (len(mask) != len(im) or got != [mask[k] for k in nz]) and bad is None:
            bad = ('Freq.quad_mask vs emd.spectra.quadrature_transform', dict(x=X[:, 0].tolist()), got, mask)
    if qcases:
        ctx.sample(dict(quadrature_waveform=qcases[0][0][:, 0].tolist()))

    lap('quad_mask')
    # ---- (4) pipeline trace + oracle on the same calls
    kinds = ['sin', 'amfm', 'noise', 'zero']
    npipe = 72 if q else 1500
    pcases, lits = [], []
    for i in range(npipe):
        n = int(rs.choice([24, 32, 48, 64, 96]))
        kind = kinds[i % 4]
        x = imf_like(rs, n, kind)[:, None]
        method = METHODS[(i // 4) % 3]
        smooth = 5 if (i // 12) % 2 == 0 else None
        sr = float(rs.choice([1.0, 128.0, 250.0, 1000.0]))
        inp = dict(kind='ft', x=[float(v).hex() for v in x[:, 0]], sample_rate=sr, method=method, smooth=smooth)
        f = oracle_ft(x, sr, method, smooth)
        if f:
            violation(f[0], f[1], inp, tags=dict(corner='wrap-2pi') if f[0] == SITE_RANGE else None)
            if f[0] != SITE_RANGE:
                continue
        try:
            IP, IF, IA = call_ft(x, sr, method, smooth)
            ang = np.angle(complex_signal(x, method))[:, 0]
        except Exception:
            continue
        if not np.all(np.isfinite(ang)):
            ctx.discarded += 1
            continue
        pcases.append((inp, kind, IP[:, 0], IF[:, 0], sr))
        lits.append('(%s, %s, %s)' % ('true' if smooth else 'false', fr(sr), frl(ang)))
    mo = ctx.model_outputs(IMPORTS, lits, "fun c => let '(s, sr, a) := c in run_pipeline s %s sr a" % fr(TWOPI), shard=12)
    for (inp, kind, IP, IF, sr), m in zip(pcases, mo):
        wraps = int(np.sum(np.abs(np.diff(IP)) > np.pi))
        ctx.count(('pipe', tuple(inp['x']), inp['method'], inp['smooth'], sr), wraps >= 1, 'pipeline-%s-%s' % (inp['method'], kind))
        ctx.tol_cmp += 1
        if m == [-2]:
            ok = False
            mp_, mf = None, None
        else:
            k = next(i for i in range(0, len(m), 2) if m[i] == -7 and m[i + 1] == -7)
            mp_ = np.array([float(v) for v in unq(m[:k])])
            mf = np.array([float(v) for v in unq(m[k + 2:])])
            ok = (len(mp_) == len(IP) and len(mf) == len(IF) and bool(np.all(cdist(IP, mp_) <= 1e-9))
                  and bool(np.all(np.abs(IF - mf) <= 1e-9 * (np.abs(mf).max() + sr))))
        if not ok and bad is None:
            bad = ('Freq.ft_from_angles vs emd.spectra.frequency_transform', inp,
                   dict(IP=IP.tolist(), IF=IF.tolist()), None if mp_ is None else dict(IP=mp_.tolist(), IF=mf.tolist()))
    ctx.sample(dict(pipeline_case=dict(method=pcases[0][0]['method'], smooth=pcases[0][0]['smooth'], n=len(pcases[0][2]))) if pcases else {})

    lap('pipeline')
    # ---- oracle (a): phase range on the family that reaches the float corner (ascending zero crossing on a sample)
    nz = 150 if q else 3000
    for i in range(nz):
        fs = int(rs.choice([100, 128, 250, 256, 500, 1000]))
        n = int(rs.choice([64, 200, 256, 500, 1000]))
        f = float(rs.choice([2, 3, 5, 7, 10]))
        if f > fs / 12:
            f = 2.0
        k0 = int(rs.randint(0, 12))
        method = METHODS[i % 3]
        smooth = 5 if i % 2 == 0 else None
        ncol = 1 + (i % 3 == 2)
        if i < len(CORPUS_ZERO):
            fs, n, f, k0, method, smooth = CORPUS_ZERO[i]
            ncol = 1
        inp = dict(kind='zero', fs=fs, n=n, f=f, k0=k0, method=method, smooth=smooth, ncol=ncol)
        x = zero_signal(inp)
        ctx.count(('zero', fs, n, f, k0, method, smooth, ncol), True, 'range-%s' % method)
        ctx.exact_cmp += 1
        r = oracle_ft(x, fs, method, smooth)
        if r:
            violation(r[0], r[1], inp, tags=dict(corner='wrap-2pi') if r[0] == SITE_RANGE else None)

    lap('range')
    # ---- oracle (b): shapes / range / derivative on multi-column clean signals; scale invariance 2^k
    nsc = 60 if q else 1200
    n_exact = 0
    for i in range(nsc):
        n = int(rs.choice([128, 256, 500, 1000]))
        ncol = int(rs.randint(1, 4))
        x = np.array([imf_like(rs, n, ['sin', 'amfm', 'noise'][int(rs.randint(0, 3))]) for _ in range(ncol)]).T
        method = METHODS[i % 3]
        smooth = 5 if i % 4 else None
        sr = float(rs.choice([128.0, 250.0, 1000.0]))
        k = int(rs.randint(-8, 9))
        inp = dict(kind='scale', x=[[float(v).hex() for v in col] for col in x.T], sample_rate=sr, method=method, smooth=smooth, k=k)
        ctx.count(('scale', i, method, smooth, k), True, 'scale-%s' % method)
        r = oracle_ft(x, sr, method, smooth)
        if r:
            violation(r[0], r[1], inp, tags=dict(corner='wrap-2pi') if r[0] == SITE_RANGE else None)
            continue
        try:
            msg, exact = scale_fail(x, sr, method, smooth, k)
        except Exception as e:
            msg, exact = 'raised %s: %s' % (type(e).__name__, e), False
        if exact:
            ctx.exact_cmp += 1
            n_exact += 1
        else:
            ctx.tol_cmp += 1
        if msg:
            violation('frequency_transform scale invariance', '%s: %s' % (method, msg), inp)
    ctx.extra['scale_invariance'] = dict(cases=nsc, bit_exact=n_exact)

    lap('scale')
    # ---- oracle (b1'): the same values in another container - Fortran-ordered, a transposed view, integer counts - give the same
    # phase / frequency / amplitude (the transform is a function of the values)
    ncont = 36 if q else 600
    for i in range(ncont):
        n = int(rs.choice([32, 48, 64, 96]))
        ncol = int(rs.randint(2, 4))
        x = np.round(200 * np.array([imf_like(rs, n, ['sin', 'amfm', 'noise'][int(rs.randint(0, 3))]) for _ in range(ncol)]).T)
        method = METHODS[i % 3]
        smooth = 5 if i % 4 else None
        sr = float(rs.choice([128.0, 1000.0]))
        cont = ['fortran', 'transposed-view', 'int64', 'int32'][i % 4]
        y = {'fortran': np.asfortranarray(x), 'transposed-view': np.ascontiguousarray(x.T).T,
             'int64': x.astype(np.int64), 'int32': x.astype(np.int32)}[cont]
        inp = dict(kind='container', x=[[float(v).hex() for v in col] for col in x.T], sample_rate=sr, method=method, smooth=smooth, container=cont)
        ctx.count(('container', i, method, smooth, cont), True, 'container-%s' % cont)
        ctx.tol_cmp += 1
        try:
            a = call_ft(x, sr, method, smooth)
            b = call_ft(y, sr, method, smooth)
        except Exception as e:
            violation('frequency_transform container', '%s on a %s copy of the values: raised %s: %s' % (method, cont, type(e).__name__, e), inp)
            continue
        for nm, u, v in zip(('phase', 'frequency', 'amplitude'), a, b):
            u, v = np.asarray(u, dtype=float), np.asarray(v, dtype=float)
            d = cdist(u, v) if nm == 'phase' else np.abs(u - v)
            tol = 1e-9 * (1.0 + float(np.nanmax(np.abs(u))))
            if u.shape != v.shape or not np.all((d <= tol) | (np.isnan(u) & np.isnan(v))):
                violation('frequency_transform container', '%s: %s differs by %.3g between the float64 C-contiguous array and its %s copy '
                          '(same values)' % (method, nm, float(np.nanmax(d)) if u.shape == v.shape else -1, cont), inp)
                break
    # ---- oracle (b2): IMF sets that end in a non-oscillatory column (sift residual), all methods
    nmix = 48 if q else 900
    for i in range(nmix):
        if i == 0:          # fixed corpus: two tones and a monotone residual beyond +-1
            tt = np.arange(256) / 256.0
            x, non = np.c_[np.cos(TWOPI * 20 * tt), 0.5 * np.cos(TWOPI * 7 * tt + 1), 1.5 + 3 * tt], [2]
        else:
            x, non = gen_mixed(rs, i)
        method = METHODS[i % 3] if i else 'quad'
        smooth = 5 if (i // 3) % 2 == 0 else None
        sr = float(rs.choice([128.0, 250.0, 1000.0]))
        k = int(rs.randint(-8, 9))
        inp = dict(kind='mixed', x=[[float(v).hex() for v in col] for col in x.T], nonosc=non, sample_rate=sr, method=method,
                   smooth=smooth, k=k)
        ctx.count(('mixed', i, method, smooth, k), True, 'residual-%s' % method)
        ctx.tol_cmp += 1
        try:
            r = mixed_fail(x, non, sr, method, smooth, k)
        except Exception as e:
            r = ('frequency_transform', 'raised %s: %s' % (type(e).__name__, e))
        if r:
            violation(r[0], r[1], inp, tags=dict(corner='wrap-2pi') if r[0] == SITE_RANGE else None)
    ctx.sample(dict(residual_case='cos(20 cycles), 0.5 cos(7 cycles), ramp 1.5..4.5; 256 samples; quad'))

    lap('residual')
    # ---- oracle (c): round trip
    nrt = 60 if q else 1500
    for i in range(nrt):
        n = int(rs.choice([3, 4, 16, 200, 1000, 5000]))
        sr = float(rs.choice([1.0, 128.0, 250.0, 1000.0]))
        t = np.arange(n) / n
        base = rs.uniform(0.5, sr / 8)
        kind = i % 5
        if kind == 4:
            # an integer-TYPED profile (whole Hz): a staircase of small integers
            f = (np.floor(base) + np.floor(3 * t)).astype([np.int64, np.int32, np.int16][i % 3])
        elif kind == 0:
            f = np.full(n, base)
        elif kind == 1:
            f = base * (1 + 0.5 * np.sin(TWOPI * rs.uniform(0.5, 3) * t + rs.uniform(0, 6)))
        elif kind == 2:
            f = base * (0.2 + t ** 2)
        else:
            f = np.where(t < 0.5, base, base * 1.5)           # piecewise constant: exact on both plateaux
        ctx.count(('roundtrip', i, n, sr), True, 'roundtrip')
        ctx.tol_cmp += 1
        msg = roundtrip_fail(f, sr)
        if msg:
            violation('freq_from_phase(phase_from_freq)', ('' if f.dtype.kind == 'f' else '(profile of dtype %s) ' % f.dtype) + msg,
                      dict(kind='roundtrip', f=[float(v).hex() for v in f], sample_rate=sr, dtype=str(f.dtype)))

    lap('roundtrip')
    # ---- oracle (d): accuracy sweep (regression guard)
    nacc = 130 if q else 4000
    ars = np.random.RandomState(seed32(ctx, 2))
    worst = {}
    for i in range(nacc):
        case = gen_acc_case(ars)
        for method in METHODS:
            ctx.count(('acc', i, method), True, 'accuracy-%s-%s' % (method, case['family']))
            ctx.tol_cmp += 1
            try:
                msg, e = acc_fail(case, method)
            except Exception as ex:
                msg, e = 'raised %s: %s' % (type(ex).__name__, ex), []
            for band, ee in e:
                for metric, v in ee.items():
                    key = '%s/%s/%s/%s' % (method, case['family'], band, metric)
                    worst[key] = max(worst.get(key, 0.), v)
            if msg:
                violation('frequency_transform accuracy', msg, dict(kind='acc', case=case, method=method))
    lap('accuracy')
    ctx.extra['accuracy'] = dict(
        note='regression guard, not a proof: tolerance = max(%g, %g x worst error measured on the reference tree)' % (ACC_FLOOR, ACC_FACTOR),
        reference_worst={'%s/%s/%s/%s' % k: v for k, v in sorted(ACC_WORST.items())},
        tolerance={'%s/%s/%s/%s' % k: acc_tol(*k) for k in sorted(ACC_WORST)},
        worst_this_run=dict(sorted(worst.items())), cases=nacc * len(METHODS))
    ctx.sample(dict(accuracy_case=gen_acc_case(np.random.RandomState(seed32(ctx, 2)))))

    if bad is not None and not any(p['kind'] == 'impl-violation' for p in ctx.problems):
        ctx.problem('correspondence-break', bad[0], 'model and implementation differ', input=bad[1], observed=bad[2], expected=bad[3],
                    theorem=bad[0])


def zero_signal(inp):
    t = np.arange(inp['n'])
    cols = [np.sin(TWOPI * inp['f'] * (j + 1) * (t - inp['k0']) / inp['fs']) for j in range(inp.get('ncol', 1))]
    return np.array(cols).T


def unhex(l):
    return np.array([float.fromhex(v) if isinstance(v, str) else float(v) for v in l])


def replay(rec):
    if rec['input'].get('kind') == 'container':
        i = rec['input']
        x = np.array([unhex(c) for c in i['x']]).T
        y = {'fortran': np.asfortranarray(x), 'transposed-view': np.ascontiguousarray(x.T).T, 'int64': x.astype(np.int64), 'int32': x.astype(np.int32)}[i['container']]
        a, b = call_ft(x, i['sample_rate'], i['method'], i['smooth']), call_ft(y, i['sample_rate'], i['method'], i['smooth'])
        worst = max(float(np.nanmax(cdist(a[0], b[0]))), float(np.nanmax(np.abs(a[1] - b[1]))), float(np.nanmax(np.abs(a[2] - b[2]))))
        print('max deviation', worst)
        return not worst <= 1e-9 * (1.0 + float(np.nanmax(np.abs(a[1]))) + float(np.nanmax(np.abs(a[2]))))
    from emd import spectra, utils
    i = rec['input']
    site = rec.get('site', '')
    kind = i.get('kind')
    if kind == 'zero':
        r = oracle_ft(zero_signal(i), i['fs'], i['method'], i['smooth'])
        print(r)
        return r is not None
    if kind == 'ft':
        r = oracle_ft(unhex(i['x'])[:, None], i['sample_rate'], i['method'], i['smooth'])
        print(r)
        return r is not None
    if kind == 'scale':
        x = np.array([unhex(c) for c in i['x']]).T
        r = oracle_ft(x, i['sample_rate'], i['method'], i['smooth'])
        if r is None:
            msg, _ = scale_fail(x, i['sample_rate'], i['method'], i['smooth'], i['k'])
            r = msg
        print(r)
        return r is not None
    if kind == 'mixed':
        x = np.array([unhex(c) for c in i['x']]).T
        r = mixed_fail(x, i['nonosc'], i['sample_rate'], i['method'], i['smooth'], i['k'])
        print(r)
        return r is not None
    if kind == 'roundtrip':
        r = roundtrip_fail(np.asarray(unhex(i['f'])).astype(i.get('dtype', 'float64')), i['sample_rate'])
        print(r)
        return r is not None
    if kind == 'acc':
        msg, e = acc_fail(i['case'], i['method'])
        print(msg, e)
        return msg is not None
    if kind == 'quad':
        X = np.array(i['x'], dtype=float)[:, None]
        nX = utils.amplitude_normalise(X.copy(), clip=True)
        z = spectra.quadrature_transform(X)
        rises = [bool(nX[k + 1, 0] > nX[k, 0]) for k in range(len(X) - 1)]
        want = [-1 if r else 1 for r in rises] + [-1 if rises[-1] else 1]
        im = z[:, 0].imag
        nz = [k for k in range(len(im)) if im[k] != 0]
        got = [int(np.sign(im[k])) for k in nz]
        print(got, [want[k] for k in nz])
        return got != [want[k] for k in nz]
    if 'function' in i:
        op = {'freq_from_phase': 0, 'phase_from_freq': 1, 'wrap_phase': 2}[i['function']]
        vals = unhex(i['values'])
        r = impl_conv(op, i['sample_rate'], i['phase_start'], vals)
        msg = conv_oracle(op, i['sample_rate'], i['phase_start'], vals, r)
        print(msg)
        return msg is not None
    return False


# ---------------------------------------------------------------------------------------------- calibration helper
def _cal_one(args):
    s, ncases = args
    worst = {}
    ars = np.random.RandomState((s * 1000003 + 2 * 7919 + 9) % (2 ** 32))
    for _ in range(ncases):
        case = gen_acc_case(ars)
        for method in METHODS:
            for band, e in acc_errors(case, method):
                for metric, v in e.items():
                    key = (method, case['family'], band, metric)
                    worst[key] = max(worst.get(key, 0.), v)
    return worst


def _calibrate(seeds, ncases):
    import multiprocessing as mp
    worst = {}
    with mp.Pool(12) as pool:
        for w in pool.map(_cal_one, [(s, ncases) for s in seeds]):
            for k, v in w.items():
                worst[k] = max(worst.get(k, 0.), v)
    ks = sorted(worst)
    for i in range(0, len(ks), 7):
        print('    ' + ' '.join('%r: %.4g,' % (k, worst[k]) for k in ks[i:i + 7]))


if __name__ == '__main__':
    if '--calibrate' in sys.argv:
        _calibrate(range(int(sys.argv[2]) if len(sys.argv) > 2 else 12), int(sys.argv[3]) if len(sys.argv) > 3 else 4000)
