"""C13 - good cycles are exactly those meeting the documented phase criteria.

PROOF          coq/props/Prop_C13.v  (model: coq/model/CycleVec.v)
CORRESPONDENCE as C12 but over phase_edge in {pi/24, pi/12, pi/4, pi/2}; masked cases (random / block / all-true)
               as explicit cases; container flags built with the same non-default phase_edge
ORACLE         the four criteria recomputed per wrap-delimited segment
"""
import numpy as np

import common
from common import zlist, blist
from props import cyclevec as cvx

CFGS = [(1.5 * np.pi, np.pi / 24), (1.5 * np.pi, np.pi / 12), (1.5 * np.pi, np.pi / 4), (2.55, np.pi / 2)]


def report(ctx, fails):
    for item in fails:
        codes, fl = item[0], item[1]
        mask = item[2] if len(item) > 2 else None
        for site, detail in fl[:1]:
            ctx.problem('impl-violation', site, detail,
                        input=dict(phase_codes=codes, phase=[c / cvx.UNIT for c in codes],
                                   mask=None if mask is None else [int(b) for b in mask]),
                        tags=dict(masked=mask is not None))


def ulp_step_fails():
    """'strictly increasing' means every step is positive, however small: three ramp cycles, the middle one with a step of ONE unit in
    the last place, all meet every criterion.  returns [(site, detail, phase)]"""
    from emd import cycles
    base = np.linspace(0.1, 6.2, 12)
    seg = base.copy()
    seg[1] = np.nextafter(seg[0], 7.0)          # 0.1 + 1.4e-17: a positive step far below machine epsilon
    ph = np.r_[base, seg, base]
    fails = []
    good = np.asarray(cycles.get_cycle_vector(ph, return_good=True)).reshape(-1)
    exp = np.repeat([0, 1, 2], 12)
    if not np.array_equal(good, exp):
        fails.append(('get_cycle_vector(return_good=True)', 'a cycle whose phase rises by one unit in the last place at one step (all steps '
                      'positive, both edges within tolerance) is not labelled good: labels %s' % sorted(set(good.tolist())), ph.tolist()))
    if not bool(cycles.is_good(seg)):
        fails.append(('is_good', 'a strictly increasing phase with one step of one unit in the last place is judged not good', seg.tolist()))
    fl = list(np.asarray(cycles.Cycles(ph).metrics['is_good']).astype(int))
    if fl != [1, 1, 1]:
        fails.append(("Cycles.metrics['is_good']", 'container flags %s for three cycles that meet every criterion (one has a one-ulp step)' % fl,
                      ph.tolist()))
    return fails


def run(ctx):
    lengths = range(2, 7) if ctx.quick() else range(2, 9)
    ctx.rule = ('every phase sequence of length %d..%d over {0.25,1.5,3,4.5,6.25} x (phase_step, phase_edge) in '
                '{(1.5pi,pi/24),(1.5pi,pi/12),(1.5pi,pi/4),(2.55,pi/2)}: good-cycle vector, all-cycle vector and the '
                "Cycles container's is_good flags vs the model (block hashes); random series with random/block/all-true "
                'masks as explicit cases; non-trivial = at least one wrap' % (min(lengths), max(lengths)))
    ctx.proof(extra=['props/Prop_Tie_Cycles.v', 'props/Prop_Tie_Cyclesobj.v'])  # translation ties: programs regenerated from the source + refinement theorems (Cycles.__init__ computes the container flags)
    for site, detail, ph in ulp_step_fails()[:1]:
        ctx.problem('impl-violation', site, detail, input=dict(ulp_step=True, phase=ph), tags=dict(masked=False))
    ctx.count(('ulp-step',), True, 'ulp-step')
    f12, f13, bad = cvx.enumerate_domain(ctx, lengths, CFGS)
    ctx.exhaustive = True
    report(ctx, f13)
    coded = [cvx.code_cfg(s, e) for s, e in CFGS]
    mc = cvx.masked_cases(ctx, 400 if ctx.quick() else 8000)
    lits = ['(%s, %s)' % (zlist(c), blist(m)) for c, m, _ in mc]
    expr = 'fun c => run_cv %s (Some (snd c)) (fst c)' % common.zlistlist(coded)
    mh = ctx.model_hashes(cvx.IMPORTS, lits, expr, shard=200)
    for (codes, mask, kind), h in zip(mc, mh):
        out = cvx.impl_run_cv(codes, CFGS, mask)
        ctx.count((codes, mask), bool(cvx.wraps_of(codes, 37)), 'mask-' + kind)
        ctx.exact_cmp += 1
        _, b = cvx.oracle_all(codes, CFGS, mask)
        if b:
            report(ctx, [(codes, b, mask)])
        elif common.hashL(out) != h and not bad:
            bad.append(('masked', codes, mask, out, lits[0]))
    ctx.sample(dict(phase=[c / cvx.UNIT for c in mc[0][0]], mask=[int(b) for b in mc[0][1]]))
    ctx.sample(dict(phase=[c / cvx.UNIT for c in cvx.seq_of_index(6, 4242)], cfgs=[list(map(float, c)) for c in CFGS]))
    ctx.nontrivial |= {'enum%d' % i for i in range(ctx.extra.get('nontrivial_enumerated', 0))}
    if bad and not any(p['kind'] == 'impl-violation' for p in ctx.problems):
        b = bad[0]
        if b[0] == 'masked':
            ctx.problem('correspondence-break', 'run_cv(mask)', 'model and implementation differ on a masked phase series',
                        input=dict(phase_codes=b[1], mask=[int(x) for x in b[2]]), observed=b[3],
                        theorem='CycleVec.run_cv vs emd.cycles.get_cycle_vector(mask=)')
        else:
            codes, out, mo = cvx.locate_mismatch(ctx, b[0], b[1], b[2], b[3], CFGS)
            ctx.problem('correspondence-break', 'run_cv', 'model and implementation differ on an enumerated phase series',
                        input=dict(phase_codes=codes), observed=out, expected=mo,
                        theorem='CycleVec.run_cv vs emd.cycles.get_cycle_vector / Cycles')


def replay(rec):
    inp = rec['input']
    if inp.get('ulp_step'):
        f = ulp_step_fails()
        print(f[:1])
        return bool(f)
    mask = inp.get('mask')
    _, b = cvx.oracle_all(inp['phase_codes'], CFGS, None if mask is None else [bool(x) for x in mask])
    for f in b:
        print(f)
    return bool(b)
