"""Control-skeleton tie `Util` (notes/TIE_UTIL.md): the remaining small functions of emd/spectra.py and emd/utils.py.

emd/spectra.py -> coq/gen/Gen_Skel_Util.v      : phase_angle, direct_quadrature, phase_from_control_points,
                                                 frequency_stats (whole bodies)
emd/utils.py   -> coq/gen/Gen_Skel_Utilutils.v : est_orthogonality, apply_epochs, find_extrema_locked_epochs (whole bodies)
model/SkelPrims_Util.v gives the opaque numpy / scipy calls their list-level meaning (style of model/Freq.v: canonical
rationals, oracles for arctan / sqrt / the extrema detector); proofs/SkelFacts_Util.v proves the refinements and the
laws. Always exits 0 (fail closed = poisoned file)."""
import gen_skeleton

gen_skeleton.generate(
    'emd/spectra.py',
    [('phase_angle', 'body'),
     ('direct_quadrature', 'body'),
     ('phase_from_control_points', 'slice:1:'),   # statement 0 is a function-level import (fails closed)
     ('frequency_stats', 'body')],
    'Gen_Skel_Util.v',
    'Whole bodies of phase_angle, direct_quadrature, phase_from_control_points, frequency_stats (near C09).',
    modules={'np', 'signal', 'utils', 'sparse', 'warnings', 'logging', 'interp'},   # not 'cycles': a parameter name in phase_from_control_points
    logger='logger',
    call_frame_callee=True,
    arith_div_pow=True)

gen_skeleton.generate(
    'emd/utils.py',
    [('est_orthogonality', 'body'),
     ('apply_epochs', 'body'),
     ('find_extrema_locked_epochs', 'body')],
    'Gen_Skel_Utilutils.v',
    'Whole bodies of est_orthogonality, apply_epochs, find_extrema_locked_epochs.',
    modules={'np', 'signal'},
    logger='logger',
    call_frame_callee=True,
    arith_div_pow=True)
