"""Control-skeleton tie of the generator methods of IterateCycles (notes/TIE_CYCGEN.md).

emd/cycles.py -> coq/gen/Gen_Skel_Cycgen.v : IterateCycles.iterate_cycles, iterate_valids, iterate_subset, iterate_chains
    (whole bodies, each translated by the opt-in normalisation N19 generators_as_lists as the function that returns the
    LIST of the yielded (index, sample indices) pairs, in order) and IterateCycles.__init__ (whole body)
as terms of lib/PyLoop.v. model/SkelPrims_Cycgen.v holds the list-level models of the four iteration modes and the rows
added to the table of model/SkelPrims_Cyciter.v; proofs/SkelFacts_Cycgen.v proves the refinements (C14, C15).
Always exits 0 (fail closed = poisoned file)."""
import gen_skeleton

MODS = {'np', 're', 'warnings', 'functools', 'interp', 'spectra', 'utils', 'sift', '_cycles_support', 'logging', 'pd'}

gen_skeleton.generate(
    'emd/cycles.py',
    [('IterateCycles.__init__', 'body', 'IterateCycles_init'),
     ('IterateCycles.iterate_cycles', 'body'),
     ('IterateCycles.iterate_valids', 'body'),
     ('IterateCycles.iterate_subset', 'body'),
     ('IterateCycles.iterate_chains', 'body')],
    'Gen_Skel_Cycgen.v',
    'IterateCycles.__init__ and the four generator methods iterate_cycles, iterate_valids, iterate_subset, iterate_chains (C14, C15).',
    modules=MODS,
    logger='logger',
    call_frame_callee=True,
    generators_as_lists=True)
