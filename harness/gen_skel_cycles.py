"""Control-skeleton tie of cycle detection (notes/TIE_CYCLES.md): emd/cycles.py -> coq/gen/Gen_Skel_Cycles.v.

Whole bodies of get_cycle_vector and is_good, as terms of lib/PyLoop.v. model/SkelPrims_Cycles.v maps the opaque
calls to the list operations of model/CycleVec.v; proofs/SkelFacts_Cycles.v proves the refinements.
Always exits 0 (fail closed = poisoned file)."""
import gen_skeleton

gen_skeleton.generate(
    'emd/cycles.py',
    [('get_cycle_vector', 'body'),
     ('is_good', 'body')],
    'Gen_Skel_Cycles.v',
    'Whole bodies of get_cycle_vector and is_good (C12, C13).',
    modules={'np', 're', 'warnings', 'functools', 'interp', 'spectra', 'utils', 'sift', '_cycles_support', 'logging'},
    logger='logger')
