"""Writes MANIFEST.json from the table below (keeps it valid and in one place)."""
import json
import os

VERIF = os.path.dirname(os.path.dirname(os.path.abspath(__file__)))
BASELINE = ("cd /repo && env -u EMD_VERIF_TRACE /venv/bin/python -m pytest -ra -q -p no:cacheprovider --timeout=900 "
            "--continue-on-collection-errors")

# property -> (technique, level text, level note, design ref)
CLAIMED = {}
NOT_YET = {}


def load():
    import importlib.util
    spec = importlib.util.spec_from_file_location('claims', os.path.join(VERIF, 'harness', 'claims.py'))
    m = importlib.util.module_from_spec(spec)
    spec.loader.exec_module(m)
    return m.CLAIMED, m.NOT_CLAIMED


def main():
    claimed, not_claimed = load()
    checks = []
    for pid in sorted(claimed):
        c = claimed[pid]
        checks.append(dict(
            property_id=pid,
            quick_cmd='./check %s --tier quick' % pid,
            thorough_cmd='./check %s --tier thorough' % pid,
            evidence_file='/verif/evidence/%s.json' % pid,
            replay_cmd_template='./check %s --replay {path}' % pid,
            engine='coq-proof+correspondence',
            level_claimed=dict(category='proof', text=c['text'], design_ref=c.get('design_ref', 'DESIGN.md section 6, ' + pid)),
            level_note=c['note'],
            technique=c['technique']))
    man = dict(
        version=1,
        setup_cmd='./setup.sh',
        hooks=dict(guard='EMD_VERIF_TRACE',
                   enable='export EMD_VERIF_TRACE=1 (set by ./check; switches harness-side tracing only - monkeypatches '
                          'installed before any Pool is forked; there are no hook commits in /repo)',
                   baseline_off_cmd=BASELINE, source_commits=[], add_only=True),
        engines=[dict(name='coq-proof+correspondence', path='/verif/check',
                      serves_properties=sorted(claimed),
                      kind_free_text='machine-checked proof in Coq 8.16.1 of theorems about a hand-written Gallina model '
                                     '(coq/model, coq/proofs, coq/props), tied to /repo on every run by differential '
                                     'execution of the model under vm_compute against the implementation, plus a '
                                     'property oracle on the implementation that searches for a concrete failing input')],
        checks=checks,
        not_applicable=[dict(property_id=p, reason=r) for p, r in sorted(not_claimed.items())],
        notes='See DESIGN.md. Fix commits in /repo are listed in known_findings.json (status fixed).')
    with open(os.path.join(VERIF, 'MANIFEST.json'), 'w') as f:
        json.dump(man, f, indent=1)
        f.write('\n')


if __name__ == '__main__':
    main()
