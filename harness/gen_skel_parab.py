"""Control-skeleton tie "Parab" (notes/TIE_PARAB.md): emd/sift.py -> coq/gen/Gen_Skel_Parab.v.

Whole bodies of compute_parabolic_extrema (the vertex formula of the parabolic refinement, C05), _nsamples_warn and
is_imf (C05 / C06: the option dictionaries on their way to interp_envelope), SiftConfig.__iter__, __len__ and
__repr__ (C18; __str__ translates too but is not tied, so it is not emitted), as terms of lib/PyLoop.v. model/SkelPrims_Parab.v maps the numpy primitives of the vertex formula
(w_inv.dot(y), abc[k, :], unary minus, * / - +) to arithmetic on exact rationals with numpy's division by zero written
out, and the opaque calls of is_imf (zero_crossing_count, signal.find_peaks, interp_envelope, the relative mean) to
oracles; proofs/SkelFacts_Parab.v proves the refinements against model/Extrema.v parabolic_vertex, the list-level
model of is_imf and model/Config.v. Opt-in normalisations N16, N17, N18. Always exits 0 (fail closed = poisoned file)."""
import gen_skeleton

gen_skeleton.generate(
    'emd/sift.py',
    [('compute_parabolic_extrema', 'body'),
     ('_nsamples_warn', 'body', 'nsamples_warn'),
     ('is_imf', 'body'),
     ('SiftConfig.__iter__', 'body', 'config_iter'),
     ('SiftConfig.__len__', 'body', 'config_len'),
     ('SiftConfig.__repr__', 'body', 'config_repr')],
    'Gen_Skel_Parab.v',
    'Whole bodies of compute_parabolic_extrema, _nsamples_warn, is_imf, SiftConfig.__iter__/__len__/__repr__ (C05, C06, C18).',
    modules={'np', 'signal', 'interp', 'spectra', 'sys', 'logging', 'inspect', 'functools', 'collections', 'mp', 'yaml'},
    logger='logger',
    call_frame_callee=True,
    mutators_as_stores=True,
    arith_div_pow=True)
