"""Control-skeleton tie of the array-layout validators (notes/TIE_SUPPORT.md): emd/support.py -> coq/gen/Gen_Skel_Support.v.

Whole bodies of ensure_vector, ensure_1d_with_singleton, ensure_2d and ensure_equal_dims, as terms of lib/PyLoop.v.
model/SkelPrims_Support.v maps the opaque calls (xx.ndim, xx.shape[1], np.squeeze, xx[:, 0], ...) to the shape
operations of model/Shapes.v; proofs/SkelFacts_Support.v proves the refinements. Always exits 0 (fail closed =
poisoned file)."""
import gen_skeleton

gen_skeleton.generate(
    'emd/support.py',
    [('ensure_vector', 'body'),
     ('ensure_1d_with_singleton', 'body'),
     ('ensure_2d', 'body'),
     ('ensure_equal_dims', 'body')],
    'Gen_Skel_Support.v',
    'Whole bodies of ensure_vector, ensure_1d_with_singleton, ensure_2d, ensure_equal_dims (C19).',
    modules={'np', 'os', 'pytest', 'logging', 'pkg_resources', 'sift'},
    logger='logger')
