"""Shared plumbing for every ./check run: proof step, model evaluation under
vm_compute, problem / replay / known-finding reporting, evidence writing.

Run under /venv/bin/python with PYTHONPATH=/repo (the `check` script does that),
so `import emd` is /repo's current working tree.
"""
import collections
import concurrent.futures
import fcntl
import hashlib
import json
import os
import random
import re
import shutil
import signal
import subprocess
import sys
import time

VERIF = os.path.dirname(os.path.dirname(os.path.abspath(__file__)))
COQ = os.path.join(VERIF, 'coq')
REPO = os.environ.get('EMD_REPO', '/repo')
if os.path.abspath(REPO) != '/repo':
    # a scratch tree is under test (evaluation of a seeded change): the translators regenerate coq/gen from it, so the
    # whole Coq tree of this run is a private copy - the shared one always corresponds to /repo
    COQ = os.path.join(VERIF, '.work', 'coq-alt-' + hashlib.sha1(os.path.abspath(REPO).encode()).hexdigest()[:10])
    if os.environ.get('EMD_COQ_DIR') != COQ:      # child processes of a check inherit EMD_COQ_DIR and must not copy again
        os.makedirs(os.path.dirname(COQ), exist_ok=True)
        subprocess.run(['rsync', '-a', '--delete', os.path.join(VERIF, 'coq') + '/', COQ + '/'], check=True)
os.environ['EMD_COQ_DIR'] = COQ
PY = '/venv/bin/python'
GUARD = 'EMD_VERIF_TRACE'

FORBIDDEN = re.compile(
    r'\b(Admitted|admit|Axiom|Axioms|Parameter|Parameters|Conjecture|Conjectures|Hypothesis|Hypotheses|Variable|Variables'
    r'|Admit Obligations|Unset Guard Checking|Unset Positivity Checking|Unset Universe Checking'
    r'|bypass_check|type-in-type|impredicative-set|native_compute)\b')
OBLIGATION = re.compile(r'^\s*(?:Local\s+|Global\s+|#\[[^\]]*\]\s*)*(Theorem|Lemma|Corollary|Example|Fact|Proposition|Remark)\s+([A-Za-z0-9_\']+)', re.M)
# axioms the standard library itself declares that a Print Assumptions may list
ALLOWED_AXIOMS = {
    # none needed so far: every property file is expected to be closed
}

def forbidden_tokens(nocom):
    """Forbidden constructs in comment-stripped Coq source.  Variable/Hypothesis
    are allowed inside a Section only (they are discharged at End)."""
    bad = []
    stack = []
    events = []
    for m in re.finditer(r'^\s*(Section|Module(?:\s+Type)?|End)\s+([A-Za-z0-9_\']+)\s*(\.|:=|:|\()', nocom, re.M):
        events.append((m.start(), m.group(1).split()[0], m.group(2), m.group(3)))
    toks = [(m.start(), m.group(1)) for m in FORBIDDEN.finditer(nocom)]
    ei = 0
    for pos, tok in toks:
        while ei < len(events) and events[ei][0] < pos:
            _, kind, name, tail = events[ei]
            ei += 1
            if kind == 'End':
                if stack:
                    stack.pop()
            elif kind == 'Module' and tail == ':=':
                pass  # module alias, opens nothing
            else:
                stack.append(kind)
        if tok in ('Variable', 'Variables', 'Hypothesis', 'Hypotheses') and 'Section' in stack:
            continue
        bad.append(tok)
    return bad


# which generated file each translator writes (a failing translator only concerns the properties whose closure contains it)
GEN_OUTPUT = {'gen_tables.py': 'gen/Gen_Defaults.v', 'gen_skeleton.py': 'gen/Gen_Skeleton.v'}

HASH_P = 2305843009213693951


def hashL(l):
    h = 17
    for x in l:
        h = (h * 1000003 + int(x) + 7) & HASH_P
    return h


def block_hash(outs, h=17):
    """Python twin of NpLite.block_hash over a block of rendered outputs."""
    for o in outs:
        h = (h * 1000003 + hashL(o) + 7) & HASH_P
    return h


def enum_blocks(total, bsize):
    return [(s, min(bsize, total - s)) for s in range(0, total, bsize)]


def impl_env():
    env = dict(os.environ)
    env.update(PYTHONPATH=REPO, PYTHONHASHSEED='0', OMP_NUM_THREADS='1', OPENBLAS_NUM_THREADS='1',
               MKL_NUM_THREADS='1', PYTHONDONTWRITEBYTECODE='1', PYTHONWARNINGS='ignore')
    env[GUARD] = '1'
    return env


class Timeout(Exception):
    pass


class time_limit:
    """signal.alarm guard around calls into the implementation."""

    def __init__(self, seconds):
        self.seconds = seconds

    def _raise(self, *a):
        raise Timeout()

    def __enter__(self):
        self.old = signal.signal(signal.SIGALRM, self._raise)
        signal.alarm(self.seconds)

    def __exit__(self, *a):
        signal.alarm(0)
        signal.signal(signal.SIGALRM, self.old)
        return False


def exc_code(e):
    """Python exception -> the model's small error enum (DESIGN A.3)."""
    for cls, code in ((IndexError, 1), (ValueError, 2), (TypeError, 3), (KeyError, 4)):
        if isinstance(e, cls):
            return code
    if type(e).__name__ == 'EMDSiftCovergeError':
        return 5
    if isinstance(e, Timeout):
        return 6
    return 9


# --------------------------------------------------------------------------- Coq
def zlit(x):
    x = int(x)
    return '(%d)' % x if x < 0 else '%d' % x


def zlist(l):
    return '[' + '; '.join(zlit(x) for x in l) + ']'


def zlistlist(l):
    return '[' + '; '.join(zlist(x) for x in l) + ']'


def blist(l):
    return '[' + '; '.join('true' if b else 'false' for b in l) + ']'


def natlist(l):
    return '[' + '; '.join('%d' % int(x) for x in l) + ']%nat'


def qlit(fr):
    """A fractions.Fraction (or int) as a Coq Q literal."""
    from fractions import Fraction
    fr = Fraction(fr)
    return '(%s # %d)' % (zlit(fr.numerator), fr.denominator)


COQ_HEADER = """From Coq Require Import ZArith QArith List Bool String.
Import ListNotations.
%s
Open Scope Z_scope.
Set Printing Width 100000000.
Set Printing Depth 100000000.
"""

_VAL = re.compile(r'^\s*=\s(.*?)^\s*:\s', re.M | re.S)


def parse_coq_values(out):
    """Every `= v : T` answer of Eval/Compute, parsed as nested int lists."""
    vals = []
    for m in _VAL.finditer(out):
        s = m.group(1)
        s = s.replace('%Z', '').replace('%nat', '').replace('(', '').replace(')', '')
        s = s.replace(';', ',').replace('true', '1').replace('false', '0')
        s = re.sub(r'\s+', ' ', s).strip()
        vals.append(json.loads(s))
    return vals


def run_coqc(path, timeout=600):
    cmd = 'ulimit -s unlimited 2>/dev/null; exec coqc -q -Q %s EmdV %s' % (COQ, path)
    p = subprocess.run(['bash', '-c', cmd], capture_output=True, text=True, timeout=timeout,
                       cwd=os.path.dirname(path))
    return p.returncode, p.stdout, p.stderr


# --------------------------------------------------------------------------- context
class Ctx:
    def __init__(self, pid, tier, seed):
        self.pid, self.tier, self.seed = pid, tier, int(seed)
        self.t0 = time.time()
        self.rng = random.Random(self.seed * 1000003 + int(pid[1:]))
        self.work = os.path.join(VERIF, '.work', '%s-%d' % (pid, os.getpid()))
        shutil.rmtree(self.work, ignore_errors=True)
        # scratch directories left behind by runs of this property that were killed: remove those older than three hours
        try:
            for d in os.listdir(os.path.join(VERIF, '.work')):
                full = os.path.join(VERIF, '.work', d)
                if d.startswith(pid + '-') and os.path.isdir(full) and time.time() - os.path.getmtime(full) > 3 * 3600:
                    shutil.rmtree(full, ignore_errors=True)
        except OSError:
            pass
        os.makedirs(self.work)
        self.evaluations = 0
        self.nontrivial = set()
        self.hist = collections.Counter()
        self.samples = []
        self.problems = []
        self.exact_cmp = 0
        self.tol_cmp = 0
        self.discarded = 0
        self.exhaustive = None
        self.rule = ''
        self.level = 'proof'
        self.proof_info = dict(obligations=0, discharged=0, files=[], assumptions=[], theorems=[])
        self.extra = {}
        self.notes = []
        self._n_coq = 0

    # ---- bookkeeping
    def quick(self):
        return self.tier != 'thorough'

    def count(self, case_key, nontrivial, path=None):
        self.evaluations += 1
        if nontrivial:
            self.nontrivial.add(hashlib.sha1(repr(case_key).encode()).hexdigest()[:16])
        if path is not None:
            self.hist[str(path)] += 1

    def sample(self, s, limit=4):
        if len(self.samples) < limit:
            self.samples.append(s)

    def problem(self, kind, site, what, input=None, observed=None, expected=None, tags=None, theorem=None):
        """kind: impl-violation | correspondence-break | proof-break"""
        self.problems.append(dict(kind=kind, site=site, what=what, input=input, observed=observed,
                                  expected=expected, tags=tags or {}, theorem_or_correspondence=theorem))

    # ---- proof engine
    def closure(self, vfile):
        """Transitive EmdV dependencies of a .v file (paths relative to coq/)."""
        seen, todo = [], [vfile]
        while todo:
            f = todo.pop()
            if f in seen:
                continue
            seen.append(f)
            src = open(os.path.join(COQ, f)).read()
            for m in re.finditer(r'From\s+EmdV\s+Require\s+(?:Import\s+|Export\s+)?([\w.\s]+?)\.(?=\s|$)', src):
                for mod in m.group(1).split():
                    todo.append(mod.replace('.', '/') + '.v')
        return seen

    def proof(self, prop_file=None, theorems=None, extra=()):
        """Proof step for the property file, then for each file of `extra` (cross-cutting theorem files such as the
        translation tie props/Prop_Tie_Sift.v); the counts and lists of all of them are accumulated."""
        ok = self._proof_one(prop_file or 'props/Prop_%s.v' % self.pid)
        main = dict(self.proof_info)
        self.tie_files = list(extra)
        for f in extra:
            ok = self._proof_one(f) and ok
            cur = self.proof_info
            for k in ('obligations', 'discharged'):
                cur[k] = main.get(k, 0) + cur.get(k, 0)
            cur['files'] = main.get('files', []) + [x for x in cur.get('files', []) if x not in main.get('files', [])]
            cur['theorems'] = main.get('theorems', []) + cur.get('theorems', [])
            cur['assumptions'] = sorted(set(main.get('assumptions', [])) | set(cur.get('assumptions', [])))
            cur['checker_cmd'] = main.get('checker_cmd', '') + ' ; the same for ' + f
            for k in ('coqchk', 'coqchk_axioms'):
                if k in main and main[k] != 'ok' and k == 'coqchk':
                    cur[k] = main[k]
            main = dict(cur)
        return ok

    def _trusted_base(self):
        tb = list(TRUSTED_BASE)
        ties = getattr(self, 'tie_files', [])
        if ties:
            tb[1] = ('hand-written Gallina model under coq/model tied to %s by differential execution (harness/props) AND, for the functions '
                     'named in DESIGN.md 10.5/10.6, by translation: %s re-checked in this run against programs regenerated from the tree under '
                     'test by the fail-closed ast translator harness/gen_skeleton.py (+ drivers harness/gen_skel_*.py); the translator and the '
                     'primitive mapping tables coq/model/SkelPrims_*.v / SkeletonPrims.v are trusted as read' % (REPO, ', '.join(ties)))
        return tb

    def _proof_one(self, prop_file):
        info = self.proof_info
        info['checker_cmd'] = ('make -C coq %s (full .vo build, Coq 8.16.1) ; coqc %s (Print Assumptions)'
                               % (prop_file + 'o', prop_file))
        # regenerated inputs first: the translators (harness/gen_*.py) whose generated files this property's theorems depend
        # on rewrite them from the source under test.  The dependency closure is computed from the existing files (a copy of
        # every generated file is committed); a driver whose outputs cannot be told is always run.
        import glob
        try:
            files = self.closure(prop_file)
        except FileNotFoundError as e:
            self.problem('proof-break', 'closure', 'missing file %s' % e, theorem=prop_file)
            return False
        needed = [f for f in files if f.startswith('gen/')]

        def prefix_of(g):
            out = GEN_OUTPUT.get(g)
            if out is None and g.startswith('gen_skel_'):
                # convention of the tie drivers: harness/gen_skel_<name>.py writes coq/gen/Gen_Skel_<Name>*.v
                out = 'gen/Gen_Skel_%s' % g[len('gen_skel_'):-3].capitalize()
            return out[:-2] if out and out.endswith('.v') else out
        gens = sorted(glob.glob(os.path.join(VERIF, 'harness', 'gen_*.py')))
        if gens and os.path.exists(os.path.join(COQ, 'gen')):
            with open(os.path.join(VERIF, '.work', '.lock'), 'w') as lk:
                fcntl.flock(lk, fcntl.LOCK_EX)
                for gen in gens:
                    g = os.path.basename(gen)
                    pre = prefix_of(g)
                    if pre is not None and not any(f.startswith(pre) for f in needed):
                        continue
                    r = subprocess.run([PY, '-B', gen], capture_output=True, text=True, env=impl_env())
                    if r.returncode != 0:
                        self.problem('proof-break', g, 'translator failed closed: ' + (r.stdout + r.stderr)[-800:],
                                     theorem='coq/%s (generated by %s)' % ((pre or 'gen') + '*.v', g))
            # the regenerated files may import differently: recompute
            files = self.closure(prop_file)
        info['files'] = files
        names = []
        bad = []
        for f in files:
            src = open(os.path.join(COQ, f)).read()
            # string literals first (Coq lexes strings inside comments too), then comments
            nocom = re.sub(r'\(\*.*?\*\)', ' ', re.sub(r'"(?:[^"]|"")*"', '""', src), flags=re.S)
            names += ['%s:%s' % (f, m.group(2)) for m in OBLIGATION.finditer(nocom)]
            bad += ['%s: %s' % (f, t) for t in forbidden_tokens(nocom)]
        info['obligations'] = len(names)
        if bad:
            self.problem('proof-break', 'forbidden-token', 'forbidden construct in development: %s' % bad[:5],
                         theorem=prop_file)
        with open(os.path.join(VERIF, '.work', '.lock'), 'w') as lk:
            fcntl.flock(lk, fcntl.LOCK_EX)
            subprocess.run([os.path.join(VERIF, 'tools', 'mkcoqproject.sh'), COQ], capture_output=True)
            r = subprocess.run('timeout 1500 make -j16 %s' % (prop_file + 'o'), shell=True, cwd=COQ,
                               capture_output=True, text=True)
        if r.returncode != 0:
            m = re.search(r'File "([^"]+)", line (\d+)', r.stdout + r.stderr)
            where = '%s:%s' % (m.group(1), m.group(2)) if m else prop_file
            self.problem('proof-break', 'coqc', 'proof obligation no longer checks: ' + (r.stdout + r.stderr)[-1500:],
                         theorem=where)
            return False
        out_vo = os.path.join(self.work, os.path.basename(prop_file) + 'o')
        cmd = 'exec coqc -q -Q %s EmdV %s -o %s' % (COQ, os.path.join(COQ, prop_file), out_vo)
        # Print Assumptions over large proof terms is slow (20 s for the sift tie): its output is a function of the sources of
        # the closure (make has just brought every .vo up to date with them), so it is cached under .work keyed by their hashes
        hk = hashlib.sha1()
        for f in sorted(files):
            hk.update(f.encode() + b'\0' + hashlib.sha1(open(os.path.join(COQ, f), 'rb').read()).digest())
        cache = os.path.join(VERIF, '.work', 'pa_cache', prop_file.replace('/', '_') + '.' + hk.hexdigest()[:16] + '.json')
        r = None
        if os.path.exists(cache):
            try:
                c = json.load(open(cache))
                r = subprocess.CompletedProcess(cmd, 0, c['stdout'], '')
            except Exception:
                r = None
        if r is None:
            r = subprocess.run(['bash', '-c', cmd], capture_output=True, text=True, timeout=900)
            if r.returncode == 0:
                os.makedirs(os.path.dirname(cache), exist_ok=True)
                with open(cache + '.tmp%d' % os.getpid(), 'w') as fh:
                    json.dump(dict(stdout=r.stdout), fh)
                os.replace(cache + '.tmp%d' % os.getpid(), cache)
        if r.returncode != 0:
            self.problem('proof-break', 'coqc', 'property file does not compile: ' + (r.stdout + r.stderr)[-1500:],
                         theorem=prop_file)
            return False
        closed = len(re.findall(r'Closed under the global context', r.stdout))
        axioms = []
        for blk in re.findall(r'Axioms:\s*\n((?:.+\n?)+?)(?:\n\n|\Z)', r.stdout):
            for ln in blk.splitlines():
                m = re.match(r'^([A-Za-z0-9_.\']+)\s*:', ln)
                if m:
                    axioms.append(m.group(1))
        info['assumptions'] = sorted(set(axioms)) or ['Closed under the global context (x%d)' % closed]
        src = open(os.path.join(COQ, prop_file)).read()
        # the property file holds statements only: every proof is `exact <lemma>.` and every theorem is printed
        nocom = re.sub(r'\(\*.*?\*\)', ' ', src, flags=re.S)
        loose = [b.strip()[:60] for b, e in re.findall(r'Proof\.(.*?)(Qed|Defined)\.', nocom, flags=re.S)
                 if not re.fullmatch(r'exact\s[\s\S]*\.', b.strip())]
        stated = re.findall(r'^\s*(?:Theorem|Lemma|Example|Corollary|Fact|Proposition|Remark)\s+([A-Za-z0-9_\']+)', nocom, flags=re.M)
        unprinted = [t for t in stated if not re.search(r'Print Assumptions\s+%s\.' % re.escape(t), nocom)]
        if loose or unprinted:
            self.problem('proof-break', 'prop-file-shape', 'property file must contain statements closed by `exact` and print the assumptions of '
                         'each: non-exact proofs %s, not printed %s' % (loose[:3], unprinted[:5]), theorem=prop_file)
        n_print = len(re.findall(r'Print Assumptions', src))
        info['theorems'] = re.findall(r'Print Assumptions\s+([A-Za-z0-9_\']+)', src)
        if closed + len(re.findall(r'Axioms:', r.stdout)) < n_print or n_print == 0:
            self.problem('proof-break', 'print-assumptions', 'Print Assumptions output incomplete', theorem=prop_file)
        bad_ax = [a for a in set(axioms) if a not in ALLOWED_AXIOMS]
        if bad_ax:
            self.problem('proof-break', 'axioms', 'theorem depends on axioms not in the trusted base: %s' % bad_ax,
                         theorem=prop_file)
        info['discharged'] = len(names)
        if not self.quick() and os.environ.get('VERIF_SKIP_COQCHK') != '1':
            mod = 'EmdV.' + prop_file[:-2].replace('/', '.')
            r = subprocess.run('timeout 1500 coqchk -silent -o -Q . EmdV %s' % mod, shell=True, cwd=COQ,
                               capture_output=True, text=True)
            info['coqchk'] = 'ok' if r.returncode == 0 else 'FAILED'
            info['coqchk_axioms'] = sorted(set(re.findall(r'^\s+([A-Za-z0-9_.]+)\s*$', r.stdout, re.M)))[:40]
            if r.returncode != 0:
                self.problem('proof-break', 'coqchk', 'coqchk rejects the compiled property: ' + (r.stdout + r.stderr)[-800:],
                             theorem=prop_file)
        return True

    # ---- model evaluation
    def coq_eval(self, imports, body, timeout=900):
        """Compile one generated file; return the parsed values of its Evals."""
        return self.coq_eval_many(imports, [body], timeout)[0]

    def coq_eval_many(self, imports, bodies, timeout=900):
        paths = []
        for b in bodies:
            self._n_coq += 1
            p = os.path.join(self.work, 'cases_%d.v' % self._n_coq)
            with open(p, 'w') as f:
                f.write(COQ_HEADER % imports + b)
            paths.append(p)

        def one(p):
            rc, out, err = run_coqc(p, timeout)
            if rc != 0:
                raise RuntimeError('coqc failed on %s: %s' % (p, (out + err)[-2000:]))
            return parse_coq_values(out)
        with concurrent.futures.ThreadPoolExecutor(max_workers=min(12, max(1, len(paths)))) as ex:
            return list(ex.map(one, paths))

    def model_hashes(self, imports, cases_lit, expr, shard=400):
        """cases_lit: list of Coq literals c; expr: Gallina `fun c => (.. : list Z)`.
        Returns hashL(model output) per case, evaluated in parallel shards."""
        bodies = []
        for i in range(0, len(cases_lit), shard):
            chunk = cases_lit[i:i + shard]
            bodies.append('Definition cases := [%s].\nEval vm_compute in (map (fun c => hashL ((%s) c)) cases).\n'
                          % (';\n '.join(chunk), expr))
        res = self.coq_eval_many(imports, bodies)
        out = []
        for r in res:
            out += r[0]
        return out

    def model_block_hashes(self, imports, fexpr, blocks, shard=64, prelude=''):
        """fexpr: Gallina `Z -> list Z`; blocks: [(start, n)].  One block_hash per block."""
        bodies = []
        for i in range(0, len(blocks), shard):
            chunk = blocks[i:i + shard]
            lit = '; '.join('(%d%%nat, %s)' % (n, zlit(s)) for s, n in chunk)
            bodies.append(prelude + 'Definition f := (%s).\nEval vm_compute in (map (fun sb => block_hash f (fst sb) (snd sb) 17) [%s]).\n'
                          % (fexpr, lit))
        out = []
        for r in self.coq_eval_many(imports, bodies):
            out += r[0]
        return out

    def model_index_hashes(self, imports, fexpr, start, n, prelude=''):
        body = prelude + 'Definition f := (%s).\nEval vm_compute in (block_hashes f %d%%nat %s).\n' % (fexpr, n, zlit(start))
        return self.coq_eval(imports, body)[0]

    def model_index_output(self, imports, fexpr, idx, prelude=''):
        body = prelude + 'Definition f := (%s).\nEval vm_compute in (f %s).\n' % (fexpr, zlit(idx))
        return self.coq_eval(imports, body)[0]

    def model_outputs(self, imports, cases_lit, expr, shard=200):
        bodies = []
        for i in range(0, len(cases_lit), shard):
            chunk = cases_lit[i:i + shard]
            bodies.append('Definition cases := [%s].\nEval vm_compute in (map (%s) cases).\n'
                          % (';\n '.join(chunk), expr))
        res = self.coq_eval_many(imports, bodies)
        out = []
        for r in res:
            out += r[0]
        return out

    # ---- reporting
    def finish(self):
        wall = time.time() - self.t0
        kf_path = os.path.join(VERIF, 'known_findings.json')
        known = json.load(open(kf_path)) if os.path.exists(kf_path) else []
        lines, nviol = [], 0
        seen_known = set()
        replay_dir = os.path.join(VERIF, 'replays', self.pid)
        # an implementation violation with a concrete input outranks breaks without one
        have_input = any(p['kind'] == 'impl-violation' for p in self.problems)
        reported_sites = set()
        # a failing input on real numerics is a better replay than one found under the toy envelopes
        self.problems.sort(key=lambda q: 0 if (q.get('tags') or {}).get('mode') == 'real' else 1)
        for p in self.problems:
            kf = None
            for k in known:
                if k.get('status') != 'finding' or k.get('property') != self.pid:
                    continue
                if k.get('site') != p['site']:
                    continue
                if all(p['tags'].get(a) == b for a, b in (k.get('match') or {}).items()):
                    kf = k
                    break
            if kf is not None:
                if kf['id'] not in seen_known:
                    seen_known.add(kf['id'])
                    lines.append('KNOWN-FINDING: property=%s %s [%s]' % (self.pid, kf['what_fails'], kf['id']))
                continue
            key = (p['kind'], p['site'])
            if key in reported_sites:
                continue
            reported_sites.add(key)
            if p['kind'] != 'impl-violation' and have_input:
                # the concrete failing input is the report; the break that led to it is recorded inside
                pass
            os.makedirs(replay_dir, exist_ok=True)
            rec = dict(property=self.pid, seed=self.seed, tier=self.tier, **p)
            rec['replay_cmd'] = './check %s --replay <this file>' % self.pid
            blob = json.dumps(rec, indent=1, sort_keys=True, default=str)
            path = os.path.join(replay_dir, hashlib.sha1(blob.encode()).hexdigest()[:12] + '.json')
            with open(path, 'w') as f:
                f.write(blob)
            nviol += 1
            tail = '' if p['kind'] == 'impl-violation' else ' no-failing-input-found'
            if p['kind'] != 'impl-violation' and have_input:
                tail = ''
            lines.append('VIOLATION property=%s replay=%s%s' % (self.pid, path, tail))
        cov = dict(
            obligations=self.proof_info['obligations'], discharged=self.proof_info['discharged'],
            checker_cmd=self.proof_info.get('checker_cmd', ''),
            trusted_base=self._trusted_base() + ['Print Assumptions: ' + '; '.join(self.proof_info['assumptions'])],
            evaluations=self.evaluations, distinct_nontrivial=len(self.nontrivial), rule=self.rule,
            samples=self.samples or ['(none)'], path_histogram=dict(self.hist),
            exact_comparisons=self.exact_cmp, tolerance_comparisons=self.tol_cmp,
            discarded_by_guard_band=self.discarded, theorems=self.proof_info['theorems'],
            proof_files=self.proof_info['files'], known_findings_reported=sorted(seen_known),
            notes=self.notes)
        if not cov['obligations'] or cov['discharged'] != cov['obligations']:
            # proof step did not complete: do not present proof-level keys
            cov['obligations_found'] = cov.pop('obligations')
            cov['discharged_found'] = cov.pop('discharged')
        if 'coqchk' in self.proof_info:
            cov['coqchk'] = self.proof_info['coqchk']
            cov['coqchk_axioms'] = self.proof_info.get('coqchk_axioms', [])
        if self.exhaustive is not None:
            cov['exhaustive'] = bool(self.exhaustive)
        cov.update(self.extra)
        ev = dict(property_id=self.pid, tier='thorough' if self.tier == 'thorough' else 'quick', seed=self.seed,
                  level=self.level, coverage=cov, assumptions=ASSUMPTIONS, wall_s=round(wall, 2), violations=nviol)
        os.makedirs(os.path.join(VERIF, 'evidence'), exist_ok=True)
        with open(os.path.join(VERIF, 'evidence', self.pid + '.json'), 'w') as f:
            json.dump(ev, f, indent=1, sort_keys=True, default=str)
        for ln in lines:
            print(ln)
        print('%s tier=%s seed=%d: obligations %d/%d, %d evaluations (%d distinct non-trivial), %d violation(s), %.1fs'
              % (self.pid, self.tier, self.seed, self.proof_info['discharged'], self.proof_info['obligations'], self.evaluations,
                 len(self.nontrivial), nviol, wall))
        shutil.rmtree(self.work, ignore_errors=True)
        return 1 if nviol else 0


TRUSTED_BASE = [
    'Coq 8.16.1 kernel and its vm_compute machine (no native_compute)',
    'hand-written Gallina model under coq/model tied to /repo by differential execution (harness/props), not by a translator',
    'harness generators, canonicalisers and the Python twins of toy oracles',
    'numpy/scipy/yaml/logging/multiprocessing internals are oracles with stated contracts (DESIGN.md section 8)',
]
ASSUMPTIONS = [
    'theorems are about exact integer/rational arithmetic; IEEE rounding is outside every theorem',
    'the model is validated against the implementation only on the inputs this run explored',
]


def sha(x):
    return hashlib.sha1(repr(x).encode()).hexdigest()[:12]
