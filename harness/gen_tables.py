"""The one narrow translator (DESIGN 3.2): emd/sift.py -> coq/gen/Gen_Defaults.v.

Emits, as Gallina association lists over the types of coq/model/Config.v:
  sig_defaults  function -> [(parameter, default | None)]   read from the `def` lines with `ast`
  fallbacks     function -> [(option parameter, (test, literal))] for the literal fall-back dictionaries
                `if not p: p = {...}` (test = true) / `if p is None: p = {...}` (test = false)
  config_trees  variant -> the option tree `get_config(variant)` returns today (obtained by calling it)
Nothing here interprets the code: it copies tables.  It FAILS CLOSED: any default, literal or statement
shape it does not know ends the run with a non-zero exit and a message, and the generated file is not touched.
"""
import ast
import os
import sys

REPO = os.environ.get('EMD_REPO', '/repo')
SRC = os.path.join(REPO, 'emd', 'sift.py')
OUT = os.path.join(os.environ.get('EMD_COQ_DIR') or os.path.join(os.path.dirname(os.path.dirname(os.path.abspath(__file__))), 'coq'),
                   'gen', 'Gen_Defaults.v')
STAGES = ['_sift_with_noise', 'get_next_imf', 'get_next_imf_mask', 'get_mask_freqs', 'interp_envelope',
          'get_padded_extrema']
# fall-backs the model's effective_options relies on: they must be found, in a form that is understood
REQUIRED = [('sift', 'imf_opts'), ('get_next_imf', 'envelope_opts'), ('get_next_imf_mask', 'imf_opts'),
            ('interp_envelope', 'extrema_opts'), ('get_padded_extrema', 'loc_pad_opts'),
            ('get_padded_extrema', 'mag_pad_opts')]


def die(msg):
    sys.stderr.write('gen_tables: FAIL-CLOSED: %s\n' % msg)
    sys.exit(2)


def cstr(s, where):
    if not isinstance(s, str) or any(ord(c) < 32 or ord(c) > 126 for c in s):
        die('%s: string %r is not printable ASCII' % (where, s))
    return '"%s"' % s.replace('"', '""')


def scalar(o, where):
    if o is None:
        return 'VNone'
    if o is True or o is False:
        return 'VBool %s' % ('true' if o else 'false')
    if type(o) is int:
        return 'VInt (%d)' % o
    if type(o) is float:
        if o != o or o in (float('inf'), float('-inf')):
            die('%s: non-finite float default' % where)
        return 'VFloat %s' % cstr(repr(o), where)
    if type(o) is str:
        return 'VStr %s' % cstr(o, where)
    die('%s: value %r of type %s has no rendering' % (where, o, type(o).__name__))


def val_obj(o, where):
    """A live Python value (from get_config) as a Config.val."""
    if type(o) in (list, tuple):
        return '%s [%s]' % ('VList' if type(o) is list else 'VTuple', '; '.join('(%s)' % val_obj(x, where) for x in o))
    if type(o).__module__ == 'numpy' and type(o).__name__ == 'ndarray':
        return 'VArr [%s]' % '; '.join('(%s)' % val_obj(x, where) for x in o.tolist())
    return scalar(o, where)


def tree_obj(o, where):
    if type(o) is dict:
        return 'Node [%s]' % '; '.join('(%s, %s)' % (cstr(k, where), tree_obj(v, where + '/' + str(k))) for k, v in o.items())
    return 'Leaf (%s)' % val_obj(o, where)


def val_ast(n, where):
    """A literal in the source as a Config.val."""
    if isinstance(n, ast.Constant):
        return scalar(n.value, where)
    if isinstance(n, ast.UnaryOp) and isinstance(n.op, ast.USub) and isinstance(n.operand, ast.Constant) \
            and type(n.operand.value) in (int, float):
        return scalar(-n.operand.value, where)
    if isinstance(n, (ast.Tuple, ast.List)):
        return '%s [%s]' % ('VTuple' if isinstance(n, ast.Tuple) else 'VList', '; '.join('(%s)' % val_ast(e, where) for e in n.elts))
    die('%s: unknown expression %s at line %d' % (where, type(n).__name__, getattr(n, 'lineno', 0)))


def tree_ast(n, where):
    if isinstance(n, ast.Dict):
        items = []
        for k, v in zip(n.keys, n.values):
            if not (isinstance(k, ast.Constant) and isinstance(k.value, str)):
                die('%s: dictionary key is not a string literal (line %d)' % (where, n.lineno))
            items.append('(%s, %s)' % (cstr(k.value, where), tree_ast(v, where + '/' + k.value)))
        return 'Node [%s]' % '; '.join(items)
    return 'Leaf (%s)' % val_ast(n, where)


def signature(fn):
    a = fn.args
    if a.vararg or a.kwarg or a.posonlyargs:
        die('%s: *args / **kwargs / positional-only parameters are not modelled' % fn.name)
    pos = [(p.arg, d) for p, d in zip(a.args, [None] * (len(a.args) - len(a.defaults)) + list(a.defaults))]
    kwo = [(p.arg, d) for p, d in zip(a.kwonlyargs, a.kw_defaults)]
    return [(p, None if d is None else tree_ast(d, '%s(%s=)' % (fn.name, p))) for p, d in pos + kwo]


def opt_test(t):
    """`not p` -> (p, True); `p is None` -> (p, False); anything else -> None."""
    if isinstance(t, ast.UnaryOp) and isinstance(t.op, ast.Not) and isinstance(t.operand, ast.Name):
        return t.operand.id, True
    if isinstance(t, ast.Compare) and isinstance(t.left, ast.Name) and len(t.ops) == 1 and isinstance(t.ops[0], ast.Is) \
            and isinstance(t.comparators[0], ast.Constant) and t.comparators[0].value is None:
        return t.left.id, False
    return None


def is_copy_of(stmt, p):
    v = stmt.value
    return (isinstance(v, ast.Call) and not v.args and isinstance(v.func, ast.Attribute) and v.func.attr == 'copy'
            and isinstance(v.func.value, ast.Name) and v.func.value.id == p)


def fallbacks(fn):
    opts = [a.arg for a in fn.args.args if a.arg.endswith('_opts')]
    found, understood = [], set()
    for st in fn.body:
        t = opt_test(st.test) if isinstance(st, ast.If) else None
        if t and t[0] in opts:
            p, by_truth = t
            b = st.body
            if not (len(b) == 1 and isinstance(b[0], ast.Assign) and len(b[0].targets) == 1
                    and isinstance(b[0].targets[0], ast.Name) and b[0].targets[0].id == p and isinstance(b[0].value, ast.Dict)):
                die('%s: fall-back for %s (line %d) is not `%s = {literal}`' % (fn.name, p, st.lineno, p))
            for e in st.orelse:
                if not (isinstance(e, ast.Assign) and is_copy_of(e, p)):
                    die('%s: else-branch of the %s fall-back (line %d) is not `%s = %s.copy()`' % (fn.name, p, e.lineno, p, p))
            if any(q == p for q, _ in found):
                die('%s: two fall-backs for %s' % (fn.name, p))
            found.append((p, '(%s, (%s, %s))' % (cstr(p, fn.name), 'true' if by_truth else 'false',
                                               tree_ast(b[0].value, '%s:%s' % (fn.name, p)))))
            understood |= {id(x) for x in ast.walk(st)}
    for n in ast.walk(fn):   # any other rebinding of an option parameter would escape the table
        tg = n.targets if isinstance(n, ast.Assign) else [n.target] if isinstance(n, (ast.AugAssign, ast.AnnAssign)) else []
        for x in tg:
            if isinstance(x, ast.Name) and x.id in opts and id(n) not in understood:
                die('%s: option parameter %s is re-bound at line %d in a way the translator does not know' % (fn.name, x.id, n.lineno))
    return [s for _, s in found], [p for p, _ in found]


def main():
    mod = ast.parse(open(SRC).read(), SRC)
    defs = {n.name: n for n in mod.body if isinstance(n, ast.FunctionDef)}
    if 'get_config' not in defs:
        die('get_config not found in %s' % SRC)
    names = None
    for n in ast.walk(defs['get_config']):
        if isinstance(n, ast.Assign) and isinstance(n.targets[0], ast.Name) and n.targets[0].id == 'sift_types':
            if not (isinstance(n.value, ast.List) and all(isinstance(e, ast.Constant) and isinstance(e.value, str) for e in n.value.elts)):
                die('get_config: sift_types is not a list of string literals')
            names = [e.value for e in n.value.elts]
    if not names:
        die('get_config: the list of sift variants (sift_types) was not found')
    variants = [v for v in names if v in defs]
    absent = [v for v in names if v not in defs]
    if not variants:
        die('none of the variants named by get_config is defined')
    sigs, fbs = [], []
    for f in variants + STAGES:
        if f not in defs:
            die('function %s is not defined at module level in %s' % (f, SRC))
        sigs.append('(%s, [%s])' % (cstr(f, f), ';\n      '.join(
            '(%s, %s)' % (cstr(p, f), 'None' if t is None else 'Some (%s)' % t) for p, t in signature(defs[f]))))
        lits, ps = fallbacks(defs[f])
        if lits:
            fbs.append('(%s, [%s])' % (cstr(f, f), ';\n      '.join(lits)))
        for rf, rp in REQUIRED:
            if rf == f and rp not in ps:
                die('%s: the literal fall-back for %s was not found' % (rf, rp))
    sys.path.insert(0, REPO)
    import emd.sift as impl
    if not os.path.abspath(impl.__file__).startswith(os.path.abspath(REPO) + os.sep):
        die('emd imported from %s, not from %s' % (impl.__file__, REPO))
    trees = []
    for v in variants:
        try:
            c = impl.get_config(v)
        except Exception as e:  # noqa
            die('get_config(%r) raised %s: %s' % (v, type(e).__name__, e))
        if c.sift_type != v or type(c.store) is not dict:
            die('get_config(%r) returned sift_type %r / store of type %s' % (v, c.sift_type, type(c.store).__name__))
        trees.append('(%s, %s)' % (cstr(v, v), tree_obj(c.store, 'get_config(%s)' % v)))
    text = ('(* GENERATED by harness/gen_tables.py from emd/sift.py - do not edit; rewritten on every run. *)\n'
            'From Coq Require Import ZArith List String.\nFrom EmdV Require Import model.Config.\n'
            'Import ListNotations.\nOpen Scope string_scope.\n\n'
            '(* parameters and defaults, from the def lines *)\nDefinition sig_defaults : sigtab :=\n  [%s].\n\n'
            '(* literal fall-back dictionaries at the top of the stage functions *)\nDefinition fallbacks : fbtab :=\n  [%s].\n\n'
            '(* what get_config(variant).store is today *)\nDefinition config_trees : list (string * tree) :=\n  [%s].\n\n'
            '(* named by get_config but not defined in the module (get_config raises for them) *)\n'
            'Definition undefined_variants : list string := [%s].\n'
            % (';\n   '.join(sigs), ';\n   '.join(fbs), ';\n   '.join(trees), '; '.join(cstr(v, v) for v in absent)))
    old = open(OUT).read() if os.path.exists(OUT) else None
    if old != text:
        with open(OUT + '.tmp', 'w') as f:
            f.write(text)
        os.replace(OUT + '.tmp', OUT)
    print('gen_tables: %s (%d functions, %d variants)' % ('unchanged' if old == text else 'rewritten', len(sigs), len(trees)))


if __name__ == '__main__':
    main()
