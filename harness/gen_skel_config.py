"""Control-skeleton tie of the sift configuration object (notes/TIE_CONFIG.md): emd/sift.py -> coq/gen/Gen_Skel_Config.v.

Whole bodies of SiftConfig.__keytransform__, __getitem__, __setitem__, __delitem__, _get_yamlsafe_dict, to_yaml_text,
to_yaml_file, from_yaml_file, from_yaml_stream, get_func and of _array_or_tuple_to_list, as terms of lib/PyLoop.v.
model/SkelPrims_Config.v maps the opaque calls (dict reads / stores / deletes on self.store, str.split, isinstance,
yaml.dump / dump_all / load / load_all) to the association-list operations and the YAML oracles of model/Config.v;
proofs/SkelFacts_Config.v proves the refinements (C18). get_config and _get_function_opts translate too but are not
tied yet (notes/TIE_CONFIG.md), so they are not emitted.
Always exits 0 (fail closed = poisoned file)."""
import gen_skeleton

gen_skeleton.generate(
    'emd/sift.py',
    [('SiftConfig.__keytransform__', 'body', 'keytransform'),
     ('SiftConfig.__getitem__', 'body', 'getitem'),
     ('SiftConfig.__setitem__', 'body', 'setitem'),
     ('SiftConfig.__delitem__', 'body', 'delitem'),
     ('SiftConfig._get_yamlsafe_dict', 'body', 'get_yamlsafe_dict'),
     ('SiftConfig.to_yaml_text', 'body', 'to_yaml_text'),
     ('SiftConfig.to_yaml_file', 'body', 'to_yaml_file'),
     ('SiftConfig.from_yaml_file', 'body', 'from_yaml_file'),
     ('SiftConfig.from_yaml_stream', 'body', 'from_yaml_stream'),
     ('SiftConfig.get_func', 'body', 'get_func'),
     ('_array_or_tuple_to_list', 'body', 'array_or_tuple_to_list')],
    'Gen_Skel_Config.v',
    'Whole bodies of the SiftConfig item / YAML methods, get_func and _array_or_tuple_to_list (C18).',
    modules={'sys', 'logging', 'inspect', 'functools', 'collections', 'mp', 'yaml', 'np', 'signal', 'interp',
             'spectra'},
    logger='logger')
