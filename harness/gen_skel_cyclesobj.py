"""Control-skeleton tie of the Cycles container (notes/TIE_CYCLESOBJ.md): emd/cycles.py -> coq/gen/Gen_Skel_Cyclesobj.v.

Whole bodies of get_subset_vector / get_chain_vector (C16) and of the methods of class Cycles that the state machine of
model/CyclesObj.v describes (C15), as terms of lib/PyLoop.v. model/SkelPrims_Cyclesobj.v maps the opaque calls to
the operations of model/CycleMaps.v / model/CyclesObj.v (self is an explicit record value: attribute reads and
stores are primitives); proofs/SkelFacts_Cyclesobj.v proves the refinements.
Always exits 0 (fail closed = poisoned file)."""
import gen_skeleton

gen_skeleton.generate(
    'emd/cycles.py',
    [('get_subset_vector', 'body'),
     ('get_chain_vector', 'body'),
     ('Cycles.pick_cycle_subset', 'body'),
     ('Cycles.get_matching_cycles', 'body'),
     ('Cycles._parse_condition', 'body'),
     ('Cycles.add_cycle_metric', 'body'),
     ('Cycles._safe_add_metric', 'body'),
     ('Cycles.compute_cycle_metric', 'body'),
     ('Cycles.compute_chain_metric', 'body'),
     ('Cycles.compute_cycle_timings', 'body'),
     ('Cycles.get_metric_dataframe', 'slice:1:', 'Cycles_get_metric_dataframe')],
    'Gen_Skel_Cyclesobj.v',
    'get_subset_vector, get_chain_vector (C16) and the methods of class Cycles (C15).',
    modules={'np', 're', 'warnings', 'functools', 'interp', 'spectra', 'utils', 'sift', '_cycles_support', 'logging', 'pd'},
    logger='logger')
