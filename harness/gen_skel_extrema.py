"""Control-skeleton tie of the extrema / envelope utilities (notes/TIE_EXTREMA.md): emd/sift.py -> coq/gen/Gen_Skel_Extrema.v.

Whole bodies of get_padded_extrema, interp_envelope and _find_extrema, as terms of lib/PyLoop.v.
model/SkelPrims_Extrema.v maps the opaque calls (np.pad, max / min of the padded locations, _find_extrema, -X, np.abs,
np.arange(np.ceil(locs[0]), locs[-1]), the interpolators, env[tinds], signal.argrelextrema, ...) to the operations of
model/Extrema.v and model/Envelope.v; proofs/SkelFacts_Extrema.v proves the refinements (property C05, and C01 through
the envelope pair). Always exits 0 (fail closed = poisoned file)."""
import gen_skeleton

gen_skeleton.generate(
    'emd/sift.py',
    [('get_padded_extrema', 'body'),
     ('interp_envelope', 'body'),
     ('_find_extrema', 'body', 'find_extrema')],
    'Gen_Skel_Extrema.v',
    'Whole bodies of get_padded_extrema, interp_envelope, _find_extrema (C05; C01 through the envelope pair).',
    modules={'np', 'signal', 'interp', 'spectra', 'sys', 'logging', 'inspect', 'functools', 'collections', 'mp', 'yaml'},
    logger='logger',
    call_frame_callee=True)
