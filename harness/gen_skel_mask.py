"""Control-skeleton tie of the masked sift helpers (notes/TIE_MASK.md): emd/sift.py -> coq/gen/Gen_Skel_Mask.v.

Whole bodies of get_next_imf_mask and get_mask_freqs, and the option pre-processing of mask_sift (top-level
statements 0..3: everything above the run of plain assignments that precedes the outer loop, which
props/Prop_Tie_Sift.v already ties), as terms of lib/PyLoop.v. model/SkelPrims_Mask.v maps the opaque calls to
the oracles of model/MaskSift.v / model/Variants.v; proofs/SkelFacts_Mask.v proves the refinements (C07, C06).
Always exits 0 (fail closed = poisoned file)."""
import gen_skeleton

gen_skeleton.generate(
    'emd/sift.py',
    [('get_next_imf_mask', 'body'),
     ('get_mask_freqs', 'body'),
     ('mask_sift', 'slice:0:4', 'mask_sift_pre')],
    'Gen_Skel_Mask.v',
    'Whole bodies of get_next_imf_mask, get_mask_freqs; mask_sift statements 0..3 = the option pre-processing (C07, C06).',
    modules={'np', 'mp', 'functools', 'spectra'},
    logger='logger')
