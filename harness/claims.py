"""What MANIFEST.json claims.  CLAIMED: property -> technique / level text / note.
NOT_CLAIMED: property -> reason (goes to MANIFEST.not_applicable)."""

NOTE = ('Trusted: Coq 8.16.1 kernel + vm_compute; the hand-written model is tied to /repo only by the correspondence '
        'runs of this check (inputs listed in evidence); numpy/scipy internals are oracles; IEEE rounding is outside '
        'the theorems.')

CLAIMED = {
    'C10': dict(
        technique='Coq proof over a Gallina model of digitize / COO accumulation / the 1-D marginal + differential correspondence on edge-hitting integer data + TRANSLATION TIE (Prop_Tie_Spectra.v): the bodies of hilberthuang and hilberthuang_1d are regenerated from the source on every run by a fail-closed ast translator and machine-checked refinement theorems show the hand model computes exactly what the translated program computes for every oracle behaviour',
        text='Theorems (Prop_C10.v) prove for all increasing edge lists and all frequency/amplitude arrays that each cell of the '
             'spectrum is the sum of the weights of exactly the samples whose frequency lies in that half-open bin (in their own time '
             'column), that out-of-range frequencies lie in no bin and a frequency lies in at most one, the same for the 1-D '
             'spectrum, and that the time marginal of the 2-D spectrum equals the IMF marginal of the 1-D one. Correspondence on '
             'every assignment of {below, negative, edge, mid-bin, last edge, above} values to small arrays and random larger ones; '
             'oracle = per-sample brute-force histogram, dense = sparse = marginal.',
        note=NOTE),
    'C11': dict(
        technique='Coq proof over a Gallina model of the folded sparse index / unfold / trim of holospectrum + differential correspondence + TRANSLATION TIE (Prop_Tie_Spectra.v): the bodies of holospectrum are regenerated from the source on every run by a fail-closed ast translator and machine-checked refinement theorems show the hand model computes exactly what the translated program computes for every oracle behaviour',
        text='Theorems (Prop_C11.v) prove fold/unfold of the two bin indices, the output shape, that each cell is the sum of weights of '
             'exactly the samples whose carrier and AM frequencies lie in its two bins (nothing if either is out of range), and that '
             'the time-summed output is the sum over time of the full output. Correspondence + triple-loop oracle on integer data for '
             'all three squash_time settings.',
        note=NOTE),
    'C17': dict(
        technique='Coq proof (loop invariant over the column-by-column greedy assignment, for every query table) + differential correspondence on injected and real K-NN tables + TRANSLATION TIE (Prop_Tie_Kdt.v): the bodies of kdt_match and _unique_inds are regenerated from the source on every run by a fail-closed ast translator and machine-checked refinement theorems show the hand model computes exactly what the translated program computes for every oracle behaviour',
        text='Theorems (Prop_C17.v) prove for EVERY neighbour table (D, inds), K and ny that the returned pair list has no x row and no '
             'y row twice, all indices in range, every matched y among the K candidates of its x, and within the bound under the '
             'query contract. The cKDTree query is an oracle. Correspondence replays injected tables through the real loop and '
             'rank-codes the tables the real cKDTree returns for random/tied arrays; oracle checks injectivity, range, K-NN '
             'membership and bound on the implementation output.',
        note=NOTE),
    'C20': dict(
        technique='Coq proof over a state-machine model of the logger and wrap_verbose (induction over histories) + exhaustive differential correspondence of histories in forked processes + TRANSLATION TIE (Prop_Tie_Logger.v): the bodies of wrap_verbose.inner_verbose, set_level, get_level, disable, enable, is_active, and set_up in Prop_Tie_Misc.v (logger state threaded explicitly) are regenerated from the source on every run by a fail-closed ast translator and machine-checked refinement theorems show the hand model computes exactly what the translated program computes for every oracle behaviour',
        text='Theorems (Prop_C20.v) prove that a decorated call restores the entire logger state whether it returns or raises, in every '
             'state including never-set-up, that the caller sees the function\'s own outcome independent of logger state and override, '
             'and by induction over histories that calls never influence the logger state. Correspondence: every history up to depth '
             '3 (quick) / 4 (thorough) over a 23-op alphabet, each in a freshly forked never-set-up process, get_level() and outcome '
             'after each step, results compared byte-for-byte to a reference.',
        note=NOTE),
    'C12': dict(
        technique='Coq proof over a Gallina model of get_cycle_vector + exhaustive differential correspondence (all phase sequences up to length 6/8 over a 5-value alphabet) + TRANSLATION TIE (Prop_Tie_Cycles.v): the bodies of get_cycle_vector and is_good are regenerated from the source on every run by a fail-closed ast translator and machine-checked refinement theorems show the hand model computes exactly what the translated program computes for every oracle behaviour',
        text='Theorems (Prop_C12.v, closed under the global context) prove for every phase list, threshold set, mask and mode that '
             'detection is total, labels are exactly 0..K-1 in temporal order, each label is one contiguous run without an internal '
             'wrap that begins/ends at a wrap or a recording end, everything else is -1, and all-cycles mode covers every sample '
             'when a wrap exists. The model is tied to emd.cycles.get_cycle_vector by exhaustive comparison on every short phase '
             'sequence plus long synthetic and multi-column phases, and an independent oracle checks the property on the '
             'implementation output itself.',
        note=NOTE),
    'C13': dict(
        technique='Coq proof over a Gallina model of is_good / get_cycle_vector / the container flag + exhaustive differential correspondence + TRANSLATION TIE (Prop_Tie_Cycles.v): the bodies of get_cycle_vector and is_good are regenerated from the source on every run by a fail-closed ast translator and machine-checked refinement theorems show the hand model computes exactly what the translated program computes for every oracle behaviour',
        text='Theorems (Prop_C13.v) prove that a wrap-delimited segment is labelled iff it meets the four criteria (monotone, start '
             'edge, end edge, mask), that good cycles are an order-preserving renumbering (get_subset_vector of a selection) of the '
             'all-cycles partition, and that the container flag agrees with the same criteria. Correspondence over the same '
             'exhaustive phase space x 4 phase_edge values x random/block masks, plus the criteria oracle on the implementation.',
        note=NOTE),
    'C14': dict(
        technique='Coq proof (parametric in the reducing function; exact rational linear interpolation; bin membership via digitize) + differential correspondence + TRANSLATION TIE (Prop_Tie_Cyclestat.v): the bodies of get_cycle_stat, get_cycle_stat_from_samples, get_augmented_cycle_stat_from_samples, bin_by_phase; phase_align in Prop_Tie_Rest.v (the iterator object carries its mode, the interpolant call carries the local callable) are regenerated from the source on every run by a fail-closed ast translator and machine-checked refinement theorems show the hand model computes exactly what the translated program computes for every oracle behaviour',
        text='Theorems (Prop_C14.v) prove for ANY function f of any result type and ANY labelling that the per-cycle statistic is f applied '
             'to precisely the samples carrying the label and that its projection is constant on each cycle and missing elsewhere; that '
             'linear interpolation with extrapolation reproduces any quantity linear in phase exactly at every grid point for every cycle of '
             '>= 2 samples and passes through every sample; and that every phase bin holds the mean of exactly the samples in its '
             'half-open interval (missing only when empty). Correspondence: all label-complete label vectors up to length 6/8 x 6 '
             'functions (exact), integer bin_by_phase (exact), phase_align vs exact rationals (1e-9). Interpolation error for non-linear '
             'quantities is not a theorem (oracle only on linear ones).',
        note=NOTE + ' scipy interp1d(kind=linear, extrapolate) is modelled by its documented formula and validated by the correspondence.'),
    'C16': dict(
        technique='Coq proof over a Gallina model of the 12 index maps and 6 projections + exhaustive differential correspondence (all selection vectors up to length 8/12) + TRANSLATION TIE (Prop_Tie_Maps.v): the bodies of the twelve map_* and six project_* functions are regenerated from the source on every run by a fail-closed ast translator and machine-checked refinement theorems show the hand model computes exactly what the translated program computes for every oracle behaviour + SECOND TRANSLATION TIE (Prop_Tie_Cyclesobj.v): the bodies of get_subset_vector and get_chain_vector are regenerated from the source on every run by a fail-closed ast translator and machine-checked refinement theorems show the hand model computes exactly what the translated program computes for every oracle behaviour',
        text='Theorems (Prop_C16.v) prove for every cycle vector and selection that subset/chain vectors are the ordered numbering / '
             'maximal runs, every map is defined on every existing index, forward-then-backward contains the original sample, '
             'forward maps are none exactly for unlabelled/unselected items, and projections place each value exactly on the items '
             'mapping to it. Correspondence evaluates all maps on every index of every enumerated structure in both array layouts.',
        note=NOTE),
}

CLAIMED['C05'] = dict(
    technique='Coq proof over a Gallina model of _find_extrema / np.pad odd reflection / the re-padding loop / the envelope sample grid + exhaustive differential correspondence (every sequence up to length 7/9 over 3 levels x pad widths 0..5 x 3 modes) + TRANSLATION TIE (Prop_Tie_Extrema.v): the bodies of get_padded_extrema, interp_envelope and _find_extrema are regenerated from the source on every run by a fail-closed ast translator and machine-checked refinement theorems show the hand model computes exactly what the translated program computes for every oracle behaviour',
    text='Theorems (Prop_C05.v) prove for every integer signal that detected peaks/troughs are exactly the strict interior local maxima/minima in temporal '
         'order with the signal\'s own magnitudes, that fewer than two extrema give no envelope, that the re-padding loop terminates, that padding only '
         'adds mirrored (odd-reflected) extrema beyond both ends leaving the interior ones unaltered, strictly ordered in time and covering both edges '
         'for pad width >= 1, hence that the envelope is evaluated at exactly the integer sample times 0..N-1, also for refined (rational) extrema '
         'locations with the repaired grid; the parabolic vertex stays within half a sample of its peak. With the interpolant (FITPACK splrep/splev, PCHIP) '
         'as an ORACLE the envelope itself is proved to exist iff there are >= 2 extrema of its kind, to have one value per sample equal to the '
         'interpolant through the padded extrema at that sample\'s integer time, and - under the contract that the interpolant passes through its '
         'knots - to pass through every unrefined peak / trough. That scipy meets that contract and the values at the sample times are checked by the '
         'oracle on real signals x 3 methods x 3 modes x parabolic on/off (tolerance 1e-9), not proved.',
    note=NOTE + ' np.pad and argrelextrema are modelled concretely and validated exhaustively; spline/PCHIP evaluation is an oracle.')

CLAIMED['C04'] = dict(
    technique='Coq proof over an abstract-oracle model of the extraction loop (any signal type, any envelope / stopping oracle, any limit) + exhaustive scripted correspondence of the real get_next_imf control flow + bit-exact toy-envelope runs + trace conformance on real numerics + TRANSLATION TIE: the control skeleton of get_next_imf / sift / mask_sift is regenerated from emd/sift.py on every run by a fail-closed ast translator and machine-checked refinement theorems (Prop_Tie_Sift.v) show the hand model computes exactly what the translated program computes, for all oracles and fuel + SECOND TRANSLATION TIE (Prop_Tie_Stops.v): the bodies of sd_stop, rilling_stop, fixed_stop, energy_stop, _energy_difference, zero_crossing_count (formulas as compositions of numpy primitives over exact rationals with inf/nan) are regenerated from the source on every run by a fail-closed ast translator and machine-checked refinement theorems show the hand model computes exactly what the translated program computes for every oracle behaviour',
    text='Theorems (Prop_C04.v) prove for EVERY signal type, envelope oracle, stopping oracle, step operator and iteration limit that the result of '
         'get_next_imf is exactly one of: the FIRST iterate x_k (x_0 = X, x_{k+1} = x_k - step*mean envelope) at which the rule fires with its full '
         'envelope mean removed (the n-th for a fixed count n), the first iterate left without envelopes (flagged final iff it is the unmodified '
         'input), or the convergence error after max_iters+1 iterates none of which met the rule (sd/rilling only); that the loop never exhausts '
         'max_iters+2 steps (termination), never returns an unconverged iterate, and that the energy option can only clear the flag. The sd and '
         'Rilling formulas are characterised exactly as rational inequalities with numpy\'s 0/0 and x/0 behaviour. Correspondence: every '
         '(envelope availability x rule decision) script to depth 4/5 x 3 methods x limits through the real function; random integer signals with '
         'integer toy envelopes bit for bit; the real sd_stop/rilling_stop on integer vectors; recorded decisions of real runs replayed through '
         'the model. Oracle: the iterate sequence recomputed from the public stage functions on real signals (guard band 1e-6).',
    note=NOTE + ' Envelope interpolation is an oracle of the theorems (its own properties are C05); fixed with max_iters = 0 is outside the documented range and excluded by the guard.')
CLAIMED['C01'] = dict(
    technique='Coq proof over an abstract model of the outer sift loop (any abelian-group-like signal type, any extraction step) composed with the extraction-loop theorems + bit-exact toy-envelope correspondence of the real sift + completeness oracle on real signals + TRANSLATION TIE: the control skeleton of get_next_imf / sift / mask_sift is regenerated from emd/sift.py on every run by a fail-closed ast translator and machine-checked refinement theorems (Prop_Tie_Sift.v) show the hand model computes exactly what the translated program computes, for all oracles and fuel',
    text='Theorems (Prop_C01.v) prove for every signal type with the two group laws, every extraction step and every threshold test that each layer '
         'is extracted from the input minus the sum of the previous layers, that the loop ends only for the documented reasons (cap, threshold, '
         'cleared flag), and that when it ends because the extraction cleared its flag the components sum to the input exactly and the last one is '
         'the residual itself; the extraction contract (flag cleared => unmodified input without envelopes, or the energy threshold fired) is '
         'proved of get_next_imf as repaired and REFUTED with a witness for the code before the repair; the integer-vector instance meets all '
         'hypotheses; for the CONCRETE extrema layer (real detection and padding, any interpolant) the envelope pair is undefined iff the signal has fewer '
         'than two strict maxima or fewer than two strict minima, hence a sift that ends of its own accord ends on a non-oscillatory residual. Exact arithmetic: "to within rounding" is '
         'the oracle\'s tolerance (1e-9) on real signals x all stop rules x steps x interpolation methods x pad widths.',
    note=NOTE + ' Termination of the OUTER loop is not claimed (it is not part of the property); runs that time out are discarded and counted.')

CLAIMED['C03'] = dict(
    technique='Coq proof over the abstract outer sift loop (any extraction function, so classic and masked alike) and over models of the ensemble / complete-ensemble / second-layer bookkeeping + bit-exact toy-envelope correspondence of all five variants + capped-vs-uncapped and manual-peeling oracle on real numerics + TRANSLATION TIE: the control skeleton of get_next_imf / sift / mask_sift is regenerated from emd/sift.py on every run by a fail-closed ast translator and machine-checked refinement theorems (Prop_Tie_Sift.v) show the hand model computes exactly what the translated program computes, for all oracles and fuel + SECOND TRANSLATION TIE (Prop_Tie_Ensemble.v): the bodies of complete_ensemble_sift, sift_second_layer, ensemble_sift, _sift_with_noise are regenerated from the source on every run by a fail-closed ast translator and machine-checked refinement theorems show the hand model computes exactly what the translated program computes for every oracle behaviour',
    text='Theorems (Prop_C03.v) prove for EVERY per-layer extraction function (classic get_next_imf, or get_next_imf_mask with any frequency/amplitude '
         'schedule) that component k is that extraction applied to the input minus the first k components, that a cap of k >= 1 never yields more than k '
         'components and yields exactly the first k of the uncapped run, and that every component is a well-formed N-sample signal; that mask_sift\'s '
         'effective cap is min(max_imfs, number of explicit frequencies); that ensemble_sift returns exactly cap columns (each the mean over members of '
         'that column) and is defined iff every member has that many; that complete_ensemble_sift as repaired never exceeds its cap for any oracles '
         'and peels each later column from the running residual; that sift_second_layer as repaired returns one zero-padded block of exactly k columns '
         'per first-level component whenever the inner sift respects its cap (proved of the classic sift). The pre-repair code is refuted with '
         'witnesses (cap k -> k+2 columns; overflow of the second-layer block). Finiteness on floats is an oracle check, not a theorem.',
    note=NOTE + ' Member decompositions, noise and the mask extraction are oracles here (C07/C08 treat them); ensembles are compared exactly with zero noise amplitude only.')

CLAIMED['C09'] = dict(
    technique='Coq proof over a Gallina model (canonical rationals, abstract period tau, oracle contracts for Hilbert/angle/abs/envelopes) of gradient / cumsum / wrap / unwrap / medfilt / freq_from_phase / phase_from_freq / frequency_transform + differential correspondence (exact on dyadic data, 1e-9 where the double 2pi enters) + pipeline trace; accuracy clause by oracle sweep only (PARTIAL) + TRANSLATION TIE (Prop_Tie_Freq.v): the bodies of frequency_transform, freq_from_phase, phase_from_freq, phase_from_complex_signal, wrap_phase, amplitude_normalise; quadrature_transform in Prop_Tie_Rest.v are regenerated from the source on every run by a fail-closed ast translator and machine-checked refinement theorems show the hand model computes exactly what the translated program computes for every oracle behaviour',
    text='PARTIAL. Theorems (Prop_C09.v) prove for all inputs over exact rationals: outputs have the input\'s shape; the repaired wrap keeps phase in '
         '[0, tau) for every rounding function (and the pre-repair one is refuted with a witness); IF = (sr/tau) * gradient(U) with IP = wrap(U) for the '
         'same unwrapped U; wrap(unwrap) identity and bounded unwrap steps; median-of-5 smoothing leaves an increasing phase unchanged inside; the '
         'frequency -> phase -> frequency round trip returns (f[k]+f[k+1])/2 inside, exactly f where constant, with the stated end values; a linear phase '
         'gives constant frequency; phase and frequency are unchanged and amplitude scales under positive rescaling GIVEN the homogeneity contracts of '
         'scipy.signal.hilbert / np.angle / np.abs / the envelope oracles (trusted premises, shown jointly satisfiable). NOT PROVED: the accuracy clause '
         '(recovering frequency, amplitude and phase of a sampled sinusoid within tolerance) is a statement about scipy\'s FFT Hilbert transform and the '
         'spline interpolants; it is watched by an oracle sweep with tolerances at 3x the error measured on this tree (regression guard only).',
    note=NOTE + ' IEEE rounding enters only through the explicit rounding function of wrap; np.gradient/np.unwrap/medfilt are modelled concretely and validated on dyadic data.')
CLAIMED['C15'] = dict(
    technique='Coq proof over a state-machine model of the Cycles container (induction over all operation histories; parametric in the reducing function; string-level condition parser) + differential correspondence of random operation histories with cache on and off + model-free oracle + TRANSLATION TIE (Prop_Tie_Cyclesobj.v): the bodies of Cycles.pick_cycle_subset, get_matching_cycles, _parse_condition, add_cycle_metric, _safe_add_metric, and in Prop_Tie_Cyclesobj2.v __init__, compute_cycle_metric, compute_cycle_timings, compute_chain_metric, get_metric_dataframe (container state threaded explicitly, erasure proved) are regenerated from the source on every run by a fail-closed ast translator and machine-checked refinement theorems show the hand model computes exactly what the translated program computes for every oracle behaviour + SECOND TRANSLATION TIE (Prop_Tie_Cyclestat.v): the bodies of make_slice_cache and get_slice_stat_from_samples (cached path = label path) are regenerated from the source on every run by a fail-closed ast translator and machine-checked refinement theorems show the hand model computes exactly what the translated program computes for every oracle behaviour',
    text='Theorems (Prop_C15.v) prove by induction over EVERY operation history (compute metric in cycle/augmented mode for any function, add metric, '
         'timings, pick subset, chain timings, exports) that every stored metric has one entry per cycle and equals the function applied to that '
         'cycle\'s samples, that the subset is exactly the cycles satisfying all condition strings at the time of the pick numbered in order, that chains '
         'are the maximal runs, that chain metrics and exports agree, that a failing pick leaves the container unchanged, that the six comparators and '
         'negative/decimal/exponent literals parse and mean what they say (nan satisfies only !=), and that the slice cache changes neither state nor '
         'outputs over any history; the pre-repair code is refuted with witnesses (zero-cycle cache, augmented definitions, half-updated pick). '
         'Correspondence: corpus + random histories up to length 12 on containers from integer-coded phases, cache on and off, every state component '
         'after every step, exactly.',
    note=NOTE + ' The pandas DataFrame is observed through columns/rows/values only; get_cycle_vector, is_good, index maps and projections are the C12/C13/C16 models. Coherence is read at selection time (a metric overwritten after a pick is not reported as stale).')
CLAIMED['C18'] = dict(
    technique='Coq proof over a Gallina model of SiftConfig (option tree, slash paths, YAML routes with dump/load as contract oracles) + defaults table REGENERATED from emd/sift.py on every run by a fail-closed ast translator and re-proved by computation + differential correspondence of random edit histories and both YAML routes + behavioural oracle + TRANSLATION TIE (Prop_Tie_Config.v): the bodies of eleven SiftConfig methods (item get/set/delete, key transform, both YAML routes, listify, get_func; get_config and _get_function_opts in Prop_Tie_Rest.v against the regenerated signature tables) are regenerated from the source on every run by a fail-closed ast translator and machine-checked refinement theorems show the hand model computes exactly what the translated program computes for every oracle behaviour',
    text='Theorems (Prop_C18.v) prove for all option trees, paths and values that slash-separated key paths read, write and delete exactly the entries '
         'nested indexing does (split/join inverse, depth beyond three levels rejected by all three methods), that a write or delete changes exactly its '
         'own entry and nothing else, that exporting keeps keys and values up to tuple/array -> list, and that both YAML routes (file, text/stream) give '
         'back the same sift type and options under the dump/load contract; the text route and the file route of the code before the repairs are '
         'refuted. default_config_faithful / default_config_exportable are proved by vm_compute over coq/gen/Gen_Defaults.v, which harness/gen_tables.py '
         'regenerates from the source (signatures, literal fall-back dictionaries, get_config output) on every run. Behavioural equality of '
         'variant(x, **get_config(variant)), variant(x) and get_func()(x), and of the callable after a YAML round trip, is an oracle check.',
    note=NOTE + ' PyYAML dump/load and inspect.signature are oracles; the translator is part of the trusted base (fails closed on any unknown AST node).')
CLAIMED['C19'] = dict(
    technique='Coq proof over a Gallina model of the four ensure_* validators on shapes of ANY rank and of which validator each entry point calls + exhaustive differential correspondence on every shape of rank <= 3 over {1,2,3,5} (+ rank 0/4, empty axes) + oracle for non-mutation/determinism (PARTIAL: heap clauses not proved) + TRANSLATION TIE (Prop_Tie_Support.v): the bodies of ensure_vector, ensure_1d_with_singleton, ensure_2d, ensure_equal_dims are regenerated from the source on every run by a fail-closed ast translator and machine-checked refinement theorems show the hand model computes exactly what the translated program computes for every oracle behaviour',
    text='PARTIAL. Theorems (Prop_C19.v) prove for shapes of every rank that (n), (n,1), (n,1,...,1) normalise to the same single-column form for the '
         'single-signal sift routines and every other shape ((n,2), (1,n), (n,2,3), ...) is rejected, the full accept/reject relation and idempotence of '
         'ensure_1d_with_singleton, ensure_vector and ensure_2d as repaired, that ensure_equal_dims accepts iff the compared axes exist and agree, and '
         'that each multi-array entry point (hilberthuang, holospectrum, phase_align, bin_by_phase, get_cycle_vector mask) rejects mismatched lengths and '
         'accepts vector or column; the pre-repair validators are refuted. NOT PROVED (a functional model cannot exhibit heap aliasing or uninitialised '
         'memory): "never modifies its arguments" and "repeating a deterministic call gives an identical result" - watched by the oracle over ~75 entry '
         'points (byte comparison of arrays and option dictionaries before/after, read-only arrays, repeated calls, value equality across layouts).',
    note=NOTE + ' Which validator an entry point calls is hand-modelled and validated by the accept/reject correspondence on the entry points themselves.')

CLAIMED['C06'] = dict(
    technique='Coq proof over a Gallina model of every option-threading call site (parametric in the option values; defaults and fall-back literals from the table REGENERATED from emd/sift.py on every run) + exhaustive traced correspondence of the grid variant x option x route x nprocesses (stage calls recorded in parent and forked workers) + TRANSLATION TIE (Prop_Tie_Options.v): the twelve option-threading functions are regenerated from the source on every run and a STATIC extraction of every call site (positional / keyword / ** splat / starmap tuple / functools.partial binding against the parameter list of the callee, fall-back literals) is proved equal to the call-site functions of the Options.v model',
    text='Theorems (Prop_C06.v) prove for every option value type, every well-formed option set, every variant (classic, masked, ensemble, '
         'complete-ensemble, both second-layer sifts), every delivery route (keyword dicts, SiftConfig unpacking, get_func partial) and every run shape '
         '(numbers of iterations / layers / members / phases) that each recorded stage call of get_next_imf, interp_envelope and get_padded_extrema '
         'receives exactly the supplied options completed by that stage\'s own defaults (no option dropped or replaced by a default), that the three '
         'routes give the same calls, and that this equals the pipeline assembled directly from the stage functions; the three pre-repair call sites '
         '(get_next_imf_mask, get_mask_freqs, the noise sifts of complete_ensemble_sift) are refuted with witnesses. These are plumbing theorems, '
         'shallow on purpose: their weight is the correspondence, which compares the SET of (stage, effective options) records of the real code - '
         'traced by harness-side wrappers inherited by forked workers - with the model on the full grid (420 runs quick, 3456 thorough), plus an '
         'oracle that every call of the option\'s stage received the supplied value and that outputs equal a hand-assembled decomposition.',
    note=NOTE + ' The stage functions are opaque (whether a stage honours an option it received is C05/C04 ground); number and order of calls are not compared.')
CLAIMED['C08'] = dict(
    technique='Coq proof over a model of the noise stream / fork / Pool schedule (all schedules) and of the ensemble and complete-ensemble means + traced correspondence of the real noise realisations across nensembles x nprocesses x modes + bit-exact toy-generator runs + TRANSLATION TIE (Prop_Tie_Ensemble.v): the bodies of ensemble_sift, _sift_with_noise, complete_ensemble_sift are regenerated from the source on every run by a fail-closed ast translator and machine-checked refinement theorems show the hand model computes exactly what the translated program computes for every oracle behaviour',
    text='Theorems (Prop_C08.v) prove for EVERY generator and EVERY valid job-to-worker schedule that with the repaired code member i receives block i '
         'of one stream (stream positions of different members are disjoint), hence that the whole result is schedule independent; that each member is '
         'sift(X+n) or, in flip mode, half of sift(X+n)+sift(X-n) (error when their column counts differ); that each ensemble column is the mean over '
         'members; that with zero noise scale every member and the ensemble equal the classic sift with the same cap (under the stated arithmetic '
         'contracts, discharged for the integer instance); the same for the complete-ensemble variant with its parent-generated matrix; and REFUTE the '
         'pre-repair code (noise drawn in forked workers: two workers give members 0 and 1 the same block). NOT PROVED (the generator\'s contract): '
         'that two different stream blocks hold different numbers. Correspondence/oracle: the noise of every member call is traced in the real worker '
         'processes (digests pairwise distinct for non-zero noise; output = mean of member decompositions recomputed from the traced noise; zero-noise '
         'ensemble = classic sift) over nensembles x nprocesses x {single, flip} x noise levels, plus exact integer toy-generator runs.',
    note=NOTE + ' The OS scheduler is sampled (nprocesses 1..8), not enumerated: the model is fed the schedule the harness observed. Members with different column counts (IndexError in ensemble_sift) are discarded and counted.')

CLAIMED['C02'] = dict(
    technique='Coq proof of ONE equivariance theorem for the abstract extraction loop / outer loop / masked extraction (any map sigma commuting with the oracles), instantiated for scaling by c>0, c<0, sign flip and time reversal over the concrete integer extrema / padding / stop-rule models + exact and guarded differential oracle on real numerics + TRANSLATION TIES (Prop_Tie_Sift.v, Prop_Tie_Extrema.v): the control skeletons of get_next_imf / sift / mask_sift and the bodies of the extrema routines, on whose models the Symmetry model is built, are regenerated from the source on every run and their refinement theorems re-checked (PARTIAL: IEEE bit-exactness not proved; one known finding)',
    text='PARTIAL, with one KNOWN FINDING. Theorems (Prop_C02.v) prove, for every signal type and every map sigma that commutes with the signal '
         'arithmetic and under which the envelope oracle is equivariant and the stop oracles invariant, that get_next_imf and the whole sift of '
         'sigma(X) are sigma applied to those of X (every fuel, limit, method; threshold scaled with |c|), and the same for the masked extraction when '
         'the mask set of sigma(X) is a permutation of sigma applied to that of X; the hypotheses are DISCHARGED for the concrete layer over integer '
         'signals: strict extrema detection, odd-reflection padding, edge padding, the sd / Rilling / energy / threshold rules are equivariant under '
         'scaling by any c <> 0 (upper and lower envelopes swap for c < 0) and under time reversal, and ratio mask amplitudes scale with |c| given '
         'std(c x) = |c| std x; the mask set is closed under negation iff nphases is even (cos(t+pi) = -cos t). The interpolant contract (homogeneity, '
         'knot reflection) is a trusted premise validated against scipy (5e-14). NOT PROVED: bit-for-bit equality for +-2^k (an IEEE fact about FITPACK/'
         'PCHIP) - watched with np.array_equal. KNOWN FINDING C02-mask-neg-odd-nphases: for masked sifts, negative c and odd nphases the law is false of '
         'the documented mask set (mask_scale_neg_odd_refuted); reported as KNOWN-FINDING on every run, not repaired.',
    note=NOTE + ' Arbitrary non-dyadic factors and reversal are compared within 1e-9 under a measured guard band (near-tie extrema, stop metrics within 1e-6 of threshold, zero-crossing counts on exact zeros are discarded and counted).')

CLAIMED['C07'] = dict(
    technique='Coq proof over an abstract model of the masked extraction, the mask-frequency ladder, the amplitude modes and the Pool contract (all schedules), with a fixed-point executable instance + bit-exact toy correspondence of the real get_next_imf_mask / mask_sift (quantised cosine, integer envelopes) + plain-numpy specification oracle and byte-equality across nprocesses + TRANSLATION TIE (Prop_Tie_Mask.v): the bodies of get_next_imf_mask, get_mask_freqs and the preamble of mask_sift (its loop is in Prop_Tie_Sift.v) are regenerated from the source on every run by a fail-closed ast translator and machine-checked refinement theorems show the hand model computes exactly what the translated program computes for every oracle behaviour',
    text='Theorems (Prop_C07.v) prove, for any signal type and extraction oracle, that the masked IMF is the equal-weight mean over j < n of '
         'extraction(X + m_j) - m_j with the SAME mask m_j = amp*cos(2 pi z t + 2 pi j/n) added and subtracted, phases equally spaced, flag = any, '
         'raising iff an extraction raises; that a zero-amplitude mask reduces to plain extraction (under the numpy arithmetic laws, discharged for the '
         'executable instance); that the generated frequencies are z/s^i and explicit lists are used as given, that the returned frequencies are '
         'exactly the ones passed to each layer\'s extraction for all four sources; that amplitudes follow the mode (abs / ratio of the signal\'s std / '
         'ratio of the PREVIOUS returned column\'s std, scalar or per-layer array, numpy scalars included as repaired); and that for EVERY schedule valid '
         'for the Pool contract (each task once, results keyed by task index, pure tasks) starmap returns map f args, hence masked extraction and the '
         'whole masked sift are independent of nprocesses (purity shown necessary). The real multiprocessing/fork/OS scheduler is trusted and '
         'exercised (byte-equal results for nprocesses 1..8), not modelled.',
    note=NOTE + ' libm cosine, std, the zero-crossing / instantaneous-frequency estimators and plain get_next_imf are oracles; ratio amplitude modes have no exact twin (std is irrational) and are compared at 1e-9.')

# ties of round 5 (Prop_Tie_Parab / Wave / Cyciter), wired into these properties' proof steps
_T5 = {
    'Parab': ('props/Prop_Tie_Parab.v: compute_parabolic_extrema (= Extrema.parabolic_vertex on every non-degenerate triplet; strict extrema are '
              'never degenerate; the nan/inf answers on collinear triplets stated), _nsamples_warn, is_imf (new list-level model, option plumbing), '
              'SiftConfig __iter__ / __len__ / __repr__'),
    'Wave': ('props/Prop_Tie_Wave.v: get_cycle_vector_from_waveform (all modes; peaks / troughs outputs proved valid cycle vectors), get_chain_stat, '
             'basis_project, mean_vector'),
    'Cyciter': ('props/Prop_Tie_Cyciter.v: _slice_len, map_cycle_to_samples_augmented, map_subset_to_sample_augmented, get_subset_stat_from_samples, '
                'Cycles.get_inds_of_cycle / iterate / __iter__ / compute_position_in_chain, IterateCycles.niters / __iter__, get_cycle_inds (generators '
                'with yield are outside the translated language)'),
    'Cycgen': ('props/Prop_Tie_Cycgen.v: IterateCycles.__init__ and the four generator methods iterate_cycles / iterate_valids / iterate_subset / '
               'iterate_chains, translated as the functions returning the list of yielded values (normalisation N19; laziness not modelled), with '
               'the laws which items each mode yields and in which order'),
    'Ctrl': ('props/Prop_Tie_Ctrl.v: the eight cf_* control-point helpers (peak / trough = the highest / lowest strict interior local extremum '
             'of the cycle, zero crossings = first neighbouring pair of opposite strict signs, interpolated on a 1000-point grid within 1/1998 of '
             'the linear zero), get_control_point_metrics(_aug), normalised_waveform'),
    'Sift': ('props/Prop_Tie_Sift.v: the loops of get_next_imf / sift / mask_sift, where the stop verdicts of the stages (continue flag, '
             'energy threshold, caps) are consumed'),
    'Gcp': ('props/Prop_Tie_Gcp.v: get_control_points (whole body; the cycle iterator and the cf_* helpers as oracles): one row per item the '
            'iterator yields, in its order; 5 / 6 columns per mode; which helper fills which column; None -> nan; an unknown mode returns only the '
            'nan rows of the too-short cycles'),
    'Util': ('props/Prop_Tie_Util.v: phase_angle, direct_quadrature, phase_from_control_points, frequency_stats (a deprecated alias of '
             'frequency_transform), est_orthogonality (symmetric, unit diagonal for non-zero columns), apply_epochs, find_extrema_locked_epochs '
             '(new list-level models with shape / range / window laws)'),
}
for _pid, _names in {'C05': ['Parab'], 'C06': ['Parab', 'Sift'], 'C18': ['Parab'], 'C12': ['Wave'], 'C15': ['Wave', 'Cyciter', 'Cycgen'], 'C19': ['Wave'],
                     'C16': ['Cyciter'], 'C14': ['Cyciter', 'Cycgen', 'Ctrl', 'Gcp'], 'C09': ['Util']}.items():
    CLAIMED[_pid]['technique'] += ' + further TRANSLATION TIES re-checked on every run: ' + '; '.join(_T5[n] for n in _names)

_PENDING = 'check under construction in this session (model/theorem/correspondence not all in place yet); not claimed until they are'
NOT_CLAIMED = {('C%02d' % i): _PENDING for i in range(1, 21)}
for _p in CLAIMED:
    NOT_CLAIMED.pop(_p, None)
