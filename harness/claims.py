"""What MANIFEST.json claims.  CLAIMED: property -> technique / level text / note.
NOT_CLAIMED: property -> reason (goes to MANIFEST.not_applicable)."""

NOTE = ('Trusted: Coq 8.16.1 kernel + vm_compute; the hand-written model is tied to /repo only by the correspondence '
        'runs of this check (inputs listed in evidence); numpy/scipy internals are oracles; IEEE rounding is outside '
        'the theorems.')

CLAIMED = {}

_PENDING = 'check under construction in this session (model/theorem/correspondence not all in place yet); not claimed until they are'
NOT_CLAIMED = {('C%02d' % i): _PENDING for i in range(1, 21)}
for _p in CLAIMED:
    NOT_CLAIMED.pop(_p, None)
