"""Control-skeleton tie "ctrl" (notes/TIE_CTRL.md): emd/cycles.py -> coq/gen/Gen_Skel_Ctrl.v.

Whole bodies of the eight control-point helpers cf_*, of get_control_point_metrics(_aug) and of normalised_waveform
as terms of lib/PyLoop.v (N16 call_frame_callee, N18 arith_div_pow on).
model/SkelPrims_Ctrl.v maps the opaque calls to list operations over exact rationals / oracles;
proofs/SkelFacts_Ctrl.v proves the refinements.
'interp' is left out of the module aliases: cf_* have a parameter of that name.
(get_control_points translates too - with mutators_as_stores=True for its ctrl.append(..) statements - but is
not tied yet, so it is not emitted.)
Always exits 0 (fail closed = poisoned file)."""
import gen_skeleton

gen_skeleton.generate(
    'emd/cycles.py',
    [('cf_start_value', 'body'),
     ('cf_end_value', 'body'),
     ('cf_peak_sample', 'body'),
     ('cf_peak_value', 'body'),
     ('cf_trough_sample', 'body'),
     ('cf_trough_value', 'body'),
     ('cf_descending_zero_sample', 'body'),
     ('cf_ascending_zero_sample', 'body'),
     ('get_control_point_metrics', 'body'),
     ('get_control_point_metrics_aug', 'body'),
     ('normalised_waveform', 'body')],
    'Gen_Skel_Ctrl.v',
    'Whole bodies of the eight cf_ control point helpers, get_control_point_metrics and _aug, normalised_waveform (C14, C15).',
    modules={'np', 're', 'warnings', 'functools', 'spectra', 'utils', 'sift', '_cycles_support', 'logging'},
    logger='logger', call_frame_callee=True, arith_div_pow=True)
