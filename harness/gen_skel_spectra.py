"""Control-skeleton tie of the spectra (notes/TIE_SPECTRA.md): emd/spectra.py -> coq/gen/Gen_Skel_Spectra.v.

Whole bodies of hilberthuang, hilberthuang_1d and holospectrum, as terms of lib/PyLoop.v.
model/SkelPrims_Spectra.v maps the opaque numpy / scipy.sparse calls to the list operations of model/Spectra.v;
proofs/SkelFacts_Spectra.v proves the refinements (C10, C11). Always exits 0 (fail closed = poisoned file)."""
import gen_skeleton

gen_skeleton.generate(
    'emd/spectra.py',
    [('hilberthuang', 'body'),
     ('hilberthuang_1d', 'body'),
     ('holospectrum', 'body')],
    'Gen_Skel_Spectra.v',
    'Whole bodies of hilberthuang, hilberthuang_1d and holospectrum (C10, C11).',
    modules={'np', 'sparse', 'signal'},
    logger='logger')
