"""Control-skeleton tie of three functions that the earlier ties left untied (notes/TIE_REST.md):

  emd/sift.py     get_config, _get_function_opts   -> coq/gen/Gen_Skel_Rest.v          (C18, model/Config.v + Gen_Defaults.v)
  emd/spectra.py  quadrature_transform             -> coq/gen/Gen_Skel_Restspectra.v   (C09, model/Freq.v)
  emd/cycles.py   phase_align                      -> coq/gen/Gen_Skel_Restcycles.v    (C14, model/CycleStat.v)

Whole bodies, as terms of lib/PyLoop.v, with N16 call_frame_callee switched on (a call of a local callable carries the
callee: `f(phase_bins)` -> ECall "f(phase_bins)" [f; phase_bins]).  model/SkelPrims_Rest.v maps the opaque calls to the
operations of the models; proofs/SkelFacts_Rest.v proves the refinements.
Always exits 0 (fail closed = poisoned file)."""
import gen_skeleton

gen_skeleton.generate(
    'emd/sift.py',
    [('get_config', 'body'),
     ('_get_function_opts', 'body', 'get_function_opts')],
    'Gen_Skel_Rest.v',
    'Whole bodies of get_config and _get_function_opts (C18).',
    modules={'sys', 'logging', 'inspect', 'functools', 'collections', 'mp', 'yaml', 'np', 'signal', 'interp',
             'spectra'},
    logger='logger', call_frame_callee=True)

gen_skeleton.generate(
    'emd/spectra.py',
    [('quadrature_transform', 'body')],
    'Gen_Skel_Restspectra.v',
    'Whole body of quadrature_transform (C09).',
    modules={'np', 'signal', 'sparse', 'logging', 'warnings', 'utils', 'cycles'},
    logger='logger', call_frame_callee=True)

gen_skeleton.generate(
    'emd/cycles.py',
    [('phase_align', 'body')],
    'Gen_Skel_Restcycles.v',
    'Whole body of phase_align (C14).',
    modules={'np', 're', 'warnings', 'functools', 'interp', 'spectra', 'utils', 'sift', '_cycles_support', 'logging'},
    logger='logger', call_frame_callee=True)
