"""Control-skeleton tie "gcp" (notes/TIE_GCP.md): emd/cycles.py -> coq/gen/Gen_Skel_Gcp.v.

Whole body of get_control_points as a term of lib/PyLoop.v (N16 call_frame_callee, N17 mutators_as_stores on: the four
ctrl.append((..)) statements are stores).  model/SkelPrims_Gcp.v maps the cycle iterator and the cf_ helpers to oracles
and gives the list-level model (one row of control points per item of the iterator); proofs/SkelFacts_Gcp.v proves the
refinement.  'interp' is left out of the module aliases: the function has a parameter of that name.
Always exits 0 (fail closed = poisoned file)."""
import gen_skeleton

gen_skeleton.generate(
    'emd/cycles.py',
    [('get_control_points', 'body')],
    'Gen_Skel_Gcp.v',
    'Whole body of get_control_points (C14): one row of control points per cycle the iterator yields.',
    modules={'np', 're', 'warnings', 'functools', 'spectra', 'utils', 'sift', '_cycles_support', 'logging'},
    logger='logger', call_frame_callee=True, mutators_as_stores=True)
