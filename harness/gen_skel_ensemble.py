"""Control-skeleton tie of the ensemble variants (notes/TIE_ENSEMBLE.md): emd/sift.py -> coq/gen/Gen_Skel_Ensemble.v.

Whole bodies of complete_ensemble_sift, sift_second_layer, ensemble_sift and _sift_with_noise, as terms of
lib/PyLoop.v. model/SkelPrims_Ensemble.v maps the opaque calls to the oracles of model/Variants.v and
model/Ensemble.v; proofs/SkelFacts_Ensemble.v proves the refinements. Always exits 0 (fail closed = poisoned file)."""
import gen_skeleton

gen_skeleton.generate(
    'emd/sift.py',
    [('complete_ensemble_sift', 'body'),
     ('sift_second_layer', 'body'),
     ('ensemble_sift', 'body'),
     ('_sift_with_noise', 'body', 'sift_with_noise')],
    'Gen_Skel_Ensemble.v',
    'Whole bodies of complete_ensemble_sift, sift_second_layer, ensemble_sift, _sift_with_noise (C03, C08).',
    modules={'np', 'mp'},
    logger='logger')
