"""Control-skeleton tie of the cycle iteration helpers (notes/TIE_CYCITER.md): two source files, two generated files.

emd/_cycles_support.py -> coq/gen/Gen_Skel_Cycitersupport.v : _slice_len, map_cycle_to_samples_augmented,
    map_subset_to_sample_augmented, get_subset_stat_from_samples (whole bodies)
emd/cycles.py          -> coq/gen/Gen_Skel_Cyciter.v        : Cycles.get_inds_of_cycle, Cycles.iterate, Cycles.__iter__,
    Cycles.compute_position_in_chain, the nested _get_chain_len of compute_chain_timings,
    IterateCycles.niters, IterateCycles.__iter__, get_cycle_inds (whole bodies)
as terms of lib/PyLoop.v. model/SkelPrims_Cyciter.v maps the opaque calls to the list operations that
model/CyclesObj.v / model/CycleMaps.v are written with; proofs/SkelFacts_Cyciter.v proves the refinements (C14, C15, C16).
The four generator methods of IterateCycles (iterate_cycles, iterate_valids, iterate_subset, iterate_chains) are NOT
translated: `yield` fails closed in the translator and the library offers no list-of-yielded-values normalisation.
Always exits 0 (fail closed = poisoned file)."""
import gen_skeleton

MODS = {'np', 're', 'warnings', 'functools', 'interp', 'spectra', 'utils', 'sift', '_cycles_support', 'logging', 'pd'}

gen_skeleton.generate(
    'emd/_cycles_support.py',
    [('_slice_len', 'body', 'slice_len'),
     ('map_cycle_to_samples_augmented', 'body'),
     ('map_subset_to_sample_augmented', 'body'),
     ('get_subset_stat_from_samples', 'body')],
    'Gen_Skel_Cycitersupport.v',
    'Whole bodies of _slice_len, the two augmented maps and get_subset_stat_from_samples of emd/_cycles_support.py (C14, C16).',
    modules={'np'},
    logger='logger',
    call_frame_callee=True)

gen_skeleton.generate(
    'emd/cycles.py',
    [('Cycles.get_inds_of_cycle', 'body'),
     ('Cycles.iterate', 'body'),
     ('Cycles.__iter__', 'body', 'Cycles_iter'),
     ('Cycles.compute_position_in_chain', 'body'),
     ('Cycles.compute_chain_timings._get_chain_len', 'body', 'get_chain_len'),
     ('IterateCycles.niters', 'body'),
     ('IterateCycles.__iter__', 'body', 'IterateCycles_iter'),
     ('get_cycle_inds', 'body')],
    'Gen_Skel_Cyciter.v',
    'Cycles.get_inds_of_cycle, iterate, __iter__, compute_position_in_chain, _get_chain_len; IterateCycles.niters, __iter__; get_cycle_inds (C15, C16).',
    modules=MODS,
    logger='logger',
    call_frame_callee=True)
