"""Control-skeleton tie of the logger (notes/TIE_LOGGER.md): emd/logger.py -> coq/gen/Gen_Skel_Logger.v.

Whole bodies of wrap_verbose.inner_verbose (the closure returned by the decorator: save of the console level,
override, try/finally restore), set_level, get_level, disable, enable and is_active, as terms of lib/PyLoop.v.
model/SkelPrims_Logger.v maps the opaque calls to the state reads / writes of model/Logger.v (the logger state is
threaded through the primitives as an explicit value); proofs/SkelFacts_Logger.v proves the refinements (C20).
Always exits 0 (fail closed = poisoned file)."""
import gen_skeleton

gen_skeleton.generate(
    'emd/logger.py',
    [('wrap_verbose.inner_verbose', 'body', 'inner_verbose'),
     ('set_level', 'body'),
     ('get_level', 'body'),
     ('disable', 'body'),
     ('enable', 'body'),
     ('is_active', 'body')],
    'Gen_Skel_Logger.v',
    'Whole bodies of wrap_verbose.inner_verbose, set_level, get_level, disable, enable, is_active (C20).',
    modules={'sys', 'logging', 'yaml', 'np'},
    logger='logger')
