"""Control-skeleton tie of the index maps (notes/TIE_MAPS.md): emd/_cycles_support.py -> coq/gen/Gen_Skel_Maps.v.

Whole bodies of the twelve map_* and the six project_* functions of emd/_cycles_support.py, as terms of
lib/PyLoop.v. model/SkelPrims_Maps.v maps the opaque calls (numpy expressions, callees) to the list operations of
lib/NpLite.v / the definitions of model/CycleMaps.v; proofs/SkelFacts_Maps.v proves the refinements (C16).
Always exits 0 (fail closed = poisoned file)."""
import gen_skeleton

gen_skeleton.generate(
    'emd/_cycles_support.py',
    [('map_sample_to_cycle', 'body'),
     ('map_cycle_to_samples', 'body'),
     ('map_cycle_to_subset', 'body'),
     ('map_subset_to_cycle', 'body'),
     ('map_sample_to_subset', 'body'),
     ('map_subset_to_sample', 'body'),
     ('map_subset_to_chain', 'body'),
     ('map_chain_to_subset', 'body'),
     ('map_cycle_to_chain', 'body'),
     ('map_chain_to_cycle', 'body'),
     ('map_sample_to_chain', 'body'),
     ('map_chain_to_samples', 'body'),
     ('project_cycles_to_samples', 'body'),
     ('project_subset_to_cycles', 'body'),
     ('project_subset_to_samples', 'body'),
     ('project_chain_to_subset', 'body'),
     ('project_chain_to_cycles', 'body'),
     ('project_chain_to_samples', 'body')],
    'Gen_Skel_Maps.v',
    'Whole bodies of the twelve map_* and six project_* functions of emd/_cycles_support.py (C16).',
    modules={'np'},
    logger='logger')
