"""Python twins of coq/model/Toys.v: integer-valued toy envelopes patched into emd.sift so that the
real get_next_imf / sift / mask_sift / ensemble_sift run on exactly representable data.

cfg = [rule, method(0 sd,1 rilling,2 fixed), max_iters, step_num, step_den, use_energy,
       sd_num, sd_den, r1n, r1d, r2n, r2d, rtn, rtd, sift_thresh*2, cap(0=none), v0 flag]
"""
import contextlib

import numpy as np

METHODS = ['sd', 'rilling', 'fixed']


def strict_maxima(x):
    return [i for i in range(1, len(x) - 1) if x[i] > x[i - 1] and x[i] > x[i + 1]]


def toy_mean(rule, x):
    n = len(x)

    def a(i):
        return x[max(0, min(n - 1, i))]
    out = []
    for i in range(n):
        if rule == 0:
            m = 4 * ((a(i - 1) + 2 * a(i) + a(i + 1)) // 16)
        elif rule == 1:
            m = 4 * ((a(i - 1) + a(i + 1)) // 8)
        elif rule == 2:
            m = 4 * (a(i) // 8)
        elif rule == 3:
            m = 4 * (sum(x) // (4 * n))
        elif rule == 4:
            m = 4 * ((a(i - 2) + a(i - 1) + a(i) + a(i + 1) + a(i + 2)) // 20)
        else:
            m = 4 * ((3 * a(i)) // 16)
        out.append(m)
    return out


def toy_amp(x):
    return 8 + 4 * (max(abs(v) for v in x) // 4)


class ToyDomainError(Exception):
    """the toy (exact integer) domain was left: the case is discarded, never reported"""


class ToyEnvelope:
    """Stand-in for emd.sift.interp_envelope."""

    def __init__(self, rule):
        self.rule = rule
        self.calls = 0          # number of 'upper' evaluations = iterations started
        self.kwargs_seen = []

    def __call__(self, X, mode='upper', interp_method='splrep', extrema_opts=None, ret_extrema=False):
        xs = np.asarray(X).reshape(-1)
        if not np.all(np.isfinite(xs)) or np.abs(xs).max(initial=0) > 2.0 ** 50 or not np.all(xs == np.round(xs)):
            raise ToyDomainError('toy envelope fed a non-integer / overflowing signal')
        x = [int(v) for v in xs]
        if mode == 'upper':
            self.calls += 1
        nmax = len(strict_maxima(x))
        nmin = len(strict_maxima([-v for v in x]))
        if mode == 'upper' and nmax < 2:
            return None
        if mode == 'lower' and nmin < 2:
            return None
        if nmax < 2 or nmin < 2:
            # the other envelope is None: the value of this one is irrelevant, return something valid
            return np.zeros(len(x))
        m = np.array(toy_mean(self.rule, x), dtype=float)
        d = float(toy_amp(x))
        return m + d if mode == 'upper' else m - d


@contextlib.contextmanager
def patched(rule):
    from emd import sift
    real = sift.interp_envelope
    toy = ToyEnvelope(rule)
    sift.interp_envelope = toy
    try:
        yield toy
    finally:
        sift.interp_envelope = real


def imf_opts(cfg):
    o = dict(env_step_size=cfg[3] / cfg[4], max_iters=cfg[2], stop_method=METHODS[cfg[1]],
             sd_thresh=cfg[6] / cfg[7], rilling_thresh=(cfg[8] / cfg[9], cfg[10] / cfg[11], cfg[12] / cfg[13]))
    if cfg[5]:
        o['energy_thresh'] = 20
    return o


def gen_cfg(rng, v0=0, cap=None, energy_ok=True):
    method = rng.choice([0, 0, 1, 2])
    max_iters = rng.choice([1, 2, 3, 5, 8, 20]) if method != 2 else rng.choice([1, 2, 3, 4, 6])
    sn, sd = rng.choice([(1, 8), (1, 2), (1, 64), (3, 4), (1, 1024)])
    r1 = rng.choice([(1, 16), (1, 4), (1, 2)])
    r2 = rng.choice([(1, 2), (1, 1), (3, 1)])
    rt = rng.choice([(1, 16), (1, 4), (1, 2)])
    stepn, stepd = rng.choice([(1, 1), (1, 1), (1, 2), (1, 4)])
    thr2 = rng.choice([1, 1, 1, 41, 201])
    capv = cap if cap is not None else rng.choice([0, 0, 1, 2, 3, 5])
    return [rng.randint(0, 5), method, max_iters, stepn, stepd, int(energy_ok and rng.random() < 0.15),
            sn, sd, r1[0], r1[1], r2[0], r2[1], rt[0], rt[1], thr2, capv, v0]


def gen_signal(rng, n=None):
    n = n or rng.randint(3, 40)
    kind = rng.randint(0, 5)
    if kind == 0:
        x = [rng.randint(-40, 40) for _ in range(n)]
    elif kind == 1:
        x, c = [], 0
        for _ in range(n):
            c += rng.randint(-9, 9)
            x.append(c)
    elif kind == 2:
        per = rng.randint(3, 9)
        amp = rng.randint(4, 60)
        x = [int(round(amp * np.sin(2 * np.pi * i / per))) + rng.randint(-1, 1) * (i // 3) for i in range(n)]
    elif kind == 3:
        x = [rng.choice([-8, 0, 8, 16]) for _ in range(n)]          # plateaus
    elif kind == 4:
        x = [3 * i - 20 for i in range(n)]                          # ramp
    else:
        x = [rng.choice([5, 5, 5, -3])] * n if rng.random() < 0.5 else [((-1) ** i) * rng.randint(1, 30) for i in range(n)]
    return [4 * v for v in x]       # multiples of 4 keep env_step_size 1/2 and 1/4 exact
