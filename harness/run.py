"""Entry point of ./check: dispatches to harness/props/<id>.py:run(ctx)."""
import argparse
import importlib
import json
import os
import sys
import traceback

sys.path.insert(0, os.path.dirname(os.path.abspath(__file__)))
import common  # noqa: E402


def main():
    ap = argparse.ArgumentParser()
    ap.add_argument('pid')
    ap.add_argument('--tier', default=os.environ.get('VERIF_TIER', 'quick'))
    ap.add_argument('--replay', default=None)
    a = ap.parse_args()
    seed = int(os.environ.get('VERIF_SEED', '0') or 0)
    pid = a.pid.upper()
    import emd
    if not os.path.abspath(emd.__file__).startswith(os.path.abspath(common.REPO) + os.sep):
        print('harness error: emd imported from %s, not %s' % (emd.__file__, common.REPO))
        sys.exit(2)
    mod = importlib.import_module('props.' + pid.lower())
    if a.replay:
        rec = json.load(open(a.replay))
        ok = mod.replay(rec)
        print('REPRODUCED' if ok else 'NOT-REPRODUCED')
        sys.exit(1 if ok else 0)
    ctx = common.Ctx(pid, 'thorough' if a.tier == 'thorough' else 'quick', seed)
    try:
        mod.run(ctx)
    except Exception:
        tb = traceback.format_exc()
        print(tb)
        ctx.problem('correspondence-break', 'harness-exception', 'check machinery raised: ' + tb[-1500:],
                    theorem='harness/props/%s.py' % pid.lower())
    sys.exit(ctx.finish())


if __name__ == '__main__':
    main()
