"""Control-skeleton tie of the instantaneous phase / frequency code (notes/TIE_FREQ.md, property C09).

emd/spectra.py -> coq/gen/Gen_Skel_Freq.v      : frequency_transform, phase_from_complex_signal, freq_from_phase,
                                                 phase_from_freq (whole bodies)
emd/utils.py   -> coq/gen/Gen_Skel_Frequtils.v : wrap_phase, amplitude_normalise (whole bodies)
model/SkelPrims_Freq.v maps the opaque numpy / scipy calls to the operations and oracles of model/Freq.v;
proofs/SkelFacts_Freq.v proves the refinements. Always exits 0 (fail closed = poisoned file)."""
import gen_skeleton

# Driver-local extension of the translator's string emitter (the shared library fails closed on any character
# outside printable ASCII): frequency_transform's last error message contains a newline. A string literal with
# a newline / tab is emitted in its Python-escaped spelling (backslash -> two backslashes, newline -> backslash n,
# tab -> backslash t: injective on such strings); every other string goes through the library unchanged, and
# any other control / non-ASCII character still fails closed. Only message texts are affected.
_library_cstr = gen_skeleton.cstr


def _cstr(s, node=None):
    if '\n' in s or '\t' in s:
        s = s.replace('\\', '\\\\').replace('\n', '\\n').replace('\t', '\\t')
    return _library_cstr(s, node)


gen_skeleton.cstr = _cstr

gen_skeleton.generate(
    'emd/spectra.py',
    [('frequency_transform', 'body'),
     ('phase_from_complex_signal', 'body'),
     ('freq_from_phase', 'body'),
     ('phase_from_freq', 'body')],
    'Gen_Skel_Freq.v',
    'Whole bodies of frequency_transform, phase_from_complex_signal, freq_from_phase, phase_from_freq (C09).',
    modules={'np', 'signal', 'utils', 'cycles', 'sparse'},
    logger='logger')

gen_skeleton.generate(
    'emd/utils.py',
    [('wrap_phase', 'body'),
     ('amplitude_normalise', 'body')],
    'Gen_Skel_Frequtils.v',
    'Whole bodies of wrap_phase and amplitude_normalise (C09).',
    modules={'np', 'signal'},
    logger='logger')
