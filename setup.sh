#!/bin/bash
# Offline build of the Coq development (full .vo build) + sanity greps.
set -e
cd "$(dirname "$0")"
mkdir -p .work evidence
export PYTHONPATH=/repo PYTHONHASHSEED=0 PYTHONDONTWRITEBYTECODE=1 PYTHONWARNINGS=ignore
if [ -f harness/gen_tables.py ]; then /venv/bin/python -B harness/gen_tables.py || true; fi
cd coq
coq_makefile -f _CoqProject -o Makefile > /dev/null
timeout 3000 make -j16 2>&1 | tail -40
test "${PIPESTATUS[0]}" = 0
if grep -rnE '\b(Admitted|admit|Axiom|Parameter|Conjecture)\b|Unset Guard|bypass_check' --include='*.v' . | grep -v '^\./gen/.*(\*' ; then
  echo "setup: forbidden construct present"; exit 1
fi
echo "setup: ok"
