#!/bin/bash
# Offline build of the Coq development (full .vo build) + sanity greps.
set -e
cd "$(dirname "$0")"
mkdir -p .work evidence
export PYTHONPATH=/repo PYTHONHASHSEED=0 PYTHONDONTWRITEBYTECODE=1 PYTHONWARNINGS=ignore
for g in harness/gen_*.py; do [ -f "$g" ] && { /venv/bin/python -B "$g" || true; }; done
./tools/mkcoqproject.sh
cd coq
# -k: a file of a property still under construction must not stop the claimed ones from building
timeout 3000 make -k -j16 2>&1 | tail -40 || true
missing=0
for p in $(/venv/bin/python -B -c "import sys; sys.path.insert(0,'../harness'); import claims; print(' '.join(sorted(claims.CLAIMED)))"); do
  if [ ! -f props/Prop_$p.vo ]; then echo "setup: props/Prop_$p.vo did not build"; missing=1; fi
done
test $missing = 0
cd ..
if ! /venv/bin/python -B tools/forbidden_scan.py; then
  echo "setup: forbidden construct present"; exit 1
fi
echo "setup: ok"
