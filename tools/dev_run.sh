#!/bin/bash
# development only: runs a check's correspondence/oracle parts WITHOUT the proof step and without writing evidence/replays
cd "$(dirname "$0")/.."
export EMD_REPO="${EMD_REPO:-/repo}"
export PYTHONPATH="$EMD_REPO" PYTHONHASHSEED=0 OMP_NUM_THREADS=1 OPENBLAS_NUM_THREADS=1 MKL_NUM_THREADS=1 PYTHONDONTWRITEBYTECODE=1 PYTHONWARNINGS=ignore EMD_VERIF_TRACE=1
/venv/bin/python -B - "$@" <<'P'
import sys, os, json, importlib, time
sys.path.insert(0, 'harness')
import common
pid, tier = sys.argv[1].upper(), (sys.argv[2] if len(sys.argv) > 2 else 'quick')
common.Ctx.proof = lambda self, *a, **k: True
ctx = common.Ctx(pid, tier, int(os.environ.get('VERIF_SEED', '0')))
mod = importlib.import_module('props.' + pid.lower())
t = time.time()
mod.run(ctx)
print('evaluations', ctx.evaluations, 'nontrivial', len(ctx.nontrivial), 'discarded', ctx.discarded, 'exact', ctx.exact_cmp, 'tol', ctx.tol_cmp, '%.1fs' % (time.time() - t))
print(json.dumps(dict(ctx.hist), indent=0)[:3000])
for p in ctx.problems[:6]:
    print('PROBLEM', p['kind'], p['site'], p['what'][:600]); print('   input', str(p['input'])[:600]); print('   observed', str(p['observed'])[:300]); print('   expected', str(p['expected'])[:300])
import shutil; shutil.rmtree(ctx.work, ignore_errors=True)
P
