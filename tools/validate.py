#!/usr/bin/env python3-vt
"""Validates MANIFEST.json and every evidence file against the given schemas."""
import json, glob, sys
import jsonschema
ok = True
def v(path, schema):
    global ok
    try:
        jsonschema.validate(json.load(open(path)), json.load(open(schema)))
    except Exception as e:
        ok = False
        print('INVALID', path, str(e)[:300])
v('/verif/MANIFEST.json', '/root/.vp/MANIFEST.schema.json')
for f in sorted(glob.glob('/verif/evidence/*.json')):
    v(f, '/root/.vp/EVIDENCE.schema.json')
print('all valid' if ok else 'PROBLEMS')
sys.exit(0 if ok else 1)
