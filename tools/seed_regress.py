#!/usr/bin/env python3
"""seed_regress.py [-j N] [ids...]  - development tool (never run by a check): re-applies every kept seeded change
(seeded/<id>/patch.diff) to a scratch worktree of /repo's CURRENT HEAD and runs the property's quick check against it
(EMD_REPO=<worktree>), to confirm that the checks as they are now still catch the changes they were strengthened for.
Prints one line per seed: detected with a concrete input / detected without one / MISSED / patch no longer applies.
Worktrees live under /tmp/sr_<id> and are removed again; nothing is written to seeded/."""
import concurrent.futures
import glob
import hashlib
import json
import os
import re
import subprocess
import sys

VERIF = '/verif'


def run(cmd, **kw):
    return subprocess.run(cmd, shell=True, capture_output=True, text=True, **kw)


def one(sid):
    pid = sid.split('-')[0]
    wt = '/tmp/sr_%s' % sid
    run('git -C /repo worktree remove --force %s' % wt)
    r = run('git -C /repo worktree add -q --detach %s HEAD' % wt)
    if r.returncode:
        return sid, 'worktree-failed', r.stderr[-200:]
    try:
        patch = os.path.join(VERIF, 'seeded', sid, 'patch.diff')
        a = run('git -C %s apply --3way %s || git -C %s apply %s' % (wt, patch, wt, patch))
        if a.returncode:
            return sid, 'patch-does-not-apply', a.stderr[-200:].replace('\n', ' ')
        env = dict(os.environ, EMD_REPO=wt, VERIF_SEED='0')
        c = run('cd %s && timeout 1500 ./check %s --tier quick' % (VERIF, pid), env=env)
        lines = [l for l in c.stdout.splitlines() if l.startswith('VIOLATION')]
        if not lines:
            return sid, 'MISSED', 'exit %d' % c.returncode
        concrete = [l for l in lines if 'no-failing-input-found' not in l]
        return sid, ('concrete' if concrete else 'tie-only'), '%d violation line(s)' % len(lines)
    finally:
        run('rm -rf %s/.work/coq-alt-%s' % (VERIF, hashlib.sha1(os.path.abspath(wt).encode()).hexdigest()[:10]))
        run('git -C /repo worktree remove --force %s' % wt)
        run('git -C /repo worktree prune')


def main():
    args = sys.argv[1:]
    j = 4
    if args[:1] == ['-j']:
        j = int(args[1])
        args = args[2:]
    ids = args or sorted(os.path.basename(d.rstrip('/')) for d in glob.glob(os.path.join(VERIF, 'seeded', '*/')))
    ids = [i for i in ids if re.match(r'C\d\d-\d+$', i)]
    res = {}
    with concurrent.futures.ThreadPoolExecutor(max_workers=j) as ex:
        for sid, status, detail in ex.map(one, ids):
            res[sid] = status
            print('%-8s %-22s %s' % (sid, status, detail), flush=True)
    summary = {}
    for v in res.values():
        summary[v] = summary.get(v, 0) + 1
    print('SUMMARY', json.dumps(summary, sort_keys=True))
    run('cd %s && git checkout -- evidence && rm -rf .work/coq-alt-*' % VERIF)


if __name__ == '__main__':
    main()
