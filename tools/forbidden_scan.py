#!/venv/bin/python
"""Scans every .v file of the development for forbidden constructs (Admitted, admit, Axiom, Parameter, Conjecture, Variable /
Hypothesis outside a Section, kernel-check switches, native_compute), ignoring string literals and comments.  Exit 1 if any."""
import glob, os, re, sys
sys.path.insert(0, os.path.join(os.path.dirname(os.path.dirname(os.path.abspath(__file__))), 'harness'))
os.environ.setdefault('EMD_REPO', '/repo')
import common
bad = []
for f in sorted(glob.glob(os.path.join(common.VERIF, 'coq', '*', '*.v'))):
    src = open(f).read()
    nocom = re.sub(r'\(\*.*?\*\)', ' ', re.sub(r'"(?:[^"]|"")*"', '""', src), flags=re.S)
    for t in common.forbidden_tokens(nocom):
        bad.append('%s: %s' % (os.path.relpath(f, common.VERIF), t))
if bad:
    print('\n'.join(bad[:20]))
    sys.exit(1)
print('forbidden-construct scan: clean (%d files)' % len(glob.glob(os.path.join(common.VERIF, 'coq', '*', '*.v'))))
