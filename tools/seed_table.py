#!/usr/bin/env python3
"""Prints the markdown table of seeded changes (seeded/*/meta.json) for DESIGN.md section 10.4."""
import glob, json, os
rows = []
for d in sorted(glob.glob('/verif/seeded/*/')):
    m = json.load(open(os.path.join(d, 'meta.json')))
    c = m.get('confirmed_by_me', {})
    det = []
    for chk, v in (c.get('checks') or {}).items():
        kinds = sorted({r['kind'] for r in v.get('replays', [])}) or (['(exit %s)' % v.get('exit')])
        sites = sorted({r['site'] for r in v.get('replays', [])})
        nf = any('no-failing-input-found' in ln for ln in v.get('lines', []))
        if v.get('exit') == 1:
            det.append('%s: %s%s%s' % (chk, '/'.join(kinds), ' @ ' + ', '.join(sites)[:60] if sites else '', ' (no failing input)' if nf and 'impl-violation' not in kinds else ''))
    name = os.path.basename(d.rstrip('/'))
    summ = (m.get('summary') or '')[:170].replace('|', '/').replace('\n', ' ')
    rows.append('| %s | %s | %s | %s |' % (name, summ, 'yes' if c.get('confirmed') else 'NO', '; '.join(det) if det else '**missed**'))
print('| seed | change | confirmed | caught by |\n|---|---|---|---|')
print('\n'.join(rows))
