#!/usr/bin/env python3
"""Confirm a seeded change and run the registered check against it.

usage: tools/seed_eval.py <Cxx> <k> [--checks C10,C11] [--tier quick]
  reads /tmp/mut_<Cxx>/out/mutant<k>.diff, demo<k>.py, meta<k>.json
  1. confirms in the scratch worktree: suite passes with the change, demo exits 1 with it and 0 without
  2. applies the change to /repo, runs ./check for the property (and any extra checks), undoes it straight away
  3. stores /verif/seeded/<Cxx>-<k>/ {patch.diff, demo.py, meta.json} with what was run and what detected it
"""
import json
import os
import shutil
import subprocess
import sys

VERIF = os.path.dirname(os.path.dirname(os.path.abspath(__file__)))


def sh(cmd, cwd=None, env=None, timeout=3000):
    p = subprocess.run(cmd, shell=True, cwd=cwd, env=env, capture_output=True, text=True, timeout=timeout)
    return p.returncode, p.stdout + p.stderr


def main():
    pid, k = sys.argv[1], sys.argv[2]
    checks = [pid]
    tier = 'quick'
    for i, a in enumerate(sys.argv):
        if a == '--checks':
            checks = sys.argv[i + 1].split(',')
        if a == '--tier':
            tier = sys.argv[i + 1]
    wt = '/tmp/mut_%s' % pid
    out = os.path.join(wt, 'out')
    diff, demo, meta = (os.path.join(out, n % k) for n in ('mutant%s.diff', 'demo%s.py', 'meta%s.json'))
    env = dict(os.environ, PYTHONPATH=wt, PYTHONWARNINGS='ignore')
    res = dict(property=pid, k=k)
    sh('git checkout -- emd', cwd=wt)
    rc, o = sh('git apply %s' % diff, cwd=wt)
    if rc:
        print('patch does not apply in worktree', o)
        return 2
    rc, o = sh('timeout 900 /venv/bin/python -m pytest -q -p no:cacheprovider --timeout=900 2>&1 | tail -3', cwd=wt, env=env)
    res['suite_with_change'] = o.strip().splitlines()[-1] if o.strip() else ''
    rc1, o1 = sh('timeout 900 /venv/bin/python %s' % demo, cwd=wt, env=env)
    sh('git checkout -- emd', cwd=wt)
    rc0, o0 = sh('timeout 900 /venv/bin/python %s' % demo, cwd=wt, env=env)
    res['demo_exit_with_change'] = rc1
    res['demo_exit_clean'] = rc0
    res['demo_output_with_change'] = o1[-600:]
    confirmed = ('passed' in res['suite_with_change'] and 'failed' not in res['suite_with_change']
                 and rc1 != 0 and rc0 == 0)
    res['confirmed'] = confirmed
    print('confirm:', res['suite_with_change'], '| demo with change exit', rc1, '| clean exit', rc0, '| confirmed', confirmed)
    # run the registered checks against it
    via_env = '--in-repo' not in sys.argv
    if via_env:
        # the changed tree is the scratch worktree (same HEAD as /repo + the change); /repo itself is left alone so that
        # other work going on against /repo is not disturbed
        rc, o = sh('git rev-parse HEAD', cwd=wt)
        rc2, o2 = sh('git -C /repo rev-parse HEAD')
        if o.strip() != o2.strip():
            print('worktree is not at /repo HEAD', o, o2)
            return 2
        rc, o = sh('git apply %s' % diff, cwd=wt)
        cenv = dict(os.environ, EMD_REPO=wt)
    else:
        rc, o = sh('git -C /repo status --porcelain')
        if o.strip():
            print('/repo is not clean, refusing', o)
            return 2
        rc, o = sh('git -C /repo apply %s' % diff)
        cenv = dict(os.environ)
    if rc:
        print('patch does not apply', o)
        return 2
    det = {}
    try:
        for c in checks:
            rc, o = sh('./check %s --tier %s' % (c, tier), cwd=VERIF, env=cenv)
            lines = [ln for ln in o.splitlines() if ln.startswith('VIOLATION') or ln.startswith('KNOWN-FINDING')]
            det[c] = dict(exit=rc, lines=lines[:4])
            for ln in lines[:2]:
                if 'replay=' in ln:
                    rp = ln.split('replay=')[1].split()[0]
                    try:
                        r = json.load(open(rp))
                        det[c].setdefault('replays', []).append(dict(kind=r['kind'], site=r['site'], what=r['what'][:300],
                                                                     input=str(r.get('input'))[:300]))
                    except Exception:
                        pass
            print('check', c, 'exit', rc, lines[:3])
    finally:
        if via_env:
            sh('git checkout -- emd', cwd=wt)
        else:
            sh('git -C /repo checkout -- .')
    res['checks'] = det
    res['detected'] = any(v['exit'] == 1 for v in det.values())
    dst = os.path.join(VERIF, 'seeded', '%s-%s' % (pid, k))
    os.makedirs(dst, exist_ok=True)
    shutil.copy(diff, os.path.join(dst, 'patch.diff'))
    shutil.copy(demo, os.path.join(dst, 'demo.py'))
    m = json.load(open(meta)) if os.path.exists(meta) else {}
    m.update(breaks_property=pid, confirmed_by_me=res, ran=['suite in scratch worktree with the change', 'demo with/without the change',
             ('EMD_REPO=<scratch worktree at /repo HEAD + the change> ' if via_env else '') + './check %s --tier %s%s' % (','.join(checks), tier, '' if via_env else ' with the change applied to /repo, then git checkout')])
    json.dump(m, open(os.path.join(dst, 'meta.json'), 'w'), indent=1)
    # evidence files were rewritten by the run on the changed tree: restore the committed ones
    sh('git checkout -- evidence', cwd=VERIF)
    print('detected:', res['detected'])
    return 0


if __name__ == '__main__':
    sys.exit(main())
