#!/bin/bash
# Regenerates coq/_CoqProject from the directory contents (coq_makefile orders by coqdep) and the Makefile when it changed.
cd "${1:-$(dirname "$0")/../coq}"
{
  echo "-Q . EmdV"
  echo "-arg -w -arg -notation-overridden,-deprecated-hint-without-locality,-deprecated-syntactic-definition"
  ls lib/*.v model/*.v gen/*.v proofs/*.v props/*.v 2>/dev/null | LC_ALL=C sort
} > _CoqProject.new
if ! cmp -s _CoqProject.new _CoqProject || [ ! -f Makefile ]; then
  mv _CoqProject.new _CoqProject
  coq_makefile -f _CoqProject -o Makefile > /dev/null
else
  rm -f _CoqProject.new
fi
