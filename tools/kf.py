#!/usr/bin/env python3
"""kf.py <property> <id> <site> <commit> <what_fails>  - appends a 'fixed' entry to known_findings.json (development tool; never run by a check)"""
import json, sys
prop, fid, site, commit, what = sys.argv[1:6]
p = '/verif/known_findings.json'
k = json.load(open(p))
assert not any(e['id'] == fid for e in k), 'duplicate id'
k.append(dict(status='fixed', property=prop, id=fid, site=site, commit=commit, what_fails=what, replay='findings/%s.json' % fid))
json.dump(k, open(p, 'w'), indent=1)
print('recorded', fid)
