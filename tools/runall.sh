#!/bin/bash
# runs every claimed check's quick (or $1) tier, 4 at a time; prints the summary lines
cd "$(dirname "$0")/.."
tier="${1:-quick}"
ids=$(/venv/bin/python -B -c "import sys; sys.path.insert(0,'harness'); import claims; print(' '.join(sorted(claims.CLAIMED)))")
echo $ids | tr ' ' '\n' | xargs -P 4 -I{} bash -c "./check {} --tier $tier > .work/out_{}.txt 2>&1; echo \"{} exit=\$?\"; grep -E 'VIOLATION|KNOWN-FINDING|tier=' .work/out_{}.txt | tail -5"
