#!/bin/bash
# typechecks the STATEMENTS of a props file in a scratch copy (proofs replaced by Admitted; nothing is kept)
f="$1"; d=$(mktemp -d /tmp/tc.XXXX)
python3 - "$f" "$d/T.v" <<'P'
import re,sys
s=open(sys.argv[1]).read()
s=re.sub(r'Proof\.\s*exact.*?Qed\.', 'Admitted.', s, flags=re.S)
s=re.sub(r'From EmdV Require Import (.*?)\.\n', lambda m: 'From EmdV Require Import '+' '.join(x for x in m.group(1).split() if not x.startswith('proofs.'))+'.\n', s)
s=re.sub(r'Print Assumptions.*\n','',s)
open(sys.argv[2],'w').write(s)
P
cd /verif/coq && timeout 300 coqc -q -Q . EmdV "$d/T.v" -o "$d/T.vo" && echo "statements typecheck"
rm -rf "$d"
