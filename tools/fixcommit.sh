#!/bin/bash
# fixcommit.sh <patch> <commit message file>   - applies a patch to /repo, runs the baseline suite, commits (development tool)
set -e
cd /repo
git apply --3way "$1" 2>/dev/null || git apply "$1" || patch -p1 < "$1"
timeout 1800 /venv/bin/python -m pytest -q -p no:cacheprovider --timeout=900 -x 2>&1 | tail -1
git commit -qa -F "$2"
git log --oneline | head -1
